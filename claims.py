"""Per-property claim texts for MANIFEST.json (see tools/gen_manifest.py)."""

TB = "Trusted base: python ast, /verif/sa engine (program model cross-checked against the live class registry), the oracle tables in the rule module, and the reference semantics of index notation in sa/uflsem.py where formulas are lifted."

CLAIMS = {
    "C06": {
        "level": "proof",
        "text": "Every closed-form table of compound_expressions.py (determinants up to 5x5, adjugate/cofactor/inverse 2x2..4x4, deviatoric, cross, pseudo-determinant/-inverse for rectangular shapes) and every LowerCompoundAlgebra handler is lifted from the current source to rational functions over Q in symbolic operand entries and shown equal, entry by entry, to the textbook definition computed by the checker. Polynomial identity => holds for all real and complex operand values; conjugation conventions are checked with conj as an involution on symbols. Obligations = one identity per function/handler x shape.",
        "note": "Decides the formulas for the enumerated shapes (all shapes the tables support; contraction operators on ranks <= 3). Does not decide construction-time simplification inside as_tensor etc. (C05). " + TB,
        "technique": "abstract interpretation of the formula tables into Q[x] (constant propagation of shapes, unrolling, inlining) + exact polynomial normal forms against an oracle",
    },
    "C02": {
        "level": "other",
        "text": "Rule-table soundness of the derivative rulesets: for each of the 7 rulesets x every concrete expression type the resolved rule is checked for exhaustiveness, operand arity and unjustified zero rules; every operator rule of Generic/GateauxDerivativeRuleset with a reference model (arithmetic, power, abs/conj/real/imag, 13 math functions, atan2, 4 Bessel families, min/max, conditional, restrictions, indexing, list/component tensors, index sums, variables, averages) is lifted from source on symbolic operands (scalar, free indices, variable shapes (),(2,)[,(2,2)]) and shown equal to the formal derivative of the node type it is registered for; Gateaux terminal rules incl. user-supplied coefficient-derivative relations are lifted; memo tables in the dispatchers must be keyed by all inputs of the cached value. Necessary conditions of the property, not the whole property.",
        "note": "Not decided: argument pairing in formoperators.derivative, BaseFormOperator rules, component-wise variations in the Gateaux Grad rule, composition over whole expressions (follows from the per-node homomorphism only under the traversal's correctness, see C19). " + TB,
        "technique": "dispatch-table resolution on the AST + abstract interpretation of rule bodies into a term algebra compared with a calculus oracle (exact for rational rules, random interpretation for transcendental ones) + memo-key dataflow rule",
    },
    "C03": {
        "level": "other",
        "text": "GradRuleset/ReferenceGradRuleset: table checks; all generic operator rules lifted for gradient variable shapes and compared with the formal derivative; every terminal rule lifted on symbolic terminals for (gdim,tdim) in {(2,2),(3,3),(3,2)} with the ruleset object produced by lifting its own __init__ (grad x = I, grad X = K, grad f = Grad f or 0 if cell-wise constant, geometry via K[j,i]*rgrad[r,j], nesting guards raise); lowering of div/nabla_div/nabla_grad/curl compared with the index definitions; the dispatcher picks the ruleset and the dimension from the last axis.",
        "note": "MeshSequence branches not instantiated; is_cellwise_constant / extract_unique_domain are oracles on symbolic terminals. " + TB,
        "technique": "abstract interpretation of rule bodies into a term algebra vs oracle; dispatch-table and AST guard checks",
    },
    "C04": {
        "level": "other",
        "text": "VariableRuleset: table checks; generic rules lifted for variable shapes (),(2,),(2,2) (result shape f.shape+v.shape by construction); _make_identity equals the Kronecker identity for ranks 0..3; Variable/Coefficient/ReferenceValue/Grad rules lifted with the ruleset built by lifting __init__: dv/dv = Id exactly for the differentiation variable (same label even if the wrapped expression was rewritten), chain rule / zero otherwise; VariableDerivative construction reports f.shape+v.shape, folds unrelated terminals to the right Zero and rejects variables with free indices.",
        "note": "Composition over nested variables follows from the per-node rules under traversal correctness (C19); not separately decided. " + TB,
        "technique": "abstract interpretation of rule bodies into a term algebra vs oracle",
    },
    "C07": {
        "level": "other",
        "text": "Every GeometryLoweringApplier handler is lifted from source on affine simplices with symbolic vertex coordinates (interval in R^1..3, triangle in R^2..3, tetrahedron; all facets; both orientations for immersed cells) and compared with the quantity computed directly from the vertices (Gram determinants, Cayley-Menger circumradius - symmetric in the vertices, pairwise vertex distances, defining properties of unit normals incl. orientation). Rational identities exact; sqrt/abs/min/max identities by random interpretation of the lifted terms over real vertex coordinates including orientation-reversing cells. Guards for non-affine cells and preserve_types checked.",
        "note": "Reference simplex numbering (edges/facets/reference normals) is a frozen basix/UFC table in the rule because it lives outside UFL. Non-affine cells: guards only. " + TB,
        "technique": "abstract interpretation of the lowering handlers on a symbolic affine cell + exact / random-interpretation comparison with a vertex-based oracle",
    },
    "C09": {
        "level": "other",
        "text": "JacobianCanceller, IdentityEliminator and ReciprocalCanceller (and their composition) are lifted as whole passes on a family of structured symbolic expressions over a symbolic Jacobian whose inverse carries the value of the true (pseudo-)inverse, for square and immersed geometries (K J = I always, J K = I only when square; transposed index patterns; different domains; nested / interchanged sums; identity contraction and folding; reciprocal powers incl. fractional outer exponents on negative bases); each result's meaning is compared exactly with the input's. Memo tables must be keyed by all inputs; substitution through binders is a structural rule. Known finding F9a (substitution captures a bound index) is reported as KNOWN-FINDING.",
        "note": "Finite expression family (dims 2,3; ranks <= 2); traversal driver modelled in sa/passlift.py; bases of powers compared by identity in the model. " + TB,
        "technique": "abstract interpretation of whole rewriting passes on structured symbolic expressions (dispatch resolved from the AST) + exact comparison of meanings; memo-key dataflow rule",
    },
    "C10": {
        "level": "other",
        "text": "remove_component_tensors, renumber_indices and expand_indices are lifted as whole passes on structured symbolic expressions (one Index object reused in sibling / nested scopes, fixed/free mixes, zeros with free indices of different dimensions, variables) and each result's meaning is compared exactly with the input's (up to the pass's own injective relabelling); IndexExpander's component / index-value stacks must be empty afterwards; binder hygiene of substituting MultiFunctions and label-keyed memos of context-sensitive transformers are structural rules. Known finding F10b is reported as KNOWN-FINDING.",
        "note": "Finite expression family; traversal drivers (incl. the right-to-left order of the cut-off traversal) modelled in sa/passlift.py. " + TB,
        "technique": "abstract interpretation of whole passes on structured symbolic expressions + exact comparison of meanings; structural binder-hygiene and memo rules",
    },
    "C19": {
        "level": "other",
        "text": "Structural necessary conditions decided on the AST: visited-set discipline and post-order yield placement in the six traversals, operand/result cache wiring and cut-off consistency in map_expr_dags, first-hit MRO handler resolution in MultiFunction/Transformer, memo-key completeness and injectivity in DAGTraverser.__call__, and handler exhaustiveness of all 40 algorithm classes (tables cross-checked against the live registries).",
        "note": "Does not decide equivalence with the recursive definition (needs loop invariants of the traversals). " + TB,
        "technique": "guard/dominance queries on the AST of the traversal and mapping functions; dispatch-table exhaustiveness; memo-key rule",
    },
    "C20": {
        "level": "other",
        "text": "Class-level handler caches are discovered by rule; each must re-validate the fetched entry against the live type registry on every read, size and fill its per-typecode table from the live registry (never an import-time snapshot), and key by the algorithm class; typecode-indexed subscripts are classified; DAGTraverser classes must dispatch through singledispatchmethod.",
        "note": "Relies on CPython's singledispatch cache invalidation on register(); instances created before a registration and reused afterwards are out of scope. " + TB,
        "technique": "dataflow rule on cache fetch/validate/rebuild sites and registry expressions (AST, resolved names)",
    },
    "C21": {
        "level": "other",
        "text": "Replacer is lifted as a whole pass on structured expressions x mappings (terminal, compound, zero and simultaneous images; restrictions, variables, conditionals) and the result's meaning compared with the substituted meaning; expressions without mapped terminals are returned unchanged; shape-changing mappings (also mixed with valid entries) raise; derivative handling and truthiness-of-image idioms checked.",
        "note": "Images without free indices; terminals looked up by identity in the model. " + TB,
        "technique": "abstract interpretation of the pass on structured symbolic expressions vs semantic substitution oracle",
    },
    "C23": {
        "level": "other",
        "text": "CheckComparisons is lifted on 27 operand shapes x 6 ordering constructs x 2 positions: whenever a comparison is accepted, the operand's lifted term must be real under complex data for possibly-complex terminals (soundness), every compared operand is wrapped in Real and the rewritten expression has the same meaning for real data; ComplexNodeRemoval lifted (conj/real removed, imag and complex literals raise); complex_mode guards of the pipeline checked on the AST.",
        "note": "Completeness (accepting every real comparison) is not part of the property. " + TB,
        "technique": "abstract interpretation of the passes + random interpretation of operand terms over complex/real data; AST guard checks",
    },
    "C24": {
        "level": "other",
        "text": "evaluate() of each operator class (arithmetic, power, abs/conj/real/imag, 13 math functions via the name passed to MathFunction.__init__, atan2, min/max, the six comparisons, and/or/not, conditional, indexed, index sum, component tensor, list tensor, variable, restriction, grad, Identity, PermutationSymbol) is lifted from source on symbolic operands that reject ill-fitting components and unbound indices; for every component and free-index assignment the result must equal the entry of the node's mathematical value, and the index binding table must be restored.",
        "note": "Not lifted: Bessel (scipy), terminal lookup in the user mapping, derivative callables, expand_derivatives inside Expr.__call__. " + TB,
        "technique": "abstract interpretation of evaluate() bodies on symbolic operands vs reference semantics; typestate (push/pop restored) via the modelled binding table",
    },
    "C25": {
        "level": "other",
        "text": "The six comparison operators of SobolevSpace/DirectionalSobolevSpace are evaluated from source by constant propagation (object model with Python's reflected-operand and total_ordering rules) on all ordered pairs of the declared spaces and a finite family of directional spaces; order axioms, agreement with the transitive closure of the literal parent lists, strict product order for directional spaces and membership consistency are checked exhaustively on that domain.",
        "note": "Finite domain: declared spaces + directional orders in {0,1,2,inf}, length <= 2 (some 3); pairs that raise NotImplementedError are skipped. " + TB,
        "technique": "exhaustive constant propagation of the comparison methods over the finite table of spaces",
    },
    "C26": {
        "level": "other",
        "text": "The literal table _sub_entity_celltypes and the Cell/TensorProductCell accessors are evaluated from source by constant propagation for all named cells and entity dimensions -4..tdim+2: Euler characteristic, entity counts/types/dimensions, facet/ridge/peak accessors, ridge-facet incidence, strict total order on cells (all triples). Exhaustive on the finite table.",
        "note": "weakref.proxy / numbers.Integral modelled as identity / int. " + TB,
        "technique": "exhaustive constant propagation over the reference-cell table and its accessors",
    },
    "C08": {
        "level": "other",
        "text": "apply() of every pullback class (identity, co-/contravariant, L2, double co-/contravariant, covariant-contravariant Piola; Mixed and Symmetric compositions) is lifted from source on symbolic reference values with block axes, for square and immersed geometries, and compared exactly with the textbook push-forward; physical_value_shape is lifted and compared with that push-forward's shape; the applier's dispatch table and shape guards are checked. Decides the formulas and layouts for the instantiated shapes (ranks <= mapped+2, dims <= 3), not arbitrary nesting depth.",
        "note": "J, K, detJ independent symbols; numpy reshape/ndindex modelled by documented row-major semantics; MeshSequence branches not instantiated. " + TB,
        "technique": "abstract interpretation of pullback.apply into Q[J,K,1/detJ,r] with exact polynomial comparison against an oracle push-forward; dispatch-table and guard checks on the AST",
    },
    "C14": {
        "level": "other",
        "text": "check_integrand_arity + ArityChecker are lifted as a whole pass on a family of structured symbolic integrands over a test function, a trial function, a third argument and coefficients (sums, products, quotients, conj/real/imag, indexing, implicit sums, list/component tensors, conditionals, restrictions, derivatives, variables). For every integrand the lifted check accepts (real or complex mode), the checker proves on the lifted term: additivity and homogeneity in each argument separately, antilinearity in the test function and linearity in the others in complex mode, and dependence on exactly the form's arguments. Every normal exit of FormData construction passes through the arity check with the form's arguments and the complex flag (must-pass-through).",
        "note": "Soundness direction only (an over-strict checker is not a violation); finite integrand family, number of accepted integrands bounded below. Compound operators (dot/inner/outer) are lowered before the check and are not instantiated. " + TB,
        "technique": "abstract interpretation of the arity-checking pass on structured symbolic integrands + exact (multi)linearity identities on the lifted terms; must-pass-through query on the AST",
    },
    "C16": {
        "level": "other",
        "text": "compute_form_with_arity + PartExtracter are lifted on integrands affine in the trial function; the arity-2/1/0 parts must equal B = e - e[u:=0], L = e[u:=0] - e[u:=0,v:=0] and e[u:=0,v:=0] exactly, so F = lhs(F) - rhs(F); lhs uses arity 2, rhs the negated arity-1 part, functional arity 0; compute_form_adjoint conjugates each integrand and swaps number and part of the two arguments with its ordering guards; compute_form_action replaces the highest-numbered argument and energy_norm is the action applied twice (AST facts on the wrappers).",
        "note": "Finite integrand family; Form/Integral bookkeeping (integral reconstruction, empty forms) is not lifted. " + TB,
        "technique": "abstract interpretation of the part-extraction pass + exact comparison with the affine decomposition of the lifted term; AST facts on the wrapper functions",
    },
    "C17": {
        "level": "other",
        "text": "RestrictionPropagator is lifted as a whole pass on structured integrands whose terminals carry one symbol per cell side. The result must mean the same as the input for all side values consistent with continuity (continuous quantities identified across sides; n('-') = -n('+') only on affine non-manifold meshes), every side-dependent terminal must end up with exactly one restriction and side-independent ones with none, ill-formed inputs (missing / double restriction, restriction outside facet integrals) must be rejected, and the per-terminal-type policy in the dispatch table must be at least as strict as the checker's oracle table; unknown terminal types fail loudly.",
        "note": "Oracle policy table lists the terminal types by continuity class (reviewed against the geometry definitions). Finite integrand family; apply_default_restrictions is covered by the policy rule only. " + TB,
        "technique": "abstract interpretation of the restriction-propagation pass on two-sided symbolic integrands + exact comparison of meanings; dispatch-table policy comparison",
    },
    "C18": {
        "level": "other",
        "text": "SumDegreeEstimator is lifted as a whole pass on integrands that are polynomials in the spatial coordinate (each argument / coefficient component of degree d is a generic monomial c*x**d); the true degree is read off the normal form of the lifted meaning in Q[c..][x] and must not exceed the estimate. Family: sums, products, integer powers, fixed and free indexing, implicit sums, list/component tensors, conditionals, derivatives, restrictions, variables, and components of mixed elements with different sub-degrees incl. Piola-mapped sub-elements on immersed meshes and symmetric elements.",
        "note": "Non-polynomial operators (division by non-constants, math functions, abs) have no true degree and are outside the decided family. Affine simplex cells; tuple (tensor-product) degrees not instantiated; attach_estimated_degrees / estimate_total_polynomial_degree checked to attach each integrand's own estimate / take the maximum. " + TB,
        "technique": "abstract interpretation of the degree-estimation pass + exact polynomial degree of the lifted meaning as oracle",
    },
    "C22": {
        "level": "other",
        "text": "FormSplitter.split is lifted as a whole pass on rank-1 and rank-2 integrands over mixed-element arguments for three layouts - including a symmetric tensor sub-element (3 reference / 4 physical components) and contravariant Piola sub-elements on an immersed mesh (2 / 3) - in both replace_argument modes. Every block (i,j) must equal, exactly, the integrand with all test components outside sub-function i and all trial components outside sub-function j set to zero (physical component layout; kept components renamed to the sub-space argument when replacing). That identity gives both clauses: blocks sum to the original, block (i,j) depends only on sub-functions i and j. Fixed-index folding of list tensors and the restricted-operand path are exercised; the MixedFunctionSpace path (arguments with parts) keeps exactly the requested part. physical_value_shape of each sub-element is lifted from pullback.py.",
        "note": "extract_blocks' bookkeeping over Form objects (empty blocks -> None, arity inference) is not lifted. " + TB,
        "technique": "abstract interpretation of the splitting pass on structured symbolic integrands + exact comparison with the projected integrand",
    },
    "C27": {
        "level": "other",
        "text": "Who-may-write analysis over every function and method of the package (1900+): every attribute/item store, del, in-place operator and mutating method call (append, extend, update, pop, sort, ...) is classified by the origin of its receiver (created here / parameter-derived / module state) with a flow-sensitive may-alias pass, interprocedural return summaries (fresh-returning functions, functions returning one of their parameters) and one-level accumulator-parameter checks at every call site. A write through a parameter-derived reference is a violation unless it is the working state of an algorithm object, a constructor (or constructor-only private helper) initialising its own object, a lazily initialised non-identity cache slot, an accumulator that every caller creates itself (deeply, when the write goes through the parameter), or one of 7 reviewed exemptions (eager DAG sharing in expr_equals, hash cache, balanced evaluation stacks, pipeline-internal IntegralData records, per-class counters, per-instance memo tables). A positive control must be flagged on every run.",
        "note": "Decides absence of in-place writes through references reachable from arguments, which is a necessary condition of the property (any such write is observable by the caller or by later computations sharing the object). Does not decide mutation through module-level state, through closures over non-parameters, through objects stored by reference and written later by another call (e.g. a metadata dict handed to Integral and mutated by its creator), nor pickling/equality of the input before/after. " + TB,
        "technique": "interprocedural who-may-write / ownership analysis on the AST (origin lattice fresh/input/other, flow-sensitive, summary fixpoint over the call graph)",
    },
    "C05": {
        "level": "other",
        "text": "The constructors of the expression language are interpreted from source (__new__/__init__/_simplify_indexed of Sum, Product, Division, Power, Abs, Conj, Real, Imag, Indexed, IndexSum, ComponentTensor, ListTensor; exproperators._getitem with create_slice_indices, _mult, _add/_sub/_div/_pow/_neg; as_tensor/as_vector/as_matrix) on structured symbolic operands: all pairs of a scalar universe (literals 0, 1, 2, -1, 0.5, zeros with free indices, symbols with disjoint / shared free indices), 15 tensor-valued node kinds x fixed / free / mixed / repeated / already-free / inner-bound index tuples with slices and Ellipsis, every row-wise and column-wise way of rebuilding a rank 2..4 tensor as a list tensor (free / fixed trailing indices, every partial and permuted binding, reversed and incomplete row sets), products of all rank combinations. For each request the shape, free indices, index dimensions and value (exact polynomial identity over symbolic components) of what was built must equal the reference meaning of the requested operation, ill-formed requests must be rejected, and every node built from source must declare the shape and indices of its meaning.",
        "note": "Finite operand universe (dims 2,3; ranks <= 4). Canonical operand ordering is decided by C29; math functions, conditionals and compound tensor operators are covered by C24 / C06 / C23 for evaluation and lowering, their constructors' literal folding is not lifted here. " + TB,
        "technique": "abstract interpretation of constructor code on structured symbolic operands (reference meaning attached to every node built) + exact comparison with the reference semantics of index notation",
    },
    "C01": {
        "level": "other",
        "text": "What is specific to the pipeline (the integrand passes themselves are C02-C10, C15, C17, C23): (1) compute_integrand_scaling_factor lifted for every integral type declared in ufl/measure.py x topological dimension 0..3 and compared with the change-of-variables factor of the integration entity (dimension tdim - codim: |detJ| / detFJ (on '+' for interior facets) / detRJ times the quadrature weight, 1 for points, weight only for run-time quadrature types, rejection below dimension 0) and the degree it reports; (2) apply_integral_scaling lifted: scale multiplied once inside every nested CoordinateDerivative, estimated degrees added for all int/tuple combinations, nothing else of the integral changed, input metadata not written; (3) compute_form_data + preprocess_form lifted with recording stubs for all 512 combinations of their 9 boolean options: the trace of passes and their arguments must satisfy the pipeline contract (each option switches exactly its pass; algebra lowering before the first derivative expansion; every pass that can introduce derivative nodes is followed by apply_derivatives and every derivative expansion that can introduce Jacobian inverses by geometry lowering; component tensors removed right before Jacobian cancellation; Jacobian family preserved by the lowering calls before the cancellation, and only then, and lowered afterwards with the caller's preserve set; complex nodes removed iff real mode, comparison check iff complex mode; degrees estimated before pullbacks/scaling/lowering; options handed to group_form_integrals and FormData are the caller's); (4) FormData.__init__ runs the element, facet-geometry and arity checks on every normal exit; (5) the integrand pipeline composed from the lifted passes on symbolic integrands (see evidence for the cases covered).",
        "note": "Necessary conditions of the property plus the composition on a finite family; FormData's coefficient renumbering/splitting, MeshSequence paths and apply_coordinate_derivatives are not lifted. " + TB,
        "technique": "abstract interpretation of the pipeline driver over all option combinations with recording stubs (trace contract), lifting of the scaling table and of apply_integral_scaling against a change-of-variables oracle, must-pass-through on the AST for the final checks",
    },
    "C29": {
        "level": "other",
        "text": "cmp_expr and the terminal comparators (dispatch table _terminal_cmps built by evaluating sorting.py's own module-level assignments) are lifted and evaluated on all ordered pairs of a finite universe of abstract expressions (every terminal kind with a dedicated comparator, repr-ordered terminals, multi-indices of different lengths and fixed/free patterns incl. the prefix triple, counters across a digit boundary, operators with shared and with duplicated equal sub-expressions, nodes with different operand counts, arguments with and without parts): antisymmetry on all pairs, transitivity on all triples, ties only between expressions equal up to Index/Label numbers, and an unchanged sign matrix under renumbering of indices and labels (no comparator reads those counts). Sum, Product and Inner __new__ are lifted on both operand orders of every distinguishable pair and must build the same node.",
        "note": "Exhaustive on the finite universe (54+ expressions, ~160k triples), not on all expressions; typecodes modelled by class names, repr of repr-ordered terminals by fixed distinct strings, hash() by a structural hash. " + TB,
        "technique": "abstract interpretation of the comparator and the constructors' sorting branch on a finite universe of abstract expression objects; exhaustive order-axiom check on the resulting sign matrix",
    },
    "C12": {
        "level": "other",
        "text": "Form.signature() - Form.__init__ with its integral sorting, domain and terminal numbering, every _ufl_signature_data_ method, compute_form_signature, canonicalize_metadata, and the operand ordering of the Sum/Product constructors (sorted_expr/cmp_expr) - is lifted on a family of forms whose meshes, function spaces, coefficients, constants, arguments, geometric quantities, literals, indices, labels, integrals and forms are instances of the repository's classes built by lifting their own constructors. Every incidental quantity is an explicit parameter of the lifted world: all counters (order-preserving renumberings across the 9->10 and 99->100 digit boundaries), the iteration order of every set built by the analysed code (insertion order, reverse, three element-keyed orders) and the salt of hash(str). The signature of each form must be identical in all worlds; a difference is reported with the first differing pre-hash data. Structural rule C12-order: in the whole package no set-valued local (set()/set displays/comprehensions/set algebra/set-returning functions, followed through tuple returns) is iterated into a sequence, an operator nesting or a string without passing a sorter or an order-insensitive reduction (this covers the expression constructors, e.g. the implicit-summation order of A[i,j,i,j], which the lifted signature family takes from reference constructors).",
        "note": "Finite family (counted terminals in commutative nodes, several non-integration meshes, free/fixed indices and a Zero with free indices, variables, several integrals with ids/metadata, extra-domain maps, arguments with parts). Traversal drivers modelled (C19); finite elements / cells are abstract objects identified by repr; hashlib is modelled by itself. " + TB,
        "technique": "differential abstract interpretation of the signature pipeline over instances of the repository classes, with counters, set iteration order and string-hash salt as parameters of the abstract world; package-wide set-order dataflow rule on the AST (set-valued locals with return summaries -> order-sensitive sinks), 9 reviewed sites, positive control",
    },
    "C11": {
        "level": "other",
        "text": "Form.signature() is lifted (instances of the repository classes built by lifting their constructors) on a base form and on ~70 variants that each differ in one thing a form compiler uses: a literal (int, float, last-digit float), an operator, operand order of a non-commutative operator, an index pattern, a fixed index, element degree / family / shape, the mesh of a coefficient or geometric quantity, the coordinate element, argument number and part, a constant's shape, the integral type, subdomain id (ints, tuples, everywhere/otherwise), metadata (scalars of different Python types, nested containers, arrays of 1500 entries differing in one entry or in the 16th digit), extra-domain maps, restrictions, which of two coefficients appears where (incl. user-side subclasses of Coefficient, the documented extension point), base-form-operator data. All pairs must have different signatures; variants with the same compiled meaning (user-side coefficient classes; the form built twice from distinct equal objects) must have equal signatures; the isinstance chain of compute_terminal_hashdata must cover every concrete terminal class or raise. Known finding F11b (base-form-operator derivatives / function space not hashed) is reported as KNOWN-FINDING.",
        "note": "sha512 is modelled by itself, so 'different signature' means different pre-hash data up to SHA-512 collisions. Finite variant family; traversal drivers modelled (C19); finite elements abstract (identified by repr). " + TB,
        "technique": "abstract interpretation of the signature pipeline over instances of the repository classes; pairwise comparison over a one-change variant family; isinstance-chain coverage on the AST",
    },
    "C13": {
        "level": "other",
        "text": "A universe of ~115 objects of the repository classes (meshes, function/dual spaces, coefficients, cofunctions, user-side coefficient subclasses, constants, arguments, coarguments, geometric quantities, int/float/complex literals, zeros, identities, indices, multi-indices, labels, variables, operators built through their constructors, integrals, forms) is built by lifting the constructors: a base object, one variant per constructor field, and an independently rebuilt duplicate. With the classes' own lifted __eq__/equals/__hash__/__repr__: == is reflexive, symmetric, transitive (all pairs and triples); a == b implies equal hash and identical repr; objects differing in one constructor field are unequal and rebuilt duplicates equal; after all comparisons and after further constructions that hit the flyweight caches (incl. bool / float-valued integer arguments) every object's repr, recomputed hash and exact structure are unchanged; every repr string is parsed and re-evaluated with the lifted constructors and must equal the object; cls.__new__(cls, *__getnewargs__()) must rebuild an equal object for classes with a parameterised __new__.",
        "note": "Finite universe; pickle is modelled as protocol 2 (__new__ with __getnewargs__, then state restoration modelled by __init__ with the same arguments), the pickle module itself is not analysed. " + TB,
        "technique": "abstract interpretation of the comparison / hash / repr / construction methods over instances of the repository classes; exhaustive relation checks on the finite universe",
    },
    "C15": {
        "level": "other",
        "text": "group_form_integrals - with rearrange_integrals_by_single_subdomains, strip/attach_coordinate_derivatives, accumulate_integrands_with_same_metadata, canonicalize_metadata, ExprTupleKey ordering and the final merge of equal integrands over several subdomain ids - is lifted on 20 forms x both values of do_append_everywhere_integrals. Integrals are instances of ufl.Integral built by lifting its constructor; integrands are distinct coefficient atoms, so the meaning of a grouped integrand (a Sum tree built by the lifted +) is its multiset of atoms. For every (domain, integral type, extra-domain map, subdomain id, metadata, coordinate derivative) the multiset integrated there by the grouped form must equal the multiset computed directly from the original integrals (id tuples apply to each id, 'everywhere' applies to 'otherwise' and, with the append option, to every explicit id of the same group). The metadata identity of the oracle is structural (type, value, order, nesting, every array entry) and independent of canonicalize_metadata, so merging integrals whose metadata differ is a violation.",
        "note": "Finite family (ids, tuples, everywhere; int/str/float/None metadata, sequences in both orders, nesting, 1200-entry arrays differing in one entry, key order; several types, meshes, extra-domain maps, coordinate derivatives; equal integrands with different metadata). Index renumbering before the final merge is the identity on these integrands (C10); the outermost-checker for coordinate derivatives is not lifted. " + TB,
        "technique": "abstract interpretation of the integral-grouping functions over instances of ufl.Integral/Form + multiset comparison with a directly computed oracle",
    },
}

NOT_APPLICABLE = {
    "C28": "defined 'as observed by assembling on a finite-dimensional model': argument contraction and the simplifications in Action/Adjoint/FormSum are decisions on runtime argument tuples with no table or formula in the source to check them against; no structural necessary condition that is not a frozen source fragment",
}
