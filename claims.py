"""Per-property claim texts for MANIFEST.json (see tools/gen_manifest.py)."""

TB = "Trusted base: python ast, /verif/sa engine (program model cross-checked against the live class registry), the oracle tables in the rule module, and the reference semantics of index notation in sa/uflsem.py where formulas are lifted."

CLAIMS = {
    "C06": {
        "level": "proof",
        "text": "Every closed-form table of compound_expressions.py (determinants up to 5x5, adjugate/cofactor/inverse 2x2..4x4, deviatoric, cross, pseudo-determinant/-inverse for rectangular shapes) and every LowerCompoundAlgebra handler is lifted from the current source to rational functions over Q in symbolic operand entries and shown equal, entry by entry, to the textbook definition computed by the checker. Polynomial identity => holds for all real and complex operand values; conjugation conventions are checked with conj as an involution on symbols. Obligations = one identity per function/handler x shape.",
        "note": "Decides the formulas for the enumerated shapes (all shapes the tables support; contraction operators on ranks <= 3). Does not decide construction-time simplification inside as_tensor etc. (C05). " + TB,
        "technique": "abstract interpretation of the formula tables into Q[x] (constant propagation of shapes, unrolling, inlining) + exact polynomial normal forms against an oracle",
    },
    "C08": {
        "level": "other",
        "text": "apply() of every pullback class (identity, co-/contravariant, L2, double co-/contravariant, covariant-contravariant Piola; Mixed and Symmetric compositions) is lifted from source on symbolic reference values with block axes, for square and immersed geometries, and compared exactly with the textbook push-forward; physical_value_shape is lifted and compared with that push-forward's shape; the applier's dispatch table and shape guards are checked. Decides the formulas and layouts for the instantiated shapes (ranks <= mapped+2, dims <= 3), not arbitrary nesting depth.",
        "note": "J, K, detJ independent symbols; numpy reshape/ndindex modelled by documented row-major semantics; MeshSequence branches not instantiated. " + TB,
        "technique": "abstract interpretation of pullback.apply into Q[J,K,1/detJ,r] with exact polynomial comparison against an oracle push-forward; dispatch-table and guard checks on the AST",
    },
}

NOT_APPLICABLE = {
    "C28": "defined 'as observed by assembling on a finite-dimensional model': argument contraction and the simplifications in Action/Adjoint/FormSum are decisions on runtime argument tuples with no table or formula in the source to check them against; no structural necessary condition that is not a frozen source fragment",
}
