"""Lifting of derivative rule handlers (apply_derivatives.py) and the calculus oracle.

Oracle: the formal derivative D on the term algebra.  For a symbol s and a component k of the
differentiation variable, D_k(s) is the fresh symbol 'δ[s]k'; D is extended to + * / ** by the rules
of calculus and to the elementary functions by a textbook table.  A rule registered for node type
C is correct iff   rule(o, D(operands...)) == D(o)   for o = C(operands) built with the reference
models of sa/uflmodel.py.
"""

from __future__ import annotations

import itertools
import math
from fractions import Fraction

from . import sym, uflsem
from .sym import Ex
from .uflsem import T

PI = sym.const(Fraction(repr(math.pi)))


def dsym(name: str, k) -> Ex:
    side = ""
    if "@" in name:
        name, side = name.rsplit("@", 1)
        side = "@" + side
    return sym.sym(f"δ[{name}]{','.join(map(str, k))}{side}")


class Deriv:
    """D_k on terms, for a fixed variable component k (tuple)."""

    def __init__(self, k, mode="gateaux", zero_symbols=(), sym_rule=None):
        self.k = tuple(k)
        self.memo = {}
        self.mode = mode
        self.zero_symbols = zero_symbols
        self.sym_rule = sym_rule

    def __call__(self, e: Ex) -> Ex:
        r = self.memo.get(e)
        if r is not None:
            return r
        r = self._d(e)
        self.memo[e] = r
        return r

    def _d(self, x: Ex) -> Ex:
        D = self
        op = x.op
        if op in ("c", "I"):
            return sym.ZERO
        if op == "s":
            if self.sym_rule is not None:
                r = self.sym_rule(x.args[0], self.k)
                if r is not None:
                    return r
            return dsym(x.args[0], self.k)
        if op == "cs":
            return sym.conj(D(sym.sym(x.args[0])))
        if op == "+":
            return sym.add(D(x.args[0]), D(x.args[1]))
        if op == "*":
            a, b = x.args
            return sym.add(sym.mul(D(a), b), sym.mul(a, D(b)))
        if op == "/":
            u, v = x.args
            return sym.div(sym.add(sym.mul(D(u), v), sym.neg(sym.mul(u, D(v)))), sym.mul(v, v))
        if op == "^":
            u, n = x.args
            return sym.mul(sym.mul(sym.const(n), sym.power(u, sym.const(n - 1))), D(u))
        if op == "cond":
            c, t, f = x.args
            return sym.cond(c, D(t), D(f))
        if op == "f":
            name = x.args[0]
            a = x.args[1:]
            f = sym.fn
            if name == "sqrt":
                return sym.div(D(a[0]), sym.mul(sym.const(2), x))
            if name == "exp":
                return sym.mul(D(a[0]), x)
            if name == "ln":
                return sym.div(D(a[0]), a[0])
            if name == "sin":
                return sym.mul(D(a[0]), f("cos", a[0]))
            if name == "cos":
                return sym.neg(sym.mul(D(a[0]), f("sin", a[0])))
            if name == "tan":
                c = f("cos", a[0])
                return sym.div(D(a[0]), sym.mul(c, c))
            if name == "sinh":
                return sym.mul(D(a[0]), f("cosh", a[0]))
            if name == "cosh":
                return sym.mul(D(a[0]), f("sinh", a[0]))
            if name == "tanh":
                c = f("cosh", a[0])
                return sym.div(D(a[0]), sym.mul(c, c))
            if name == "acos":
                return sym.neg(sym.div(D(a[0]), f("sqrt", sym.add(sym.ONE, sym.neg(sym.mul(a[0], a[0]))))))
            if name == "asin":
                return sym.div(D(a[0]), f("sqrt", sym.add(sym.ONE, sym.neg(sym.mul(a[0], a[0])))))
            if name == "atan":
                return sym.div(D(a[0]), sym.add(sym.ONE, sym.mul(a[0], a[0])))
            if name == "atan2":
                u, v = a
                return sym.div(sym.add(sym.mul(v, D(u)), sym.neg(sym.mul(u, D(v)))), sym.add(sym.mul(u, u), sym.mul(v, v)))
            if name == "erf":
                return sym.mul(D(a[0]), sym.mul(sym.div(sym.const(2), f("sqrt", PI)), f("exp", sym.neg(sym.mul(a[0], a[0])))))
            if name == "pow":
                u, v = a
                # d(u^v) = u^v (v' ln u + v u'/u)
                return sym.mul(x, sym.add(sym.mul(D(v), f("ln", u)), sym.div(sym.mul(v, D(u)), u)))
            if name == "abs":
                return sym.mul(f("sign", a[0]), D(a[0]))
            if name in ("real", "imag"):
                return f(name, D(a[0]))
            if name == "conj_of":
                return sym.conj(D(a[0]))
            if name == "sign":
                return sym.ZERO
            if name == "min":
                u, v = a
                return sym.cond(Ex("rel", "<", u, v), D(u), D(v))
            if name == "max":
                u, v = a
                return sym.cond(Ex("rel", ">", u, v), D(u), D(v))
            if name in ("bessel_J", "bessel_Y", "bessel_I", "bessel_K"):
                nu, u = a
                if D(nu) is not sym.ZERO:
                    raise ValueError("derivative w.r.t. bessel order")
                one = sym.ONE
                lo, hi = f(name, sym.add(nu, sym.neg(one)), u), f(name, sym.add(nu, one), u)
                if nu is sym.ZERO:
                    b1 = f(name, one, u)
                    inner = b1 if name == "bessel_I" else sym.neg(b1)
                elif name in ("bessel_J", "bessel_Y"):
                    inner = sym.mul(sym.const(Fraction(1, 2)), sym.add(lo, sym.neg(hi)))
                elif name == "bessel_I":
                    inner = sym.mul(sym.const(Fraction(1, 2)), sym.add(lo, hi))
                else:
                    inner = sym.mul(sym.const(Fraction(-1, 2)), sym.add(lo, hi))
                return sym.mul(inner, D(u))
            if name in ("cell_avg", "facet_avg"):
                if self.mode == "gateaux":
                    return f(name, D(a[0]))
                return sym.ZERO
            raise ValueError(f"no derivative rule for function {name} in the oracle")
        raise ValueError(f"no derivative rule for {op} in the oracle")


def DT(t: T, var_shape, **kw) -> T:
    """Oracle derivative of a tensor value: shape t.shape + var_shape."""
    data = {}
    comps = list(itertools.product(*[range(d) for d in var_shape]))
    ders = {k: Deriv(k, **kw) for k in comps}
    for (c, iv), v in t.data.items():
        for k in comps:
            data[(c + k, iv)] = ders[k](v)
    r = T(t.shape + tuple(var_shape), t.fi, t.fid, data)
    return r
