"""E4 -- structured control-flow queries on function bodies (no CFG library needed: the
repository uses only structured statements).

guards_at(fn, node)      conditions known to hold / not hold when `node` executes
must_pass(stmts, pred)   every normal completion / return of the block has executed something
                         matching pred
always_exits(stmts)      the block cannot complete normally
returns_of(fn)           all Return nodes with their guard lists
"""

from __future__ import annotations

import ast

from .model import norm


def always_exits(stmts) -> bool:
    for st in stmts:
        if isinstance(st, (ast.Return, ast.Raise, ast.Continue, ast.Break)):
            return True
        if isinstance(st, ast.If):
            if st.orelse and always_exits(st.body) and always_exits(st.orelse):
                return True
        if isinstance(st, (ast.With,)):
            if always_exits(st.body):
                return True
        if isinstance(st, ast.Try):
            if always_exits(st.body) and all(always_exits(h.body) for h in st.handlers):
                return True
            if st.finalbody and always_exits(st.finalbody):
                return True
    return False


def leaves_function(stmts) -> bool:
    """Block always ends in return/raise (not merely continue/break)."""
    for st in stmts:
        if isinstance(st, (ast.Return, ast.Raise)):
            return True
        if isinstance(st, ast.If) and st.orelse and leaves_function(st.body) and leaves_function(st.orelse):
            return True
        if isinstance(st, ast.With) and leaves_function(st.body):
            return True
    return False


def _blocks_of(st):
    for fld in ("body", "orelse", "finalbody"):
        b = getattr(st, fld, None)
        if isinstance(b, list) and b and isinstance(b[0], ast.stmt):
            yield fld, b
    if isinstance(st, ast.Try):
        for h in st.handlers:
            yield "handler", h.body
    if isinstance(st, ast.Match):
        for c in st.cases:
            yield "case", c.body


def guards_at(fn: ast.FunctionDef, target: ast.AST):
    """List of (condition ast, polarity) that hold whenever `target` (a statement or an expression
    inside a statement of fn) is reached.  Sources: enclosing if/elif/while tests, ternaries and
    boolean short-circuits, preceding `if c: <exit>` statements (=> not c) and asserts in the
    enclosing blocks."""
    res = []

    def contains(node, tgt):
        if node is tgt:
            return True
        return any(n is tgt for n in ast.walk(node))

    def in_block(stmts, acc):
        for k, st in enumerate(stmts):
            if contains(st, target):
                # facts from preceding siblings
                for prev in stmts[:k]:
                    if isinstance(prev, ast.If) and always_exits(prev.body) and not prev.orelse:
                        acc.append((prev.test, False))
                    elif isinstance(prev, ast.If) and prev.orelse and always_exits(prev.orelse) and not always_exits(prev.body):
                        acc.append((prev.test, True))
                    elif isinstance(prev, ast.Assert):
                        acc.append((prev.test, True))
                in_stmt(st, acc)
                return True
        return False

    def in_stmt(st, acc):
        if st is target:
            return
        if isinstance(st, ast.If):
            if contains(st.test, target):
                in_expr(st.test, acc)
                return
            if any(contains(s, target) for s in st.body):
                acc.append((st.test, True))
                in_block(st.body, acc)
            else:
                acc.append((st.test, False))
                in_block(st.orelse, acc)
            return
        if isinstance(st, ast.While):
            if any(contains(s, target) for s in st.body):
                acc.append((st.test, True))
                in_block(st.body, acc)
                return
            if any(contains(s, target) for s in st.orelse):
                in_block(st.orelse, acc)
                return
        for _fld, b in _blocks_of(st):
            if any(contains(s, target) for s in b):
                in_block(b, acc)
                return
        # target is inside an expression of this statement
        for child in ast.iter_child_nodes(st):
            if isinstance(child, ast.expr) and contains(child, target):
                in_expr(child, acc)
                return

    def in_expr(e, acc):
        if e is target:
            return
        if isinstance(e, ast.IfExp):
            if contains(e.body, target):
                acc.append((e.test, True))
                in_expr(e.body, acc)
                return
            if contains(e.orelse, target):
                acc.append((e.test, False))
                in_expr(e.orelse, acc)
                return
        if isinstance(e, ast.BoolOp):
            for k, v in enumerate(e.values):
                if contains(v, target):
                    for prev in e.values[:k]:
                        acc.append((prev, isinstance(e.op, ast.And)))
                    in_expr(v, acc)
                    return
        if isinstance(e, (ast.ListComp, ast.SetComp, ast.GeneratorExp, ast.DictComp)):
            for g in e.generators:
                for c in g.ifs:
                    if not contains(c, target):
                        acc.append((c, True))
        for child in ast.iter_child_nodes(e):
            if isinstance(child, ast.AST) and contains(child, target):
                if isinstance(child, ast.expr):
                    in_expr(child, acc)
                elif isinstance(child, ast.comprehension):
                    for sub in ast.iter_child_nodes(child):
                        if contains(sub, target) and isinstance(sub, ast.expr):
                            in_expr(sub, acc)
                return

    in_block(fn.body, res)
    return res


def guard_texts(fn, target):
    """Normalised guard strings: 'cond' or 'not (cond)'; conjunctions split."""
    out = []
    for c, pol in guards_at(fn, target):
        for part, p in _split(c, pol):
            out.append(norm(part) if p else f"not ({norm(part)})")
    return out


def _split(c, pol):
    if isinstance(c, ast.BoolOp) and isinstance(c.op, ast.And) and pol:
        for v in c.values:
            yield from _split(v, True)
    elif isinstance(c, ast.BoolOp) and isinstance(c.op, ast.Or) and not pol:
        for v in c.values:
            yield from _split(v, False)
    elif isinstance(c, ast.UnaryOp) and isinstance(c.op, ast.Not):
        yield from _split(c.operand, not pol)
    else:
        yield c, pol


def returns_of(fn: ast.FunctionDef):
    out = []

    def visit(node):
        for ch in ast.iter_child_nodes(node):
            if isinstance(ch, (ast.FunctionDef, ast.AsyncFunctionDef, ast.Lambda, ast.ClassDef)):
                continue
            if isinstance(ch, ast.Return):
                out.append(ch)
            visit(ch)

    visit(fn)
    return out


def _expr_matches(node, pred) -> bool:
    if node is None:
        return False
    for n in ast.walk(node):
        if isinstance(n, (ast.FunctionDef, ast.Lambda)):
            continue
        if pred(n):
            return True
    return False


def must_pass(stmts, pred, passed=False):
    """Returns (passed_at_normal_exit | None if no normal exit, all_returns_after_pred)."""
    returns_ok = True
    for st in stmts:
        if isinstance(st, ast.Return):
            if _expr_matches(st.value, pred):
                passed = True
            return None, returns_ok and passed
        if isinstance(st, ast.Raise):
            return None, returns_ok
        if isinstance(st, (ast.Continue, ast.Break)):
            return None, returns_ok
        if isinstance(st, ast.If):
            if _expr_matches(st.test, pred):
                passed = True
            p1, r1 = must_pass(st.body, pred, passed)
            p2, r2 = must_pass(st.orelse, pred, passed)
            returns_ok = returns_ok and r1 and r2
            outs = [p for p in (p1, p2) if p is not None]
            if not outs:
                return None, returns_ok
            passed = all(outs)
        elif isinstance(st, (ast.For, ast.While)):
            hdr = st.iter if isinstance(st, ast.For) else st.test
            if _expr_matches(hdr, pred):
                passed = True
            _pb, rb = must_pass(st.body, pred, passed)
            returns_ok = returns_ok and rb
            _po, ro = must_pass(st.orelse, pred, passed)
            returns_ok = returns_ok and ro
        elif isinstance(st, ast.With):
            for it in st.items:
                if _expr_matches(it.context_expr, pred):
                    passed = True
            p, r = must_pass(st.body, pred, passed)
            returns_ok = returns_ok and r
            if p is None:
                return None, returns_ok
            passed = p
        elif isinstance(st, ast.Try):
            pb, rb = must_pass(st.body, pred, passed)
            returns_ok = returns_ok and rb
            outs = [pb] if pb is not None else []
            for h in st.handlers:
                ph, rh = must_pass(h.body, pred, passed)
                returns_ok = returns_ok and rh
                if ph is not None:
                    outs.append(ph)
            if pb is not None and st.orelse:
                po, ro = must_pass(st.orelse, pred, pb)
                returns_ok = returns_ok and ro
                outs = [o for o in outs if o is not pb] + ([po] if po is not None else [])
            if not outs:
                if st.finalbody:
                    must_pass(st.finalbody, pred, passed)
                return None, returns_ok
            passed = all(outs)
            if st.finalbody:
                pf, rf = must_pass(st.finalbody, pred, passed)
                returns_ok = returns_ok and rf
                if pf is None:
                    return None, returns_ok
                passed = pf
        elif isinstance(st, (ast.FunctionDef, ast.ClassDef, ast.AsyncFunctionDef)):
            continue
        else:
            if _expr_matches(st, pred):
                passed = True
    return passed, returns_ok


def every_exit_passes(fn: ast.FunctionDef, pred) -> bool:
    p, r = must_pass(fn.body, pred)
    return r and (p is None or p)


def call_pred(*names):
    """Predicate matching a call whose callee's dotted name ends with one of names."""

    def pred(n):
        if isinstance(n, ast.Call):
            f = norm(n.func)
            return any(f == nm or f.endswith("." + nm) for nm in names)
        return False

    return pred


def stores_to(fn: ast.FunctionDef, name: str):
    """All Store occurrences of a local name (assign/augassign/for target/with/as/walrus)."""
    out = []
    for n in ast.walk(fn):
        if isinstance(n, ast.Name) and n.id == name and isinstance(n.ctx, (ast.Store, ast.Del)):
            out.append(n)
    return out


def validation_functions(prog, modname, checker_module="ufl.algorithms.check_arities"):
    """The validation functions of a module, by shape rather than by name: module-level functions that return no value and
    either raise themselves or call into the public checker module.  -> {name: (FuncInfo, calls_checker: bool)}"""
    from .model import FuncInfo

    mod = prog.module(modname)
    out = {}
    for fi in mod.functions.values():
        returns_value = any(isinstance(n, ast.Return) and n.value is not None and not (isinstance(n.value, ast.Constant) and n.value.value is None) for n in ast.walk(fi.node))
        if returns_value:
            continue
        raises = any(isinstance(n, ast.Raise) for n in ast.walk(fi.node))
        calls_checker = False
        for n in ast.walk(fi.node):
            if isinstance(n, ast.Call):
                r = prog.resolve_expr(mod, n.func)
                if isinstance(r, FuncInfo) and r.module.name == checker_module:
                    calls_checker = True
        if raises or calls_checker:
            out[fi.name] = (fi, calls_checker)
    return out
