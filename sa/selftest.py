"""Thorough tier: test the checker both ways.

After the normal run on /repo (which must be silent apart from known findings), every seeded change kept under
/verif/seeded whose meta.json records that this property's quick check catches it is applied to a scratch copy
of /repo (under /tmp, removed afterwards) and the quick check is run against the copy in a subprocess: it must
exit 1.  A seed whose patch no longer applies to the current tree is skipped and reported as such (the tree has
moved on; that is not a failure of the checker).  A seed that applies and is no longer caught makes the run an
ANALYSIS-ERROR: the checker lost sensitivity it is documented to have.

The other way round: the behaviour-preserving edits kept under /verif/refactors (written by independent sub-agents;
the pinned tests and their own demonstration pass with them) must leave the check silent.  For a property the edits
named after it (<Cxx>_r*) and the ones recorded as former false alarms of it (meta.json "regression_for") are applied
the same way: the quick check must exit 0, anything else is an ANALYSIS-ERROR (the checker raises an alarm, or breaks,
on code where the property holds).
"""

from __future__ import annotations

import json
import os
import shutil
import subprocess
import tempfile

VERIF = os.path.dirname(os.path.dirname(os.path.abspath(__file__)))


def seeds_for(pid):
    root = os.path.join(VERIF, "seeded")
    out = []
    if not os.path.isdir(root):
        return out
    for d in sorted(os.listdir(root)):
        mp = os.path.join(root, d, "meta.json")
        if not os.path.exists(mp):
            continue
        try:
            m = json.load(open(mp))
        except Exception:
            continue
        caught = m.get("confirmed_by", {}).get("checks_quick", {})
        if str(caught.get(pid, "")).startswith("caught"):
            out.append((d, os.path.join(root, d, "patch.diff")))
    return out


def refactors_for(pid):
    root = os.path.join(VERIF, "refactors")
    out = []
    if not os.path.isdir(root):
        return out
    for d in sorted(os.listdir(root)):
        mp = os.path.join(root, d, "meta.json")
        if not os.path.exists(mp):
            continue
        try:
            m = json.load(open(mp))
        except Exception:
            continue
        if d.startswith(pid + "_") or pid in m.get("regression_for", []):
            out.append((d, os.path.join(root, d, "patch.diff")))
    return out


def run_selftest(pid, repo="/repo"):
    """-> dict(results=[...], failed=[...])"""
    results, failed = [], []
    for name, patch in refactors_for(pid):
        tmp = tempfile.mkdtemp(prefix=f"verif_selftest_{pid}_", dir="/tmp")
        try:
            dst = os.path.join(tmp, "repo")
            shutil.copytree(repo, dst, ignore=shutil.ignore_patterns(".git", "__pycache__", "*.pyc", ".pytest_cache"))
            p = subprocess.run(["patch", "-p1", "-s", "-d", dst, "-i", patch], capture_output=True, text=True)
            if p.returncode != 0:
                results.append({"seed": name, "outcome": "skipped: patch does not apply to the current tree"})
                continue
            env = dict(os.environ, VERIF_OUT=os.path.join(tmp, "out"), VERIF_REPO=dst)
            q = subprocess.run([os.path.join(VERIF, "check"), pid, "--tier", "quick", "--repo", dst], capture_output=True, text=True, env=env, timeout=900)
            if q.returncode == 0:
                results.append({"seed": name, "outcome": "silent (behaviour-preserving edit)"})
            else:
                results.append({"seed": name, "outcome": f"NOT silent on a behaviour-preserving edit (exit {q.returncode})", "tail": q.stdout[-300:]})
                failed.append(name)
        finally:
            shutil.rmtree(tmp, ignore_errors=True)
    for name, patch in seeds_for(pid):
        tmp = tempfile.mkdtemp(prefix=f"verif_selftest_{pid}_", dir="/tmp")
        try:
            dst = os.path.join(tmp, "repo")
            shutil.copytree(repo, dst, ignore=shutil.ignore_patterns(".git", "__pycache__", "*.pyc", ".pytest_cache"))
            p = subprocess.run(["git", "apply", "--unsafe-paths", "--directory", dst, patch], capture_output=True, text=True, cwd="/")
            if p.returncode != 0:
                p = subprocess.run(["patch", "-p1", "-s", "-d", dst, "-i", patch], capture_output=True, text=True)
            if p.returncode != 0:
                results.append({"seed": name, "outcome": "skipped: patch does not apply to the current tree"})
                continue
            env = dict(os.environ, VERIF_OUT=os.path.join(tmp, "out"), VERIF_REPO=dst)
            q = subprocess.run([os.path.join(VERIF, "check"), pid, "--tier", "quick", "--repo", dst], capture_output=True, text=True, env=env, timeout=900)
            first = next((l for l in q.stdout.splitlines() if "[" + pid in l), "")
            if q.returncode == 1:
                results.append({"seed": name, "outcome": "caught", "first_report": first[:240]})
            else:
                results.append({"seed": name, "outcome": f"NOT caught (exit {q.returncode})", "tail": q.stdout[-300:]})
                failed.append(name)
        finally:
            shutil.rmtree(tmp, ignore_errors=True)
    return {"results": results, "failed": failed}
