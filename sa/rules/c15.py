"""C15 -- integral grouping preserves what is integrated on each subdomain.

group_form_integrals (with rearrange_integrals_by_single_subdomains, strip/attach_coordinate_derivatives,
accumulate_integrands_with_same_metadata, canonicalize_metadata and the final merge of equal integrands
over several subdomain ids) is lifted on forms whose integrals are instances of ufl.Integral built by
lifting its constructor (sa/formlift.py).  Integrands are distinct coefficient atoms, so that the meaning
of a grouped integrand - a Sum tree built by the lifted `+` - is the multiset of atoms it contains.

  C15-total   for both values of do_append_everywhere_integrals and every form of the family: for every
              (domain, integral type, extra-domain map, subdomain id, metadata, coordinate derivative) the
              multiset of atoms integrated there by the grouped form equals the multiset computed directly
              from the original integrals (ids and id tuples apply to their ids; 'everywhere' integrals apply
              to 'otherwise' and - with the append option - to every explicit id of the same
              domain/type/extra-map group)
  C15-meta    (contained in C15-total: the metadata is part of the key) integrals with different metadata -
              different values, types, sequence orders, nested values, array entries - are never merged

The oracle's metadata identity is structural (type, value, order), independent of canonicalize_metadata.
Chains of coordinate derivatives (second shape derivatives, also the same direction twice) are part of the
family.  C15-key: shared MEMO-KEY rule over domain_analysis.py.
"""

from __future__ import annotations

import itertools
from collections import Counter

from ..formlift import FormWorld, NdArray
from ..lift import LiftRaise, Obj, Unsupported
from ..model import AnalysisError
from ..report import Report


def md_key(md):
    """structural identity of a metadata value (the oracle; independent of the analysed code)"""
    if isinstance(md, dict):
        return ("dict",) + tuple(sorted((k, md_key(v)) for k, v in md.items()))
    if isinstance(md, (list, tuple)):
        return ("seq",) + tuple(md_key(v) for v in md)
    if isinstance(md, NdArray):
        return ("array", repr(md.data))
    if isinstance(md, bool):
        return ("bool", md)
    if isinstance(md, int):
        return ("int", md)
    if isinstance(md, float):
        return ("float", repr(md))
    if md is None:
        return ("none",)
    if isinstance(md, str):
        return ("str", md)
    from fractions import Fraction

    if isinstance(md, Fraction):
        return ("float", repr(float(md)))
    raise AnalysisError(f"metadata value {md!r}")


def to_py(v):
    """metadata as the lifted code sees it -> plain python (VDict -> dict)"""
    if isinstance(v, dict):
        return {k: to_py(x) for k, x in v.items()}
    if isinstance(v, (list, tuple)):
        return type(v)(to_py(x) for x in v) if not isinstance(v, tuple) else tuple(to_py(x) for x in v)
    return v


FAMILY = []


def fam(name, *integrals):
    FAMILY.append((name, integrals))


# integral spec: (atoms, type, mesh, subdomain_id, metadata, extra, cd)
def I(atoms, sid="everywhere", md=None, itype="cell", mesh=0, extra=None, cd=None):  # noqa: E743
    return dict(atoms=atoms, sid=sid, md=md or {}, itype=itype, mesh=mesh, extra=extra, cd=cd)


big = lambda change=None: NdArray([float(k) if k != change else -1.0 for k in range(1200)])  # noqa: E731

fam("single ids and a tuple", I("a", 1), I("b", 2), I("c", (1, 2)), I("d", (2, 3)))
fam("everywhere + ids", I("a"), I("b", 1), I("c", 2), I("d", (1, 2)))
fam("everywhere only", I("a"), I("b"))
fam("two everywhere with different metadata + ids", I("a", md={"q": 2}), I("b", md={"q": 3}), I("c", 1, md={"q": 2}), I("d", 2))
fam("same integrand on two ids", I("a", 1), I("a", 2), I("b", 2))
fam("same integrand, different metadata on different ids", I("a", 1, md={"q": 2}), I("a", 2, md={"q": 3}), I("a", 3, md={"q": 2}), I("b", 3, md={"q": 3}))
fam("same integrand, same metadata, different types and meshes", I("a", 1), I("a", 2, itype="exterior_facet"), I("a", 3, mesh=1), I("a", 4, extra=[(1, "cell")]), I("a", 5, cd="w"))
fam("metadata int vs str vs float", I("a", 1, md={"q": 2}), I("b", 1, md={"q": "2"}), I("c", 1, md={"q": 2.0}), I("d", 1, md={"q": 2}))
fam("metadata none vs 'None' vs missing", I("a", 1, md={"w": None}), I("b", 1, md={"w": "None"}), I("c", 1), I("d", 1, md={"w": None}))
fam("metadata sequence order", I("a", 1, md={"w": [1, 2]}), I("b", 1, md={"w": [2, 1]}), I("c", 1, md={"w": [1, 2]}), I("d", 1, md={"w": (1, 2)}))
fam("metadata nesting", I("a", 1, md={"w": [1, [2]]}), I("b", 1, md={"w": [[1], 2]}), I("c", 1, md={"w": {"k": 1}}), I("d", 1, md={"w": {"k": 2}}), I("e", 1, md={"w": [1, [2]]}))
fam("metadata flattening", I("a", 1, md={"w": ["1", "2"]}), I("b", 1, md={"w": ["1, 2"]}), I("c", 1, md={"w": [12]}), I("d", 1, md={"w": [1, 2]}))
fam("metadata arrays", I("a", 1, md={"w": big()}), I("b", 1, md={"w": big(600)}), I("c", 1, md={"w": big()}), I("d", 2, md={"w": big(600)}))
fam("metadata arrays, one integrand on two ids", I("a", 1, md={"w": big()}), I("a", 2, md={"w": big(600)}), I("a", 3, md={"w": big()}), I("b", 4, md={"w": big(600)}), I("b", 5, md={"w": big(601)}))
fam("metadata key order", I("a", 1, md={"p": 1, "q": 2}), I("b", 1, md={"q": 2, "p": 1}), I("c", 1, md={"p": 2, "q": 1}))
fam("types and domains", I("a", 1), I("b", 1, itype="exterior_facet"), I("c", 1, mesh=1), I("d", itype="exterior_facet"), I("e", 2, itype="exterior_facet"), I("f", mesh=1))
fam("interior facets and vertices", I("a", 1, itype="interior_facet"), I("b", itype="interior_facet"), I("c", 3, itype="vertex"), I("d", (1, 3), itype="interior_facet"))
fam("extra domain maps", I("a", 1, extra=[(1, "cell")]), I("b", 1, extra=[(1, "exterior_facet")]), I("c", 1), I("d", extra=[(1, "cell")]), I("e", 2, extra=[(1, "cell")]))
fam("coordinate derivatives", I("a", 1, cd="w"), I("b", 1, cd="w"), I("c", 1), I("d", 1, cd="z"), I("e", cd="w"), I("f", 2, cd="w"))
# chains of coordinate derivatives (second shape derivatives), also the same direction twice
fam("second coordinate derivatives", I("a", 1, cd=("w", "w")), I("b", 1), I("c", 1, cd=("z", "z")), I("d", 1, cd=("w", "z")), I("e", 1, cd="w"), I("f", 1, cd=("w", "w")))
fam("second coordinate derivatives, everywhere + ids", I("a", cd=("w", "w")), I("b"), I("c", 1, cd=("z", "z")), I("d", (1, 2)), I("e", 2, cd=("z", "w")))
fam("ids 9, 10, 11 and tuples", I("a", 10), I("b", 9), I("c", (11, 9)), I("d"), I("e", 11, md={"q": 1}))
fam("many everywhere integrals, three metadata", I("a", md={"q": 1}), I("b", md={"q": 2}), I("c", md={"q": 1}), I("d", 1, md={"q": 3}), I("e", (1, 2), md={"q": 1}))


def run(ctx) -> Report:
    rep = Report("C15")
    prog = ctx.prog
    # the memo-key clause first: it needs no interpretation, and what it finds is reported even if a later clause cannot follow the code
    from ..memokey import check_memo_keys, memo_rule  # noqa: F401
    memo_rule(ctx, rep, "C15-key", ['ufl.algorithms.domain_analysis'])
    gfi = prog.get_function("ufl.algorithms.domain_analysis", "group_form_integrals")
    n_cases = 0
    for append in (True, False):
        for fname, specs in FAMILY:
            W = FormWorld(ctx)
            ip = W.ip
            ip.overrides["renumber_indices"] = lambda e: e  # index renumbering: C10
            ip.skip_functions.add("MultiFunction.__init__")
            ip.overrides["map_expr_dags"] = lambda fn, exprs, **kw: [False for _ in exprs]  # the outermost-checker only validates
            meshes = [W.mesh(k) for k in range(2)]
            V = W.space(meshes[0], W.element("P", 1))
            atoms = {}
            atom_of = {}

            def atom(ch):
                if ch not in atoms:
                    atoms[ch] = W.coefficient(V, len(atoms))
                    atom_of[id(atoms[ch])] = ch
                return atoms[ch]

            cd_objs = {}

            def cd_parts(name):
                if name not in cd_objs:
                    w = W.coefficient(W.space(meshes[0], W.element("P", 1, (2,))), 50 + len(cd_objs))
                    v = W.argument(W.space(meshes[0], W.element("P", 1, (2,))), 3)
                    cd_objs[name] = (W.op("ExprList", w), W.op("ExprList", v), W.op("ExprMapping"))
                return cd_objs[name]

            integrals = []
            expected = Counter()
            groups = {}
            for sp in specs:
                e = atom(sp["atoms"])
                for cdn in cd_chain(sp["cd"]):
                    a, b, c = cd_parts(cdn)
                    e = W.op("CoordinateDerivative", e, a, b, c)
                extra = [(meshes[k], it) for k, it in sp["extra"]] if sp["extra"] else None
                integrals.append(W.integral(e, sp["itype"], meshes[sp["mesh"]], sp["sid"], sp["md"], None, extra))
                gkey = (sp["mesh"], sp["itype"], tuple(sp["extra"] or ()))
                groups.setdefault(gkey, set())
                if sp["sid"] != "everywhere":
                    groups[gkey].update(sp["sid"] if isinstance(sp["sid"], tuple) else (sp["sid"],))
            for sp in specs:
                gkey = (sp["mesh"], sp["itype"], tuple(sp["extra"] or ()))
                if sp["sid"] == "everywhere":
                    sids = ["otherwise"] + (sorted(groups[gkey]) if append else [])
                else:
                    sids = list(sp["sid"]) if isinstance(sp["sid"], tuple) else [sp["sid"]]
                for s in sids:
                    expected[(gkey, s, md_key(sp["md"]), tuple(sorted(cd_chain(sp["cd"]))), sp["atoms"])] += 1
            tag = f"{fname} [append={append}]"
            try:
                form = W.form(integrals)
                domains = W.call_method(form, "ufl_domains")
                out = ip.call_function(gfi, [form, domains, append], {})
                got = Counter()
                for itg in W.call_method(out, "integrals"):
                    get = lambda name, itg=itg: W.call_method(itg, name)  # noqa: E731  (the public accessors of Integral)
                    e = get("integrand")
                    chain = []
                    while ip.obj_class(e).name == "CoordinateDerivative":
                        ops = e.attrs["ufl_operands"]
                        chain.append(next(nm for nm, parts in cd_objs.items() if parts[0] is ops[1] or ip.obj_eq(parts[0], ops[1])))
                        e = ops[0]
                    cdname = tuple(sorted(chain))  # mixed second derivatives commute
                    mesh_k = next(k for k, mm in enumerate(meshes) if mm is get("ufl_domain") or ip.obj_eq(mm, get("ufl_domain")))
                    extra = tuple((next(k for k, mm in enumerate(meshes) if mm is d or ip.obj_eq(mm, d)), it) for d, it in get("extra_domain_integral_type_map").items())
                    gkey = (mesh_k, get("integral_type"), extra)
                    sid = get("subdomain_id")
                    sids = sid if isinstance(sid, tuple) else (sid,)
                    mdk = md_key(to_py(get("metadata")))
                    for leaf in leaves(ip, e):
                        ch = atom_of.get(id(leaf))
                        if ch is None:
                            ch = next((c for c, a in atoms.items() if ip.obj_eq(a, leaf)), None)
                        if ch is None:
                            raise LiftRaise(f"unexpected term {ip.py_repr(leaf)[:80]} in a grouped integrand")
                        for s in sids:
                            got[(gkey, s, mdk, cdname, ch)] += 1
            except LiftRaise as ex:
                rep.violation("C15-total", gfi, tag, f"grouping the integrals of '{fname}' (append={append}) fails: {ex.what}")
                continue
            n_cases += 1
            if got == expected:
                rep.ok("C15-total", gfi, f"{tag}: {len(expected)} (domain, type, id, metadata, derivative, integrand) contributions preserved")
            else:
                missing = expected - got
                surplus = got - expected
                rep.violation(
                    "C15-total",
                    gfi,
                    tag,
                    f"grouping '{fname}' with do_append_everywhere_integrals={append} changes what is integrated where: missing {fmt(missing)}; surplus {fmt(surplus)}",
                    witness={"missing": fmt(missing), "surplus": fmt(surplus)},
                )
    if n_cases < 2 * len(FAMILY) - 2:
        raise AnalysisError(f"only {n_cases} cases lifted")
    rep.require_min("C15-total", 30)
    rep.explanation = f"group_form_integrals lifted on {len(FAMILY)} forms x both append options; per-subdomain multisets of integrand atoms compared with a direct computation from the original integrals."
    rep.assumptions = [
        "integrands are distinct coefficient atoms (the grouped integrand is a Sum tree of atoms)",
        "index renumbering before the final merge is the identity on these integrands (C10)",
        "CoordinateDerivativeIsOutermostChecker not lifted (inputs have coordinate derivatives outermost only)",
    ]
    from ..memokey import memo_rule

    return rep


def cd_chain(cd):
    if not cd:
        return ()
    return (cd,) if isinstance(cd, str) else tuple(cd)


def leaves(ip, e):
    k = ip.obj_class(e)
    if k is not None and k.name == "Sum":
        for o in e.attrs["ufl_operands"]:
            yield from leaves(ip, o)
    else:
        yield e


def fmt(counter):
    out = []
    for (gkey, s, mdk, cd, ch), n in sorted(counter.items(), key=repr)[:6]:
        out.append(f"{n}x {ch} on mesh{gkey[0]}/{gkey[1]}{'/extra' + str(gkey[2]) if gkey[2] else ''} id {s} metadata {mdk[1:] if len(mdk) > 1 else '{}'}{' d/d' + ','.join(cd) if cd else ''}")
    return "; ".join(out) or "-"
