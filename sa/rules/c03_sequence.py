"""C03-sequence: the mesh-sequence branches of GradRuleset's ReferenceValue / ReferenceGrad rules.

A function on a mixed space over a sequence of meshes (one component mesh and one sub-element each) has a monolithic
reference gradient; `grad` of its reference value applies, row by row, the inverse Jacobian *of the mesh the row belongs
to* - or nothing, for a sub-element that is mapped physically.  The two rules are interpreted from source on layouts of
sub-elements of different sizes with identity and physical pull backs in every position, with one symbolic inverse
Jacobian per component mesh, and compared with

    grad(rv(f))[r, i]          = sum_j rgrad(rv(f))[r, j] K_m(r)[j, i]      (row r in a push-forward sub-element of mesh m(r))
                               = rgrad(rv(f))[r, i]                          (row r in a physically mapped sub-element)
    grad(rgrad(rv(f)))[r, a, i] = sum_j rgrad(rgrad(rv(f)))[r, a, j] K_m(r)[j, i]
"""

from __future__ import annotations

import itertools

from .. import sym, uflmodel
from ..lift import LiftRaise, Obj
from ..model import AnalysisError
from ..uflmodel import node, terminal
from ..uflsem import T, as_T, equal_T

MOD = "ufl.algorithms.apply_derivatives"


class MeshSeq:
    """stand-in for a MeshSequence: a sized, indexable, iterable collection of component meshes (host object)"""

    __lift_host__ = True

    def __init__(self, gdim, tdim, meshes):
        self.geometric_dimension, self.topological_dimension, self.meshes = gdim, tdim, tuple(meshes)

    def __len__(self):
        return len(self.meshes)

    def __getitem__(self, i):
        return self.meshes[i]

    def __iter__(self):
        return iter(self.meshes)

    def iterable_like(self, element):
        return list(self.meshes)


def run_sequence(ctx, rep):
    from .c02 import Harness
    from .c08 import geometry_models, np_model

    prog = ctx.prog
    # (reference value shape, physically mapped) per sub-element
    layouts = [
        [((), False), ((2,), False)],
        [((2,), False), ((), False), ((), False)],
        [((), True), ((), False)],
        [((), False), ((), True)],
        [((2,), True), ((), False), ((2,), False)],
        [((), False), ((2,), True), ((), True), ((), False)],
    ]
    n = 0
    for tname in ("ReferenceValue", "ReferenceGrad"):
        for layout in layouts:
            physical = any(p for _, p in layout)
            if tname == "ReferenceGrad" and physical:
                continue  # the second-derivative rule has no physical branch
            for gdim, tdim in ((2, 2),) if physical else ((2, 2), (3, 2)):
                H = Harness(ctx, "GradRuleset", (), gdim=gdim, tdim=tdim)
                ip = H.ip
                meshes = []
                for k in range(len(layout)):
                    d = Obj("domain", geometric_dimension=gdim, topological_dimension=tdim, _tag=f"@m{k}")
                    d.attrs["__class__"] = None
                    meshes.append(d)
                ms = MeshSeq(gdim, tdim, meshes)
                ip.overrides["extract_unique_domain"] = lambda expr, expand_mesh_sequence=True, ms=ms: ms
                ip.overrides["np"] = np_model()
                ip.overrides["is_cellwise_constant"] = lambda o: False
                ip.class_models.update(geometry_models(ip, ms))
                prev = ip.isinstance_hook

                def hook(x, cls_, prev=prev):
                    if getattr(cls_, "name", None) == "MeshSequence":
                        return isinstance(x, MeshSeq)
                    return prev(x, cls_)

                ip.isinstance_hook = hook
                subs = []
                for shape, phys in layout:
                    size = 1
                    for dd in shape:
                        size *= dd
                    e = Obj("element", reference_value_shape=tuple(shape), reference_value_size=size, sub_elements=[], num_sub_elements=0, pullback=uflmodel.make_pullback(prog, "PhysicalPullback" if phys else "IdentityPullback"))
                    e.attrs["__class__"] = None
                    subs.append(e)
                total = sum(e.attrs["reference_value_size"] for e in subs)
                el = Obj("element", reference_value_shape=(total,), reference_value_size=total, sub_elements=subs, num_sub_elements=len(subs))
                el.attrs["__class__"] = None
                space = Obj("space", ufl_element=lambda el=el: el)
                f = terminal("f", (total,), "Coefficient", ufl_function_space=lambda space=space: space, ufl_element=lambda el=el: el)
                rv = node(T.symbolic("rv", (total,)), "ReferenceValue", (f,), _ufl_is_in_reference_frame_=True)

                def rgrad(x, tdim=tdim):
                    x = as_T(x)
                    return node(uflmodel.grad_named(x, tdim, "D"), "ReferenceGrad", (x,), _ufl_is_in_reference_frame_=True)

                ip.class_models["ReferenceGrad"] = rgrad
                H.init_from_source(gdim)
                o = rv if tname == "ReferenceValue" else rgrad(rv)
                what = f"grad({'rv(f)' if tname == 'ReferenceValue' else 'rgrad(rv(f))'}) on a sequence of {len(layout)} meshes, gdim={gdim} tdim={tdim}, sub-elements {[('physical ' if p else '') + str(s) for s, p in layout]}"
                h = H.handler(tname)
                try:
                    got = as_T(ip.call_function(h.func, [o], {}, self_obj=H.selfobj))
                except LiftRaise as ex:
                    rep.violation("C03-sequence", h.func, what, f"{what}: the rule raises {ex.what[:120]}")
                    continue
                # oracle
                rg = rgrad(o)
                rows = []  # (mesh number, physical) per row of the monolithic value
                for k, (e, (_, phys)) in enumerate(zip(subs, layout)):
                    rows += [(k, phys)] * e.attrs["reference_value_size"]
                mid = o.shape[1:]
                data = {}
                for r, (k, phys) in enumerate(rows):
                    K = T.symbolic(f"K@m{k}", (tdim, gdim))
                    for a in itertools.product(*[range(d) for d in mid]):
                        for i in range(gdim):
                            if phys:
                                data[((r,) + a + (i,), ())] = rg.get((r,) + a + (i,))
                            else:
                                acc = sym.ZERO
                                for j in range(tdim):
                                    acc = sym.add(acc, sym.mul(rg.get((r,) + a + (j,)), K.get((j, i))))
                                data[((r,) + a + (i,), ())] = acc
                want = T((total,) + mid + (gdim,), (), (), data)
                ok, how, wit = equal_T(got, want, rng=ctx.rng)
                n += 1
                if ok:
                    rep.ok("C03-sequence", h.func, f"{what}: every row is mapped with the inverse Jacobian of its own component mesh ({how})")
                else:
                    rep.violation("C03-sequence", h.func, what, f"{what}: a row of the gradient is not the reference gradient of that row mapped with its own mesh's inverse Jacobian ({how}): {wit}", witness=wit)
    if n < 12:
        raise AnalysisError(f"only {n} mesh-sequence cases interpreted")
    return n
