"""C21-deriv: replace() itself (not only the Replacer pass) interpreted from source on expressions that contain pending
Gateaux derivatives, in the symbolic world of sa/pipeworld.py.  "The value of e with each mapped terminal's value
replaced by the value of its image": the value of a pending derivative(F, w, v) is the directional derivative of F, so
the reference result is  substitute(gateaux(F), mapping)  - differentiate first, substitute afterwards - whatever the
image depends on (in particular when it depends on the differentiation variable).  Alternatively replace() may refuse
(raise); it must never substitute into the operand of a pending derivative.
"""

from __future__ import annotations

from .. import uflmodel
from ..lift import LiftRaise, Obj
from ..model import AnalysisError
from ..pipeworld import PipeWorld
from ..uflmodel import node
from ..uflsem import as_T, equal_T
from .c02_compose import gateaux_oracle


def compose_replace(ctx, rep, substitute):
    prog = ctx.prog
    fn = prog.get_function("ufl.algorithms.replace", "replace")
    um = uflmodel
    n = 0

    def world():
        W = PipeWorld(ctx)
        EL, EM = prog.get_class("ufl.exprcontainers.ExprList"), prog.get_class("ufl.exprcontainers.ExprMapping")
        W.ip.class_models["ExprList"] = lambda *ops: Obj("ExprList", __class__=EL, ufl_class="ExprList", ufl_operands=tuple(ops), _ufl_is_terminal_=False)
        W.ip.class_models["ExprMapping"] = lambda *ops: Obj("ExprMapping", __class__=EM, ufl_class="ExprMapping", ufl_operands=tuple(ops), _ufl_is_terminal_=False)
        W.ip.overrides["as_ufl"] = lambda x: x

        # a pending derivative rebuilt over new operands denotes the derivative of the new operand
        def coefficient_derivative(F, wl, vl, cd):
            pairs = list(zip(wl.attrs["ufl_operands"], vl.attrs["ufl_operands"]))
            return node(gateaux_oracle(as_T(F), pairs), "CoefficientDerivative", (F, wl, vl, cd))

        W.ip.class_models["CoefficientDerivative"] = coefficient_derivative
        return W

    def cases(W):
        cm = W.H.ref
        w = W.function("w", (), "Coefficient", number=1)
        f = W.function("f", (), "Coefficient", number=2)
        g = W.function("g", (), "Coefficient", number=3)
        h = W.function("h", (), "Coefficient", number=4)
        v = W.function("v", (), "Argument", number=0)
        P, S = um.m_product, um.m_sum
        EL, EM = W.ip.class_models["ExprList"], W.ip.class_models["ExprMapping"]

        def derivative(F, wrt, direction):
            want = gateaux_oracle(as_T(F), [(wrt, direction)])
            return node(want, "CoefficientDerivative", (F, EL(wrt), EL(direction), EM()))

        wwh = P(P(w, w), h)
        return [
            ("replace(derivative(w*w*h, w, v), {h: w*g})   (image depends on the differentiation variable)", derivative(wwh, w, v), {h: P(w, g)}),
            ("replace(derivative(w*w*h, w, v), {h: g})", derivative(wwh, w, v), {h: g}),
            ("replace(derivative(sin(w)*h, w, v), {w: f})   (the differentiation variable itself)", derivative(P(cm["Sin"](w), h), w, v), {w: f}),
            ("replace(derivative(w*w*h, w, v) + h*v, {h: w*g})", S(derivative(wwh, w, v), P(h, v)), {h: P(w, g)}),
            ("replace(derivative(w*w*h, w, v)*f, {f: w, h: f})   (simultaneous)", P(derivative(wwh, w, v), f), {f: w, h: f}),
            ("replace(w*w*h, {h: w*g})   (no pending derivative)", wwh, {h: P(w, g)}),
        ]

    W0 = world()
    descs = [c[0] for c in cases(W0)]
    for k, desc in enumerate(descs):
        W = world()
        _, e, mp = cases(W)[k]
        want = substitute(as_T(e), mp)
        try:
            got = as_T(W.ip.call_function(fn, [e, dict(mp)], {}))
        except LiftRaise as ex:
            if "Derivatives should be applied before" in ex.what or "ValueError" in ex.what:
                n += 1
                rep.ok("C21-deriv", fn, f"{desc}: refused ({ex.what[:60]})")
            else:
                rep.violation("C21-deriv", fn, desc, f"{desc} fails: {ex.what[:140]}")
            continue
        n += 1
        ok, how, wit = equal_T(got, want, rng=ctx.rng, real_only=True, points=6)
        if ok:
            rep.ok("C21-deriv", fn, f"{desc}: the value of the derivative with the mapped terminals substituted afterwards ({how})")
        else:
            rep.violation("C21-deriv", fn, desc, f"{desc} is not the value of the expression with the mapped terminals' values replaced ({how}): {wit}", witness=wit)
    if n < 5:
        raise AnalysisError(f"only {n} replace-with-derivative cases interpreted")
    return n
