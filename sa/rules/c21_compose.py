"""C21-deriv: replace() itself (not only the Replacer pass) interpreted from source on expressions that contain pending
Gateaux derivatives, in the symbolic world of sa/pipeworld.py.  "The value of e with each mapped terminal's value
replaced by the value of its image": the value of a pending derivative(F, w, v) is the directional derivative of F, so
the reference result is  substitute(gateaux(F), mapping)  - differentiate first, substitute afterwards - whatever the
image depends on (in particular when it depends on the differentiation variable).  Alternatively replace() may refuse
(raise); it must never substitute into the operand of a pending derivative.
"""

from __future__ import annotations

from .. import uflmodel
from ..lift import LiftRaise, Obj
from ..model import AnalysisError
from ..pipeworld import PipeWorld
from ..uflmodel import node
from ..uflsem import as_T, equal_T
from .c02_compose import gateaux_oracle


def compose_replace(ctx, rep, substitute):
    prog = ctx.prog
    fn = prog.get_function("ufl.algorithms.replace", "replace")
    um = uflmodel
    n = 0

    def world():
        W = PipeWorld(ctx)
        EL, EM = prog.get_class("ufl.exprcontainers.ExprList"), prog.get_class("ufl.exprcontainers.ExprMapping")
        W.ip.class_models["ExprList"] = lambda *ops: Obj("ExprList", __class__=EL, ufl_class="ExprList", ufl_operands=tuple(ops), _ufl_is_terminal_=False)
        W.ip.class_models["ExprMapping"] = lambda *ops: Obj("ExprMapping", __class__=EM, ufl_class="ExprMapping", ufl_operands=tuple(ops), _ufl_is_terminal_=False)
        W.ip.overrides["as_ufl"] = lambda x: x

        # a pending derivative rebuilt over new operands denotes the derivative of the new operand
        def coefficient_derivative(F, wl, vl, cd):
            pairs = list(zip(wl.attrs["ufl_operands"], vl.attrs["ufl_operands"]))
            return node(gateaux_oracle(as_T(F), pairs), "CoefficientDerivative", (F, wl, vl, cd))

        W.ip.class_models["CoefficientDerivative"] = coefficient_derivative
        return W

    def cases(W):
        cm = W.H.ref
        w = W.function("w", (), "Coefficient", number=1)
        f = W.function("f", (), "Coefficient", number=2)
        g = W.function("g", (), "Coefficient", number=3)
        h = W.function("h", (), "Coefficient", number=4)
        v = W.function("v", (), "Argument", number=0)
        c = W.function("c", (), "Constant", number=5)
        P, S = um.m_product, um.m_sum
        EL, EM = W.ip.class_models["ExprList"], W.ip.class_models["ExprMapping"]

        def derivative(F, wrt, direction):
            want = gateaux_oracle(as_T(F), [(wrt, direction)])
            return node(want, "CoefficientDerivative", (F, EL(wrt), EL(direction), EM()))

        wwh = P(P(w, w), h)
        return [
            ("replace(derivative(w*w*h, w, v), {h: w*g})   (image depends on the differentiation variable)", derivative(wwh, w, v), {h: P(w, g)}),
            ("replace(derivative(w*w*h, w, v), {h: g})", derivative(wwh, w, v), {h: g}),
            ("replace(derivative(sin(w)*h, w, v), {w: f})   (the differentiation variable itself)", derivative(P(cm["Sin"](w), h), w, v), {w: f}),
            ("replace(derivative(w*w*h, w, v) + h*v, {h: w*g})", S(derivative(wwh, w, v), P(h, v)), {h: P(w, g)}),
            ("replace(derivative(w*w*h, w, v)*f, {f: w, h: f})   (simultaneous)", P(derivative(wwh, w, v), f), {f: w, h: f}),
            ("replace(w*w*h, {h: w*g})   (no pending derivative)", wwh, {h: P(w, g)}),
            # forms: every kind of terminal a form can hold is substituted in every integral
            ("replace(Form(c*f*dx), {c: g})   (a Constant in a form)", W.form([W.integral(P(c, f))]), {c: g}),
            ("replace(Form(c*f*dx + c*c*w*ds), {c: h*h})   (a Constant in two integrals, compound image)", W.form([W.integral(P(c, f)), W.integral(P(P(c, c), w), "exterior_facet")]), {c: P(h, h)}),
            ("replace(Form(c*f*dx), {c: g, f: w})   (a Constant and a Coefficient)", W.form([W.integral(P(c, f))]), {c: g, f: w}),
            ("replace(Form(f*w*dx), {f: P(c, w)})   (a Coefficient by an expression with a Constant)", W.form([W.integral(P(f, w))]), {f: P(c, w)}),
            ("replace(Form(f*w*dx), {c: g})   (the mapped Constant does not occur)", W.form([W.integral(P(f, w))]), {c: g}),
        ]

    W0 = world()
    descs = [c[0] for c in cases(W0)]
    for k, desc in enumerate(descs):
        W = world()
        _, e, mp = cases(W)[k]
        if isinstance(e, Obj) and e.kind == "Form":
            # a form: integral by integral, in the same order
            try:
                out = W.ip.call_function(fn, [e, dict(mp)], {})
            except LiftRaise as ex:
                rep.violation("C21-deriv", fn, desc, f"{desc} fails: {ex.what[:140]}")
                continue
            n += 1
            before = list(e.attrs["integrals"]())
            after = list(out.attrs["integrals"]()) if isinstance(out, Obj) and "integrals" in out.attrs else None
            if after is None or len(after) != len(before):
                rep.violation("C21-deriv", fn, desc, f"{desc}: the result is not a form with the same integrals")
                continue
            bad = None
            for a_, b_ in zip(after, before):
                ok, how, wit = equal_T(as_T(a_.attrs["integrand"]()), substitute(as_T(b_.attrs["integrand"]()), mp), rng=ctx.rng, real_only=True, points=6)
                if not ok or a_.attrs["integral_type"]() != b_.attrs["integral_type"]():
                    bad = wit or "integral type changed"
                    break
            if bad:
                rep.violation("C21-deriv", fn, desc, f"{desc}: an integrand of the result is not the integrand with the mapped terminals' values replaced: {bad}", witness=bad)
            else:
                rep.ok("C21-deriv", fn, f"{desc}: every integrand has the mapped terminals' values replaced")
            continue
        want = substitute(as_T(e), mp)
        try:
            got = as_T(W.ip.call_function(fn, [e, dict(mp)], {}))
        except LiftRaise as ex:
            if "Derivatives should be applied before" in ex.what or "ValueError" in ex.what:
                n += 1
                rep.ok("C21-deriv", fn, f"{desc}: refused ({ex.what[:60]})")
            else:
                rep.violation("C21-deriv", fn, desc, f"{desc} fails: {ex.what[:140]}")
            continue
        n += 1
        ok, how, wit = equal_T(got, want, rng=ctx.rng, real_only=True, points=6)
        if ok:
            rep.ok("C21-deriv", fn, f"{desc}: the value of the derivative with the mapped terminals substituted afterwards ({how})")
        else:
            rep.violation("C21-deriv", fn, desc, f"{desc} is not the value of the expression with the mapped terminals' values replaced ({how}): {wit}", witness=wit)
    if n < 5:
        raise AnalysisError(f"only {n} replace-with-derivative cases interpreted")
    return n
