"""C16 -- lhs/rhs/system/action/adjoint/energy_norm/functional respect the algebra.

C16-parts   compute_form_with_arity + PartExtracter are lifted as a whole (sa/passlift.py) on a family of
            structured integrands that are affine in the trial function u (bilinear part B(u,v), linear
            part L(v), argument-free part c).  The arity-2 / arity-1 / arity-0 parts must have the meaning
            of B(u,v) = e - e[u:=0],  L(v) = e[u:=0] - e[u:=0,v:=0]  and  e[u:=0,v:=0]  respectively -
            exact identities on the lifted terms - so that F = lhs(F) - rhs(F) and functional(F) is the
            argument-free part.  Variables wrapping mixed-arity expressions, indexed and restricted
            arguments, quotients and nested sums are in the family.
C16-sign    compute_form_lhs / _rhs / _functional interpreted from source over recording stand-ins (plain forms and
            mixed-space forms with any subset of parts): lhs = part(F, 2), rhs = -part(F, 1) (block-wise sums for
            mixed spaces), functional = part(F, 0).
C16-adj     compute_form_adjoint interpreted the same way: conj(F[v, u := the same spaces with number and part of
            the other argument]) per block; non-bilinear forms and supplied arguments in the old order are refused.
C16-act     compute_form_action replaces the highest numbered argument - for mixed spaces every part of it, each by
            the coefficient *of that part*, whichever parts occur; without coefficient by fresh ones;
            compute_energy_norm = action(action(a, c), c) on bilinear forms over one space (sa/rules/c16_wiring.py).
C16-key     shared MEMO-KEY rule over formtransformations.py (e.g. a label-keyed memo of extracted parts).
"""

from __future__ import annotations

import itertools

import ast

from .. import corpus, sym, uflmodel, uflsem
from ..lift import LiftRaise, Obj
from ..model import AnalysisError, norm
from ..passlift import PassHarness
from ..report import Report
from ..uflmodel import MI, new_index, terminal
from ..uflsem import T, as_T, equal_T
from .c14 import argument, subst_symbols

MOD = "ufl.algorithms.formtransformations"


def zero_out(e: T, a: T) -> T:
    names = {ex.args[0] for ex in a.data.values()}
    allnames = {s for ex in e.data.values() for s in sym.symbols_of(ex) if s.split("@")[0] in names}
    return subst_symbols(e, {n: sym.ZERO for n in allnames})


def lin_avg(a):
    """a cell average is a linear functional: modelled as multiplication by one fixed symbol"""
    a = as_T(a)
    return uflmodel.node(a.map(lambda v_: sym.mul(sym.sym("AVG"), v_)), "CellAvg", (a,))


def family():
    cm, _ = uflmodel.base_models()
    idx, mult = corpus.idx, corpus.mult
    v = argument("v", 0)
    u = argument("u", 1)
    vv = argument("V", 0, (2,))
    uu = argument("U", 1, (2,))
    f = terminal("f", (), "Coefficient")
    g = terminal("g", (), "Coefficient")
    al = terminal("alpha", (), "Coefficient")
    Tt = terminal("Tc", (), "Coefficient")
    k = terminal("k", (), "Coefficient")
    F = terminal("F", (2,), "Coefficient")
    i, j = new_index(), new_index()
    P, S, D = uflmodel.m_product, uflmodel.m_sum, uflmodel.m_division
    m1 = uflmodel.m_scalar(-1)
    lab = Obj("label", ufl_class="Label", ufl_operands=(), _ufl_is_terminal_=True)
    E = []
    add = lambda d, e, args: E.append((d, e, args))  # noqa: E731
    add("u*v", P(u, v), (v, u))
    add("f*u*v + g*v", S(P(f, P(u, v)), P(g, v)), (v, u))
    add("g*v + f*u*v", S(P(g, v), P(f, P(u, v))), (v, u))
    add("(u + f)*v", P(S(u, f), v), (v, u))
    add("(f*u - g)*v", P(S(P(f, u), P(m1, g)), v), (v, u))
    add("(u*v + g*v)/f", D(S(P(u, v), P(g, v)), f), (v, u))
    add("u*v + (f*v + g*v)", S(P(u, v), S(P(f, v), P(g, v))), (v, u))
    add("(u*v + f*u*v) + g*v", S(S(P(u, v), P(f, P(u, v))), P(g, v)), (v, u))
    add("U[i]*V[i] + F[i]*V[i]", S(mult(idx(uu, i), idx(vv, i)), mult(idx(F, i), idx(vv, i))), (vv, uu))
    add("(U[i] + F[i])*V[i]", mult(S(idx(uu, i), idx(F, i)), idx(vv, i)), (vv, uu))
    add("U[0]*V[1] + g*V[0]", S(P(idx(uu, 0), idx(vv, 1)), P(g, idx(vv, 0))), (vv, uu))
    add("u('+')*v('-') + g('+')*v('-')", S(P(cm["PositiveRestricted"](u), cm["NegativeRestricted"](v)), P(cm["PositiveRestricted"](g), cm["NegativeRestricted"](v))), (v, u))
    add("conj(v)*u + conj(v)*g", S(P(cm["Conj"](v), u), P(cm["Conj"](v), g)), (v, u))
    e_var = cm["Variable"](S(u, P(m1, P(al, Tt))), lab)
    add("variable(u - alpha*T)*k*v   (variable wrapping mixed arities)", P(P(e_var, k), v), (v, u))
    add("variable(f*u)*v + g*v", S(P(cm["Variable"](P(f, u), Obj("label", ufl_class="Label", ufl_operands=(), _ufl_is_terminal_=True)), v), P(g, v)), (v, u))
    add("g*v   (no bilinear part)", P(g, v), (v, u))
    add("f*g + g*v + u*v   (with an argument-free term)", S(S(P(f, g), P(g, v)), P(u, v)), (v, u))
    # generated: every linear wrapper over every affine combination in the trial function, times the test function
    wrappers = [
        ("(.)('+')", cm["PositiveRestricted"]),
        ("(.)('-')", cm["NegativeRestricted"]),
        ("conj(.)", cm["Conj"]),
        ("real(.)", cm["Real"]),
        ("variable(.)", lambda a: cm["Variable"](a, Obj("label", ufl_class="Label", ufl_operands=(), _ufl_is_terminal_=True))),
        # a cell average is a linear functional: modelled as multiplication by one fixed symbol
        ("cell_avg(.)", lin_avg),
        ("(.)/f", lambda a: D(a, f)),
        ("as_vector([., g])[0]", lambda a: idx(uflmodel.m_list_tensor(a, g), 0)),
    ]
    affine = [
        ("u - g", S(u, P(m1, g))),
        ("g - u", S(g, P(m1, u))),
        ("k*u + g", S(P(k, u), g)),
        ("u", u),
        ("g", g),
        ("u*v + g   (bilinear + argument-free)", S(P(u, v), g)),
    ]
    for (dw, wf), (da, a) in itertools.product(wrappers, affine):
        inner = wf(a)
        if "u*v" in da:
            add(f"{dw.replace('.', da)}", inner, (v, u))
        else:
            add(f"{dw.replace('.', da)} * v", P(inner, v), (v, u))
            add(f"v * {dw.replace('.', da)} + f*v", S(P(v, inner), P(f, v)), (v, u))
    add("as_vector([u*v, g*v])[i]*F[i]  is rejected or split correctly", mult(idx(uflmodel.m_list_tensor(P(u, v), P(u, P(g, v))), i), idx(F, i)), (v, u))
    return E


def run(ctx) -> Report:
    rep = Report("C16")
    prog = ctx.prog
    # the memo-key clause first: it needs no interpretation, and what it finds is reported even if a later clause cannot follow the code
    from ..memokey import check_memo_keys, memo_rule  # noqa: F401
    memo_rule(ctx, rep, "C16-key", ['ufl.algorithms.formtransformations'])
    ctx.crosscheck_dispatch({"PartExtracter"})
    fn = prog.get_function(MOD, "compute_form_with_arity")
    pcls = prog.get_class(f"{MOD}.PartExtracter")
    fam = family()
    n_ok = 0
    for desc, e, args in fam:
        v, u = args
        e_u0 = zero_out(e, u)
        e_00 = zero_out(e_u0, v)
        oracles = {
            2: uflsem.t_add(e, uflsem.t_neg(e_u0)),
            1: uflsem.t_add(e_u0, uflsem.t_neg(e_00)),
            0: e_00,
        }
        for arity in (2, 1, 0):
            H = PassHarness(ctx, f"{MOD}.PartExtracter")
            ip = H.ip
            ip.instantiable |= {"PartExtracter"}
            ip.class_models["CellAvg"] = lin_avg
            tag = f"arity-{arity} part of {desc}"
            try:
                got = ip.call_function(fn, [e, arity, tuple(args)], {})
            except LiftRaise as ex:
                rep.ok("C16-parts/raises", fn, f"{tag}: raises ({ex.what[:70]}) - safe")
                continue
            got = as_T(got) if isinstance(got, T) else T.zero(e.shape)
            want = oracles[arity]
            if got.is_zero_literal and got.shape == () and want.shape != ():
                got = T.zero(want.shape)
            # a literal Zero() stands for "no such part"
            if got.is_zero_literal:
                got = T.zero(want.shape, want.fi, want.fid)
            ok, how, wit = equal_T(got, want, rng=ctx.rng)
            if ok:
                n_ok += 1
                rep.ok("C16-parts", fn, f"{tag}: equals {'e - e[u:=0]' if arity == 2 else ('e[u:=0] - e[u:=0,v:=0]' if arity == 1 else 'e[u:=0,v:=0]')} ({how})")
            else:
                rep.violation("C16-parts", pcls, tag, f"the {tag} does not have the meaning of the {'bilinear' if arity == 2 else ('linear' if arity == 1 else 'argument-free')} part of the integrand ({how}): {wit}", witness=wit)
    if n_ok < 40:
        raise AnalysisError(f"only {n_ok} part extractions compared equal: family vacuous")
    # ---- wrappers: interpreted from source with recording stand-ins (sa/rules/c16_wiring.py) ----------------
    from .c16_wiring import run_wiring

    run_wiring(ctx, rep)
    # Form.arguments() is sorted by number (so arguments[-1] is the highest)
    rep.require_min("C16-parts", 40)
    rep.require_min("C16-sign", 4)
    rep.require_min("C16-adj", 8)
    rep.explanation = (
        f"compute_form_with_arity/PartExtracter lifted on {len(fam)} structured integrands affine in the trial function; the arity-2/1/0 parts "
        "were compared exactly with e - e[u:=0], e[u:=0] - e[u:=0,v:=0], e[u:=0,v:=0]; sign/arity of the lhs/rhs/functional wrappers, "
        "lhs / rhs / functional / action / adjoint / energy_norm interpreted from source over recording stand-ins (plain and mixed-space "
        "forms with any subset of parts, with and without supplied coefficients / arguments) and the requested combination compared with the algebraic definition."
    )
    rep.assumptions = ["forms whose terms depend on different argument sets of equal size are rejected by PartExtracter (not in the family)", "mixed-function-space block paths (extract_blocks) are covered by C22 only"]
    from ..memokey import memo_rule

    return rep
