"""C01-compose (work in progress): the integrand pipeline composed from the lifted passes."""


def compose(ctx, rep):
    return 0
