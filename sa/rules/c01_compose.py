"""C01-compose: compute_form_data interpreted from source together with the integrand passes it calls
(apply_algebra_lowering, apply_derivatives, apply_function_pullbacks, apply_integral_scaling,
apply_geometry_lowering, remove_component_tensors, cancel_jacobian_products, remove_complex_nodes), on
symbolic cell integrands over an affine triangle with symbolic vertices (sa/pipeworld.py).  For every
integrand of the family and every combination of the integrand-level options the meaning of the resulting
integrand must equal the meaning of the original one, times |detJ| * weight when integral scaling is requested.
"""

from __future__ import annotations

import itertools

from .. import sym, uflmodel, uflsem
from ..lift import LiftRaise, Unsupported
from ..model import AnalysisError
from ..pipeworld import PipeWorld
from ..uflmodel import MI, new_index, node
from ..uflsem import T, as_T, equal_T

OPTS = ["do_apply_function_pullbacks", "do_apply_integral_scaling", "do_apply_geometry_lowering", "do_cancel_jacobian_products", "do_remove_component_tensors"]


def family(W: PipeWorld):
    um = uflmodel
    cm = W.H.ref
    f = W.function("f", (), "Coefficient", number=1)
    g = W.function("g", (), "Coefficient", number=2, degree=2)
    v = W.function("v", (), "Argument", number=0)
    q = W.function("q", (2,), "Coefficient", mapping="contravariant Piola", number=3)
    p = W.function("p", (2,), "Coefficient", mapping="covariant Piola", number=4)
    u = W.function("u", (2,), "Coefficient", number=5)
    x = W.geometry("SpatialCoordinate")
    vol = W.geometry("CellVolume")
    i, j = new_index(), new_index()

    def idx(A, *k):
        return um.m_indexed(A, MI(k))

    def div(A):
        G = W.grad(A)
        r = len(A.shape)
        data = {}
        for c in itertools.product(*[range(d) for d in A.shape[:-1]]):
            acc = sym.ZERO
            for k in range(A.shape[-1]):
                acc = sym.add(acc, G.get(c + (k, k)))
            data[(c, ())] = acc
        return node(T(A.shape[:-1], (), (), data), "Div", (A,))

    E = []
    add = lambda d, e: E.append((d, e))  # noqa: E731
    add("f*g", um.m_product(f, g))
    add("inner(grad(f), grad(v))", cm["Inner"](W.grad(f), W.grad(v)))
    add("dot(q, grad(f))   (contravariant Piola q)", cm["Dot"](q, W.grad(f)))
    add("div(q)*v", um.m_product(div(q), v))
    add("x[0]*f*v", um.m_product(um.m_product(idx(x, 0), f), v))
    add("CellVolume*f", um.m_product(vol, f))
    add("dot(p, q)   (covariant . contravariant)", cm["Dot"](p, q))
    add("inner(grad(u), grad(u))", cm["Inner"](W.grad(u), W.grad(u)))
    add("u[i]*grad(f)[i] (index notation)", um.m_index_sum(um.m_product(idx(u, i), idx(W.grad(f), i)), MI((i,))))
    add("dot(p, grad(f))   (covariant Piola p)", cm["Dot"](p, W.grad(f)))
    # explicit Jacobian / inverse Jacobian factors whose free index is the very Index object that a sibling sum binds
    Jg, Kg = W.geometry("Jacobian"), W.geometry("JacobianInverse")
    inner_s = um.m_index_sum(um.m_product(idx(Jg, j, i), idx(u, i)), MI((i,)))  # free j
    mid_s = um.m_index_sum(um.m_product(idx(Kg, i, j), inner_s), MI((j,)))  # free i: K J u = u
    add("(K[i,j]*(J[j,i]*u[i]))*u[i]   (index objects reused across nested sums)", um.m_index_sum(um.m_product(mid_s, idx(u, i)), MI((i,))))
    # Kronecker deltas in the integrand itself (double contraction: the trace of the identity is the dimension)
    I2 = cm["Identity"](2)
    fI = um.m_component_tensor(um.m_product(f, idx(I2, i, j)), MI((i, j)))
    add("inner(f*I, I)   (= 2 f)", cm["Inner"](fI, I2))
    add("div(q)*I[i,j]*I[i,j]", um.m_product(div(q), um.m_index_sum(um.m_index_sum(um.m_product(idx(I2, i, j), idx(I2, i, j)), MI((j,))), MI((i,)))))
    return E


GEOMETRY_LOWERED = {"Jacobian", "JacobianInverse", "JacobianDeterminant", "CellVolume", "Circumradius", "FacetNormal", "CellNormal", "FacetArea"}


def walk(t, seen=None):
    seen = set() if seen is None else seen
    if not isinstance(t, T) or id(t) in seen:
        return
    seen.add(id(t))
    yield t
    for o in t.tags.get("ufl_operands", ()):
        yield from walk(o, seen)


def postconditions(e, o):
    """what each option promises about the *form* of the preprocessed integrand"""
    nodes = list(walk(e))
    cls = lambda t: t.tags.get("ufl_class")  # noqa: E731
    compound = {"Inner", "Dot", "Outer", "Cross", "Div", "Curl", "NablaGrad", "NablaDiv", "Transposed", "Trace", "Determinant", "Inverse", "Cofactor", "Deviatoric", "Skew", "Sym"}
    left = sorted({cls(t) for t in nodes} & compound)
    if left:
        return f"compound tensor operators {left} survive algebra lowering"
    for t in nodes:
        if cls(t) in ("Grad", "ReferenceGrad"):
            a = t.tags["ufl_operands"][0]
            while cls(a) in ("Grad", "ReferenceGrad", "ReferenceValue"):
                a = a.tags["ufl_operands"][0]
            if not a.tags.get("_ufl_is_terminal_"):
                return f"a derivative of the non-terminal {cls(a)} survives derivative expansion"
    if o["do_apply_function_pullbacks"]:
        under_rv = {id(t.tags["ufl_operands"][0]) for t in nodes if cls(t) == "ReferenceValue"}
        for t in nodes:
            if cls(t) in ("Coefficient", "Argument") and id(t) not in under_rv:
                return f"the form argument {t.tags.get('desc')} is not expressed through its reference value although pullbacks were requested"
            if cls(t) == "Grad":
                return "a physical gradient survives although pullbacks were requested"
    if o["do_apply_geometry_lowering"]:
        left = sorted({cls(t) for t in nodes} & GEOMETRY_LOWERED)
        if left:
            return f"geometric quantities {left} survive geometry lowering"
    if o["do_remove_component_tensors"] and any(cls(t) == "ComponentTensor" for t in nodes):
        return "a ComponentTensor survives remove_component_tensors"
    return None


def compose(ctx, rep):
    prog = ctx.prog
    fn = prog.get_function("ufl.algorithms.compute_form_data", "compute_form_data")
    combos = []
    for bits in itertools.product((False, True), repeat=len(OPTS)):
        o = dict(zip(OPTS, bits))
        if o["do_cancel_jacobian_products"] and not o["do_apply_geometry_lowering"]:
            continue
        combos.append(o)
    if not ctx.thorough():
        keep = [(0, 0, 0, 0, 0), (1, 0, 0, 0, 0), (1, 1, 0, 0, 0), (1, 1, 1, 0, 0), (1, 1, 1, 1, 0), (1, 1, 1, 1, 1), (0, 1, 1, 0, 1), (0, 0, 1, 0, 0), (1, 0, 1, 1, 0)]
        combos = [o for o in combos if tuple(int(o[k]) for k in OPTS) in keep]
    n = 0
    W0 = PipeWorld(ctx)
    descs = [d for d, _ in family(W0)]
    for k, desc in enumerate(descs):
        for o in combos:
            W = PipeWorld(ctx)
            e = family(W)[k][1]
            on = [kk.replace("do_", "") for kk in OPTS if o[kk]]
            what = f"compute_form_data({desc}*dx; {', '.join(on) or 'no integrand options'})"
            try:
                out = W.compute_form_data(W.form([W.integral(e)]), **o)
                itgs = list(out)  # build_integral_data / FormData are the identity here: the integrals themselves
                if len(itgs) != 1:
                    rep.violation("C01-compose", fn, what, f"{what}: {len(itgs)} integrals come out of one")
                    continue
                got = as_T(itgs[0].attrs["integrand"]())
            except LiftRaise as ex:
                rep.violation("C01-compose", fn, what, f"{what}: preprocessing fails: {ex.what[:160]}")
                continue
            n += 1
            want = as_T(e)
            if o["do_apply_integral_scaling"]:
                scale = T.scalar(sym.mul(sym.fn("abs", W.detJ), sym.sym("w")))
                want = uflsem.t_mul(scale, want)
            ok, how, wit = equal_T(got, want, rng=ctx.rng, real_only=True, points=6)
            post = postconditions(got, o)
            if ok and post:
                rep.violation("C01-compose", fn, what + " (form of the result)", f"{what}: {post}")
            elif ok:
                rep.ok("C01-compose", fn, f"{what}: integrand meaning preserved ({how}); result has the promised form")
            else:
                rep.violation("C01-compose", fn, what, f"{what}: the preprocessed integrand does not mean the original one{' times |detJ|*weight' if o['do_apply_integral_scaling'] else ''} ({how}): {wit}", witness=wit)
    if n < len(descs) * len(combos) // 2:
        raise AnalysisError(f"only {n} of {len(descs) * len(combos)} pipeline cases could be interpreted")
    rep.require_min("C01-compose", len(descs) * 4)
    return n
