"""C23 -- complex and real mode node handling is sound.

C23-closed  CheckComparisons is lifted as a whole pass on ordering comparisons / min / max / conditionals
            over a family of operands (arguments, geometry, real and complex literals, coefficients,
            abs/real/imag/conj/sqrt/powers/products/sums/indexing of those).  Soundness: whenever the pass
            *accepts* a comparison, every compared operand must be real-valued for all admissible data -
            decided on the operand's lifted term by random interpretation with complex values for the
            terminals that may be complex (coefficients, constants, complex literals) and real values for
            the ones that are real by construction (arguments, geometry, real literals).
C23-wrap    on acceptance the rewritten expression has the same meaning as the input for real data.
C23-real    ComplexNodeRemoval lifted: conj/real removed with unchanged meaning for real data; imag and
            complex literals raise.
C23-pipe    compute_form_data interpreted with recording stand-ins for its passes: the comparison check runs iff
            complex_mode, complex nodes are removed iff not complex_mode.
The operand family is extended by a generator: every wrapper chain (conditional then/else branch, sum,
product, quotient, sin, variable, list-tensor component with fixed and free index) of depth <= 1 (quick) /
2 (thorough) over the four kinds of leaves (real terminal, complex terminal, real literal, complex literal).
"""

from __future__ import annotations

import ast
import itertools

from .. import corpus, sym, uflmodel, uflsem
from ..lift import LiftRaise, Obj
from ..model import AnalysisError, norm
from ..passlift import PassHarness
from ..report import Report
from ..uflmodel import MI, new_index, node, terminal
from ..uflsem import T, as_T, equal_T

CHK = "ufl.algorithms.comparison_checker.CheckComparisons"
RMV = "ufl.algorithms.remove_complex_nodes.ComplexNodeRemoval"

REAL_TERMINAL_CLASSES = ("Argument", "SpatialCoordinate", "FacetNormal", "CellVolume", "FloatValue", "IntValue", "Zero")


def complex_literal(z):
    t = T.scalar(sym.const(z))
    t.tags.update(ufl_class="ComplexValue", ufl_operands=(), _ufl_is_terminal_=True, _value=z)
    return t


def operands(depth=1):
    cm, _ = uflmodel.base_models()
    arg = terminal("arg", (), "Argument")
    argv = terminal("argv", (2,), "Argument")
    x = terminal("x", (2,), "SpatialCoordinate")
    h = terminal("h", (), "CellVolume")
    f = terminal("f", (), "Coefficient")
    fv = terminal("fv", (2,), "Coefficient")
    c = terminal("c", (), "Constant")
    two = uflmodel.m_scalar(2)
    half = uflmodel.m_scalar(0.5)
    onej = complex_literal(1j)
    z12 = complex_literal(1 + 2j)
    idx, mult = corpus.idx, corpus.mult
    P, S = uflmodel.m_product, uflmodel.m_sum
    ops = [
        ("argument", arg),
        ("x[0]", idx(x, 0)),
        ("cell volume", h),
        ("2", two),
        ("coefficient f", f),
        ("constant c", c),
        ("fv[1]", idx(fv, 1)),
        ("argv[0]", idx(argv, 0)),
        ("1j", onej),
        ("1j*x[0]", P(onej, idx(x, 0))),
        ("x[0] + (1+2j)", S(idx(x, 0), z12)),
        ("abs(f)", cm["Abs"](f)),
        ("abs(f)*(1+2j)", P(cm["Abs"](f), z12)),
        ("real(f)", cm["Real"](f)),
        ("imag(f)", cm["Imag"](f)),
        ("conj(arg)", cm["Conj"](arg)),
        ("conj(f)", cm["Conj"](f)),
        ("arg*x[0]", P(arg, idx(x, 0))),
        ("arg + f", S(arg, f)),
        ("arg**2", uflmodel.m_power(arg, two)),
        ("f**2", uflmodel.m_power(f, two)),
        ("arg**0.5", uflmodel.m_power(arg, half)),
        ("sqrt(arg)", cm["Sqrt"](arg)),
        ("arg/h", uflmodel.m_division(arg, h)),
        ("arg/f", uflmodel.m_division(arg, f)),
        ("sin(x[0])", cm["Sin"](idx(x, 0))),
        ("real(f)*arg", P(cm["Real"](f), arg)),
    ]
    # generated: every wrapper chain (depth <= `depth`) over the four kinds of leaves
    cnd = uflmodel.m_rel("<")(idx(x, 0), h)
    lab = Obj("label", ufl_class="Label", ufl_operands=(), _ufl_is_terminal_=True)
    wrappers = [
        ("conditional(c, ., x[1])", lambda a: uflmodel.m_conditional(cnd, a, idx(x, 1))),
        ("conditional(c, 0.5, .)", lambda a: uflmodel.m_conditional(cnd, half, a)),
        ("(. + x[1])", lambda a: S(a, idx(x, 1))),
        ("(h * .)", lambda a: P(h, a)),
        ("(. / h)", lambda a: uflmodel.m_division(a, h)),
        ("sin(.)", lambda a: cm["Sin"](a)),
        ("variable(.)", lambda a: cm["Variable"](a, lab)),
        ("as_vector([., h])[0]", lambda a: idx(uflmodel.m_list_tensor(a, h), 0)),
        ("as_vector([h, .])[i]*x[i]", lambda a: (lambda i: mult(idx(uflmodel.m_list_tensor(h, a), i), idx(x, i)))(new_index())),
    ]
    leaves = [("arg", arg), ("f", f), ("2", two), ("1j", onej)]
    gen = list(leaves)
    frontier = list(leaves)
    for _ in range(depth):
        nxt = []
        for (dw, wfn), (dl, l) in itertools.product(wrappers, frontier):
            nxt.append((dw.replace(".", dl), wfn(l)))
        gen += nxt
        frontier = nxt
    have = {d for d, _ in ops}
    ops += [(d, e) for d, e in gen if d not in have]
    return ops


def may_be_complex(t: T, rng, n=12):
    """random interpretation: complex data for terminals that may be complex, real for the others"""
    ex = t.get()
    names = sorted(sym.symbols_of(ex))
    for k in range(n):
        env = {}
        for nm in names:
            base = nm.split("[")[0]
            if base in ("arg", "argv", "x", "h"):
                env[nm] = complex(rng.uniform(0.3, 1.7) * rng.choice((1, -1)), 0)
            else:
                env[nm] = complex(rng.uniform(0.3, 1.7), rng.uniform(0.3, 1.2))
        try:
            v = sym.evaluate(ex, env, salt=k)
        except (ZeroDivisionError, ValueError):
            continue
        if abs(v.imag) > 1e-9:
            return True, f"{sym.show(ex)} = {v} at {dict(list(env.items())[:4])}"
    return False, None


def run(ctx) -> Report:
    rep = Report("C23")
    prog = ctx.prog
    # the memo-key clause first: it needs no interpretation, and what it finds is reported even if a later clause cannot follow the code
    from ..memokey import check_memo_keys, memo_rule  # noqa: F401
    memo_rule(ctx, rep, "C23-key", ['ufl.algorithms.comparison_checker', 'ufl.algorithms.remove_complex_nodes'])
    ctx.crosscheck_dispatch({"CheckComparisons", "ComplexNodeRemoval"})
    ccls = prog.get_class(CHK)
    cm, _ = uflmodel.base_models()
    ops = operands(2 if ctx.thorough() else 1)
    builders = [
        ("lt", lambda a, b: uflmodel.m_conditional(uflmodel.m_rel("<")(a, b), a, b)),
        ("gt", lambda a, b: uflmodel.m_conditional(uflmodel.m_rel(">")(a, b), a, b)),
        ("le", lambda a, b: uflmodel.m_conditional(uflmodel.m_rel("<=")(a, b), a, b)),
        ("ge", lambda a, b: uflmodel.m_conditional(uflmodel.m_rel(">=")(a, b), a, b)),
        ("max_value", lambda a, b: cm["MaxValue"](a, b)),
        ("min_value", lambda a, b: cm["MinValue"](a, b)),
    ]
    n_acc = n_rej = 0
    real_ref = ops[0][1]
    for (da, a), (bname, build) in itertools.product(ops, builders):
        for other_first in (False, True):
            x1, x2 = (real_ref, a) if other_first else (a, real_ref)
            e = build(x1, x2)
            what = f"{bname}({'argument, ' if other_first else ''}{da}{'' if other_first else ', argument'})"
            H = PassHarness(ctx, CHK)
            H.init()
            try:
                got = H.apply(e)
                accepted = True
            except LiftRaise as ex:
                accepted = False
                if "ComplexComparisonError" not in ex.what:
                    rep.violation("C23-closed", ccls, what, f"{what}: the check fails with {ex.what} instead of ComplexComparisonError")
                    continue
            cx, wit = may_be_complex(a, ctx.rng)
            if accepted and cx:
                rep.violation("C23-closed", ccls, what, f"complex-mode check accepts {what} although the operand {da} can take non-real values ({wit}); the comparison is silently taken on its real part")
                continue
            if accepted:
                n_acc += 1
                ok, how, w2 = equal_T(as_T(got), e, rng=ctx.rng, real_only=True)
                if ok:
                    rep.ok("C23-wrap", ccls, f"{what}: accepted (operand provably real); rewritten expression has the same meaning for real data ({how})")
                else:
                    rep.violation("C23-wrap", ccls, what, f"{what}: wrapping the operands changed the value for real data: {w2}", witness=w2)
                # both operands must be wrapped in Real
                cmp_node = got.tags["ufl_operands"][0] if got.tags.get("ufl_class") == "Conditional" else got
                wrapped = [as_T(o).tags.get("ufl_class") for o in cmp_node.tags.get("ufl_operands", ())]
                if wrapped and all(w == "Real" for w in wrapped):
                    rep.ok("C23-raise", ccls, f"{what}: every compared operand is wrapped in Real")
                else:
                    rep.violation("C23-raise", ccls, what, f"{what}: accepted but the compared operands are {wrapped}, not all wrapped in Real")
            else:
                n_rej += 1
                rep.ok("C23-closed", ccls, f"{what}: rejected" + (" (operand may be complex)" if cx else " (defensive: operand is real but not provably so)"))
    if n_acc < 60 or n_rej < 60:
        raise AnalysisError(f"family no longer exercises both outcomes (accepted {n_acc}, rejected {n_rej})")
    # expressions without comparisons pass through with the same meaning
    terms, exprs = corpus.build()
    for desc, e in exprs[:14]:
        H = PassHarness(ctx, CHK)
        H.init()
        try:
            got = H.apply(e)
        except LiftRaise as ex:
            if "ComplexComparisonError" in ex.what:
                rep.ok("C23-wrap", ccls, f"{desc}: rejected")
            else:
                rep.violation("C23-wrap", ccls, f"do_comparison_check({desc})", f"fails: {ex.what}")
            continue
        ok, how, wit = equal_T(as_T(got), e, rng=ctx.rng)
        (rep.ok("C23-wrap", ccls, f"do_comparison_check({desc}): meaning unchanged ({how})") if ok else rep.violation("C23-wrap", ccls, f"do_comparison_check({desc})", f"changed the meaning: {wit}"))
    # ---- ComplexNodeRemoval -----------------------------------------------------------------
    rcls = prog.get_class(RMV)
    f = terminal("f", (), "Coefficient")
    u = terminal("u", (2,), "Coefficient")
    i = new_index()
    cases = [
        ("conj(f)*f", uflmodel.m_product(cm["Conj"](f), f), True),
        ("real(f) + f", uflmodel.m_sum(cm["Real"](f), f), True),
        ("conj(u[i])*u[i]", corpus.mult(cm["Conj"](corpus.idx(u, i)), corpus.idx(u, i)), True),
        ("real(conj(f))", cm["Real"](cm["Conj"](f)), True),
        ("imag(f)", cm["Imag"](f), False),
        ("f*(1+2j)", uflmodel.m_product(f, complex_literal(1 + 2j)), False),
        ("f*imag(f)", uflmodel.m_product(f, cm["Imag"](f)), False),
    ]
    # generated: complex nodes at every depth <= 3 below every kind of node the pass meets
    g_ = terminal("g", (), "Coefficient")
    inner_kinds = [("f", f, True), ("real(f)", cm["Real"](f), True), ("conj(f)", cm["Conj"](f), True), ("imag(f)", cm["Imag"](f), False), ("1j", complex_literal(1j), False)]
    middles = [("(.)*g", lambda a: uflmodel.m_product(a, g_)), ("(.) + g", lambda a: uflmodel.m_sum(a, g_)), ("sin(.)", lambda a: cm["Sin"](a)), ("g/(.)", lambda a: uflmodel.m_division(g_, a)), ("as_vector([., g])[1]", lambda a: corpus.idx(uflmodel.m_list_tensor(a, g_), 1))]
    outers = [("conj(.)", cm["Conj"]), ("real(.)", cm["Real"]), ("(.)*f", lambda a: uflmodel.m_product(a, f)), ("abs(.)", cm["Abs"]), ("conditional(f<g, ., g)", lambda a: uflmodel.m_conditional(uflmodel.m_rel("<")(cm["Real"](f), cm["Real"](g_)), a, g_))]
    for (do, fo), (dm, fm), (di, ei, ok_i) in itertools.product(outers, middles, inner_kinds):
        cases.append((do.replace(".", dm.replace(".", di)), fo(fm(ei)), ok_i))
    for desc, e, ok_expected in cases:
        H = PassHarness(ctx, RMV)
        try:
            got = H.apply(e)
        except LiftRaise as ex:
            (rep.ok("C23-real", rcls, f"remove_complex_nodes({desc}) raises") if not ok_expected else rep.violation("C23-real", rcls, f"remove_complex_nodes({desc})", f"fails: {ex.what}"))
            continue
        if not ok_expected:
            rep.violation("C23-real", rcls, f"remove_complex_nodes({desc})", "an imaginary part / complex literal is accepted in real mode")
            continue
        ok, how, wit = equal_T(as_T(got), e, rng=ctx.rng, real_only=True)
        has_complex_nodes = _contains(got, {"Conj", "Real", "Imag"})
        if ok and not has_complex_nodes:
            rep.ok("C23-real", rcls, f"remove_complex_nodes({desc}): conj/real removed, same value for real data ({how})")
        elif not ok:
            rep.violation("C23-real", rcls, f"remove_complex_nodes({desc})", f"changed the value for real data: {wit}")
        else:
            rep.violation("C23-real", rcls, f"remove_complex_nodes({desc})", "complex operator nodes remain in the result")
    # ---- pipeline: compute_form_data interpreted with recording stand-ins for its passes (the machinery of C01-pipe) --------
    from .c01 import FLAGS, pipeline_trace

    fn_cfd = prog.get_function("ufl.algorithms.compute_form_data", "compute_form_data")
    for others in (False, True):
        for complex_mode in (False, True):
            flags = {f: others for f in FLAGS}
            flags["complex_mode"] = complex_mode
            what = f"compute_form_data(complex_mode={complex_mode}, every other option {'on' if others else 'off'})"
            try:
                trace, _, _ = pipeline_trace(ctx, flags)
            except LiftRaise as ex:
                rep.violation("C23-pipe", fn_cfd, what, f"{what} raises {ex.what[:100]}")
                continue
            names = [t[0] for t in trace]
            n_chk, n_rm = names.count("do_comparison_check"), names.count("remove_complex_nodes")
            if complex_mode and (n_chk < 1 or n_rm):
                rep.violation("C23-pipe", fn_cfd, what, f"{what}: the comparison check runs {n_chk} times and complex nodes are removed {n_rm} times (complex mode: checked, never removed)")
            elif not complex_mode and (n_chk or n_rm < 1):
                rep.violation("C23-pipe", fn_cfd, what, f"{what}: the comparison check runs {n_chk} times and complex nodes are removed {n_rm} times (real mode: removed, comparisons need no check)")
            else:
                rep.ok("C23-pipe", fn_cfd, f"{what}: passes run {names}: comparison check {'runs' if complex_mode else 'does not run'}, complex nodes {'kept' if complex_mode else 'removed'}")
    rep.require_min("C23-closed", 100)
    rep.require_min("C23-wrap", 60)
    rep.require_min("C23-real", 100)
    rep.require_min("C23-pipe", 3)
    rep.counts.update(accepted=n_acc, rejected=n_rej)
    rep.explanation = (
        f"CheckComparisons was lifted on {len(ops)} operand shapes x 6 ordering constructs x 2 operand positions; acceptance was compared "
        "with realness of the operand's lifted term under complex data for possibly-complex terminals (soundness), the rewritten "
        "expression with the input under real data; ComplexNodeRemoval lifted on conj/real/imag/complex-literal cases; the "
        "compute_form_data interpreted in both modes with recording stand-ins for its passes."
    )
    rep.assumptions = ["arguments, geometric quantities and real literals are real; coefficients, constants and complex literals may be complex", "completeness (accepting every real comparison) is not required by the property and not checked"]
    from ..memokey import memo_rule

    return rep


def _contains(t, names):
    seen, todo = set(), [t]
    while todo:
        x = todo.pop()
        if id(x) in seen:
            continue
        seen.add(id(x))
        tags = getattr(x, "tags", {})
        if tags.get("ufl_class") in names:
            return True
        todo.extend(tags.get("ufl_operands", ()))
    return False
