"""C07 -- geometry lowering computes the geometric quantities of the actual cell.

Every handler of GeometryLoweringApplier is lifted from source on an *affine simplex with symbolic
vertex coordinates* (interval in R^1..3, triangle in R^2..3, tetrahedron in R^3; every facet; both
orientations for immersed cells) -- the leaf terminals the lowering stops at (ReferenceGrad(x),
CellOrigin, CellFacetJacobian, CellRidgeJacobian, reference volumes, CellEdgeVectors,
FacetEdgeVectors, ReferenceNormal, CellOrientation, CellVertices) are interpreted by their values
on that cell -- and the lifted expression is compared with the quantity computed directly from the
vertices by this checker:

  J, K (left inverse / (J^T J)^-1 J^T), detJ (signed by orientation on manifolds), facet / ridge
  Jacobians (+inverse, determinant), cell coordinate (x = v0 + J X), cell volume and facet area
  (Gram determinants), circumradius (Cayley-Menger formula, symmetric in the vertices: independent
  of any edge numbering), min/max cell and facet edge lengths and cell diameter (min/max over vertex
  pairs), cell normal and facet normal (unit, orthogonal to the tangents, in the tangent space,
  correctly oriented).

Polynomial/rational identities are decided exactly; identities through sqrt/abs/min/max by random
interpretation of the lifted terms over real vertex coordinates (both orientations are sampled).
C07-guard: the affine-only formulas are guarded (non-affine cells return the node unlowered or
raise), and preserved types are returned unchanged.

C07-shape  the `ufl_shape` property of every geometric quantity class of ufl/geometry.py is interpreted from source on
           every cell kind in every admissible geometric dimension (immersed cells included) and compared with the
           shape its definition gives (physical vectors in R^gdim, reference ones in R^tdim, one row per entity): the
           extents of the index sums in the lowered expressions come from these declarations.
"""

from __future__ import annotations

import ast
import itertools
from fractions import Fraction

from .. import sym, uflmodel, uflsem
from ..lift import Interp, LiftRaise, NumTypecodes, Obj, Unsupported
from ..model import AnalysisError, norm
from ..report import Report
from ..uflmodel import node, terminal
from ..uflsem import T, as_T, equal_T
from . import c06

MOD = "ufl.algorithms.apply_geometry_lowering"

# Reference simplices (basix / UFC convention; the numbering lives outside UFL: frozen table).
REF_VERTS = {
    "interval": [(0,), (1,)],
    "triangle": [(0, 0), (1, 0), (0, 1)],
    "tetrahedron": [(0, 0, 0), (1, 0, 0), (0, 1, 0), (0, 0, 1)],
    "quadrilateral": [(0, 0), (1, 0), (0, 1), (1, 1)],
}
# edge e of the reference cell -> vertex pair
EDGES = {
    "interval": [(0, 1)],
    "triangle": [(1, 2), (0, 2), (0, 1)],
    "tetrahedron": [(2, 3), (1, 3), (1, 2), (0, 3), (0, 2), (0, 1)],
}
TDIM = {"interval": 1, "triangle": 2, "tetrahedron": 3, "quadrilateral": 2}


def facet_vertices(cell, f):
    """facet f of a simplex is the sub-simplex opposite vertex f"""
    n = len(REF_VERTS[cell])
    if cell == "interval":
        return [f]  # the facets of an interval are its vertices: facet i = vertex i
    return [v for v in range(n) if v != f]


def opposite_vertex(cell, f):
    return 1 - f if cell == "interval" else f


def vec(entries):
    return T((len(entries),), (), (), {((k,), ()): sym.lift(e) for k, e in enumerate(entries)})


def mat(rows):
    return T((len(rows), len(rows[0])), (), (), {((i, j), ()): sym.lift(e) for i, r in enumerate(rows) for j, e in enumerate(r)})


class Cell:
    def __init__(self, name, gdim, facet=0, orientation=1, ridge=0):
        self.name = name
        self.gdim = gdim
        self.tdim = TDIM[name]
        self.facet = facet
        self.ridge = ridge
        self.orientation = orientation
        nv = len(REF_VERTS[name])
        self.v = [[sym.sym(f"v{a}_{i}") for i in range(gdim)] for a in range(nv)]
        self.simplex = name != "quadrilateral"

    def diff(self, a, b):
        return [sym.add(self.v[a][i], sym.neg(self.v[b][i])) for i in range(self.gdim)]

    def J(self):
        # columns v_{k+1} - v_0
        cols = [self.diff(k + 1, 0) for k in range(self.tdim)]
        return mat([[cols[k][i] for k in range(self.tdim)] for i in range(self.gdim)])

    def facet_matrix(self, f=None):
        fv = facet_vertices(self.name, self.facet if f is None else f)
        cols = [self.diff(fv[k + 1], fv[0]) for k in range(len(fv) - 1)]
        return mat([[cols[k][i] for k in range(len(cols))] for i in range(self.gdim)]) if cols else None

    def ref_facet_matrix(self):
        fv = facet_vertices(self.name, self.facet)
        rv = REF_VERTS[self.name]
        cols = [[rv[fv[k + 1]][i] - rv[fv[0]][i] for i in range(self.tdim)] for k in range(len(fv) - 1)]
        return mat([[cols[k][i] for k in range(len(cols))] for i in range(self.tdim)])

    def ridge_pairs(self):
        return EDGES[self.name]

    def ref_ridge_matrix(self):
        a, b = EDGES[self.name][self.ridge]
        rv = REF_VERTS[self.name]
        return mat([[rv[b][i] - rv[a][i]] for i in range(self.tdim)])

    def ridge_matrix(self):
        a, b = EDGES[self.name][self.ridge]
        d = self.diff(b, a)
        return mat([[d[i]] for i in range(self.gdim)])

    def edge_vectors(self):
        return mat([self.diff(b, a) for a, b in EDGES[self.name]])

    def facet_edge_vectors(self):
        fv = facet_vertices(self.name, self.facet)
        pairs = [(fv[1], fv[2]), (fv[0], fv[2]), (fv[0], fv[1])]
        return mat([self.diff(b, a) for a, b in pairs])

    def ref_normal(self):
        """outward normal of reference facet f (any positive multiple would do for direction; the
        true unit reference normal is used)"""
        rv = REF_VERTS[self.name]
        f = self.facet
        if self.name == "interval":
            return vec([-1 if f == 0 else 1])
        if f == 0:
            n = [1] * self.tdim
            s = sym.fn("sqrt", sym.const(self.tdim))
            return vec([sym.div(sym.ONE, s)] * self.tdim)
        n = [0] * self.tdim
        n[f - 1] = -1
        return vec(n)

    def dist2(self, a, b):
        d = self.diff(a, b)
        acc = sym.ZERO
        for x in d:
            acc = sym.add(acc, sym.mul(x, x))
        return acc


def dot(a, b):
    acc = sym.ZERO
    for x, y in zip(a, b):
        acc = sym.add(acc, sym.mul(x, y))
    return acc


def comps(t: T):
    return [t.get(c) for c in itertools.product(*[range(d) for d in t.shape])]


def gram_det(M: T):
    return c06.o_det(c06.o_gram(M)) if M.shape[1] > 0 else sym.ONE


def fact(n):
    r = 1
    for k in range(2, n + 1):
        r *= k
    return r


def cayley_menger_R2(cell: Cell):
    n = len(cell.v)
    D = [[cell.dist2(a, b) if a != b else sym.ZERO for b in range(n)] for a in range(n)]
    CM = [[sym.ZERO] + [sym.ONE] * n] + [[sym.ONE] + D[a] for a in range(n)]
    detD = c06.o_det(mat(D))
    detCM = c06.o_det(mat(CM))
    return sym.div(sym.neg(detD), sym.mul(sym.const(2), detCM))


def reduce_pairs(cell: Cell, verts, which):
    ds = [cell.dist2(a, b) for a, b in itertools.combinations(verts, 2)]
    acc = ds[0]
    for d in ds[1:]:
        acc = sym.fn(which, acc, d)
    return sym.fn("sqrt", acc)


class Lowering:
    def __init__(self, ctx, cell: Cell, preserve_types=()):
        self.ctx = ctx
        self.cell = cell
        prog = ctx.prog
        self.cls = prog.get_class(f"{MOD}.GeometryLoweringApplier")
        self.tab = ctx.disp.mf_table(self.cls)
        ip = uflmodel.install(Interp(prog), gdim=cell.gdim, tdim=cell.tdim)
        self.ip = ip
        c = cell
        coord_el = Obj("element", pullback=Obj("pullback", is_identity=True), embedded_subdegree=1, embedded_superdegree=1)
        ucell = Obj("cell", cellname=c.name, topological_dimension=c.tdim)
        dom = Obj(
            "domain",
            geometric_dimension=c.gdim,
            topological_dimension=c.tdim,
            ufl_coordinate_element=lambda: coord_el,
            ufl_cell=lambda: ucell,
            is_piecewise_linear_simplex_domain=lambda: c.simplex,
        )
        self.dom = dom
        ip.overrides["extract_unique_domain"] = lambda o, expand_mesh_sequence=True: dom
        ip.overrides["warnings"] = Obj("warnings", warn=lambda *a, **k: None)
        x = terminal("x", (c.gdim,), "SpatialCoordinate")
        self.x = x

        def geo(name, value, **tags):
            def model(d):
                t = node(as_T(value), name, ())
                t.tags.update(_ufl_is_terminal_=True, _ufl_typecode_=name, key=(name,))
                t.tags.update(tags)
                return t

            return model

        def sym_node(name, shape=()):
            def model(d):
                t = terminal(name, shape, name)
                t.tags["_ufl_typecode_"] = name
                return t

            return model

        cm = ip.class_models
        cm["SpatialCoordinate"] = lambda d: x
        x.tags["_ufl_typecode_"] = "SpatialCoordinate"

        def m_refgrad(t):
            t = as_T(t)
            if t.tags.get("ufl_class") == "SpatialCoordinate":
                r = node(c.J(), "ReferenceGrad", (t,))
                return r
            raise Unsupported("ReferenceGrad of something other than the spatial coordinate")

        cm["ReferenceGrad"] = m_refgrad
        for nm in ("Jacobian", "JacobianInverse", "JacobianDeterminant", "FacetJacobian", "FacetJacobianDeterminant", "FacetJacobianInverse", "RidgeJacobian", "RidgeJacobianDeterminant", "RidgeJacobianInverse", "CellVolume", "MaxCellEdgeLength", "MinCellEdgeLength", "Circumradius", "FacetArea", "CellDiameter", "CellCoordinate", "FacetNormal", "CellNormal", "MaxFacetEdgeLength", "MinFacetEdgeLength"):
            cm[nm] = (lambda nm: lambda d: self.placeholder(nm))(nm)
        cm["CellOrigin"] = geo("CellOrigin", vec(c.v[0]))
        if c.simplex and c.tdim >= 2:
            cm["CellFacetJacobian"] = geo("CellFacetJacobian", c.ref_facet_matrix())
        if c.name == "tetrahedron":
            cm["CellRidgeJacobian"] = geo("CellRidgeJacobian", c.ref_ridge_matrix())
            cm["FacetEdgeVectors"] = geo("FacetEdgeVectors", c.facet_edge_vectors())
        if c.simplex:
            cm["ReferenceCellVolume"] = geo("ReferenceCellVolume", T.scalar(sym.const(Fraction(1, fact(c.tdim)))))
            cm["ReferenceFacetVolume"] = geo("ReferenceFacetVolume", T.scalar(sym.const(Fraction(1, fact(c.tdim - 1)))))
            cm["CellEdgeVectors"] = geo("CellEdgeVectors", c.edge_vectors())
            cm["ReferenceNormal"] = geo("ReferenceNormal", c.ref_normal())
        cm["CellVertices"] = geo("CellVertices", mat(c.v))
        cm["CellOrientation"] = geo("CellOrientation", T.scalar(sym.const(c.orientation)))
        ip.overrides["combinations"] = lambda seq, r: list(itertools.combinations(list(seq), r))

        def _reduce(f, seq, *init):
            seq = list(seq)
            acc = init[0] if init else seq.pop(0)
            for s in seq:
                acc = f(acc, s)
            return acc

        ip.overrides["reduce"] = _reduce
        self.selfobj = Obj("GeometryLoweringApplier", __class__=self.cls)
        # the applier's own __init__ from source (whatever working state it sets up, under whatever names), with the
        # given preserve_types; a type's typecode is its name and `[x] * Expr._ufl_num_typecodes_` a table over names
        ip.skip_functions.add("MultiFunction.__init__")
        ip.class_attrs = dict(getattr(ip, "class_attrs", None) or {})
        ip.class_attrs[("ufl.core.expr", "Expr", "_ufl_num_typecodes_")] = NumTypecodes(len(ctx.tm.types))
        init = prog.lookup(self.cls, "__init__")
        if init is not None and init.cls is self.cls:
            ip.call_function(init, [tuple(preserve_types)], {}, self_obj=self.selfobj)
        prev = ip.isinstance_hook

    def placeholder(self, name):
        t = terminal("<" + name + ">", self.shape_of(name), name)
        t.tags["_ufl_typecode_"] = name
        return t

    def shape_of(self, name):
        g, t = self.cell.gdim, self.cell.tdim
        return {
            "Jacobian": (g, t),
            "JacobianInverse": (t, g),
            "FacetJacobian": (g, t - 1),
            "FacetJacobianInverse": (t - 1, g),
            "RidgeJacobian": (g, t - 2),
            "RidgeJacobianInverse": (t - 2, g),
            "CellCoordinate": (t,),
            "FacetNormal": (g,),
            "CellNormal": (g,),
        }.get(name, ())

    def lower(self, tname):
        h = self.tab.get(tname)
        if h is None:
            raise AnalysisError(f"GeometryLoweringApplier has no handler for {tname}")
        o = self.placeholder(tname)
        return h, self.ip.call_function(h.func, [o], {}, self_obj=self.selfobj), o


# declared shape of every geometric quantity, from its definition: physical vectors live in R^gdim, reference ones in
# R^tdim; Jacobians map reference to physical directions; the facet / ridge variants lose one / two reference
# directions; per-entity tables have one row per entity (g, t = geometric / topological dimension; nv, ne, nfe =
# vertices, edges, edges of a facet)
SHAPES = {
    "SpatialCoordinate": "g", "CellCoordinate": "t", "FacetCoordinate": "t-1", "RidgeCoordinate": "t-2",
    "CellOrigin": "g", "FacetOrigin": "g", "RidgeOrigin": "g", "CellFacetOrigin": "t", "CellRidgeOrigin": "t",
    "Jacobian": "g,t", "FacetJacobian": "g,t-1", "RidgeJacobian": "g,t-2",
    "CellFacetJacobian": "t,t-1", "CellRidgeJacobian": "t,t-2", "FacetRidgeJacobian": "t-1,t-2",
    "ReferenceCellEdgeVectors": "ne,t", "ReferenceFacetEdgeVectors": "nfe,t",
    "CellVertices": "nv,g", "CellEdgeVectors": "ne,g", "FacetEdgeVectors": "nfe,g",
    "JacobianInverse": "t,g", "FacetJacobianInverse": "t-1,g", "RidgeJacobianInverse": "t-2,g",
    "CellFacetJacobianInverse": "t-1,t", "CellRidgeJacobianInverse": "t-2,t",
    "FacetNormal": "g", "CellNormal": "g", "ReferenceNormal": "t",
}  # fmt: skip
CELLS = {  # name: (tdim, vertices, edges, edges of a facet)
    "interval": (1, 2, 1, 0), "triangle": (2, 3, 3, 1), "quadrilateral": (2, 4, 4, 1), "tetrahedron": (3, 4, 6, 3), "hexahedron": (3, 8, 12, 4),
}  # fmt: skip


def check_declared_shapes(ctx, rep):
    """C07-shape: the `ufl_shape` property of every geometric quantity class interpreted from source on every cell kind
    and every admissible geometric dimension (immersed cells included), compared with the table above."""
    from ..lift import Interp

    prog = ctx.prog
    mod = prog.module("ufl.geometry")
    declared = {c.name: c for c in mod.classes.values() if "ufl_shape" in c.methods}
    unknown = sorted(set(declared) - set(SHAPES))
    if unknown:
        raise AnalysisError(f"geometric quantities with a declared shape that the oracle table does not know: {unknown}")
    missing = sorted(set(SHAPES) - set(declared))
    if missing:
        raise AnalysisError(f"geometric quantity classes vanished (anchor): {missing}")
    for cname, (t, nv, ne, nfe) in CELLS.items():
        for g in range(t, 4):
            facet = Obj("cell", num_edges=nfe, cellname="facet of " + cname)
            facet.attrs["__class__"] = None
            ucell = Obj("cell", cellname=cname, topological_dimension=t, num_vertices=nv, num_edges=ne, facet_types=(facet,), num_facet_edges=nfe)
            ucell.attrs["__class__"] = None
            dom = Obj("domain", geometric_dimension=g, topological_dimension=t, ufl_cell=lambda ucell=ucell: ucell)
            dom.attrs["__class__"] = None
            env = dict(g=g, t=t, nv=nv, ne=ne, nfe=nfe)
            for name, K in declared.items():
                want = tuple(eval(x, {}, env) for x in SHAPES[name].split(","))
                if any(d < 0 for d in want) or (name in ("FacetEdgeVectors", "ReferenceFacetEdgeVectors") and t < 3):
                    continue  # the quantity does not exist on this cell (no ridges / facet edges)
                ip = Interp(prog)
                ip.overrides["extract_unique_domain"] = lambda o, **k: dom
                o = Obj(name, __class__=K, _domain=dom)
                fn = K.methods["ufl_shape"]
                try:
                    got = tuple(ip.call_function(fn, [], {}, self_obj=o))
                except LiftRaise as ex:
                    rep.violation("C07-shape", fn, f"{name}.ufl_shape on {cname} in R^{g}", f"{name}.ufl_shape raises on a {cname} in R^{g}: {ex.what[:100]}")
                    continue
                if got == want:
                    rep.ok("C07-shape", fn, f"{name} on {cname} in R^{g}: shape {got}")
                else:
                    rep.violation("C07-shape", fn, f"{name}.ufl_shape on {cname} in R^{g}", f"{name} declares shape {got} on a {cname} (tdim {t}) in R^{g}; by its definition ({SHAPES[name]}) it has shape {want}: sums over its axes in the lowered expressions run over the wrong range")


def run(ctx) -> Report:
    rep = Report("C07")
    prog = ctx.prog
    # the memo-key clause first: it needs no interpretation, and what it finds is reported even if a later clause cannot follow the code
    from ..memokey import check_memo_keys, memo_rule  # noqa: F401
    memo_rule(ctx, rep, "C07-key", ['ufl.algorithms.apply_geometry_lowering'])
    cls = prog.get_class(f"{MOD}.GeometryLoweringApplier")
    ctx.crosscheck_dispatch({"GeometryLoweringApplier"})
    pts = 24 if ctx.thorough() else 10

    def num_equal(rule, h, what, got, want, positive=None):
        got, want = as_T(got), as_T(want)
        ok, how, wit = equal_T(got, want, rng=ctx.rng, real_only=True, points=pts)
        if ok:
            rep.ok(rule, h.func, f"{what}: equals the value computed from the vertices ({how})")
            rep.count(f"equal_{how}")
        else:
            rep.violation(rule, h.func, what, f"lowered {what} differs from the quantity computed from the cell's vertices ({how}): {wit}", witness=wit)

    def holds(rule, h, what, ex, kind="zero"):
        """ex == 0 (identity) or ex > 0 at every sampled real point"""
        if kind == "zero":
            ok, how, wit = sym.equal(ex, sym.ZERO, rng=ctx.rng, real_only=True, points=pts)
            if ok:
                rep.ok(rule, h.func, f"{what} ({how})")
            else:
                rep.violation(rule, h.func, what, f"{what} fails: {wit}", witness=wit)
            return
        names = sorted(sym.symbols_of(ex))
        bad = None
        for k in range(pts):
            env = {n: complex(ctx.rng.uniform(0.3, 1.7) * ctx.rng.choice((1, -1)), 0) for n in names}
            try:
                v = sym.evaluate(ex, env, salt=k)
            except (ZeroDivisionError, ValueError):
                continue
            if not (v.real > 1e-12 and abs(v.imag) < 1e-9):
                bad = (env, v)
                break
        if bad is None:
            rep.ok(rule, h.func, f"{what} (> 0 at {pts} random cells)")
        else:
            rep.violation(rule, h.func, what, f"{what} fails: value {bad[1]} at {dict(list(bad[0].items())[:6])}", witness=str(bad))

    configs = []
    for gdim in (1, 2, 3):
        for f in (0, 1):
            for co in ((1, -1) if gdim > 1 else (1,)):
                configs.append(("interval", gdim, f, co, 0))
    for gdim in (2, 3):
        for f in (0, 1, 2):
            for co in ((1, -1) if gdim > 2 else (1,)):
                configs.append(("triangle", gdim, f, co, 0))
    for f in (0, 1, 2, 3):
        configs.append(("tetrahedron", 3, f, 1, f))
    if ctx.thorough():
        configs += [("tetrahedron", 3, 0, 1, r) for r in (4, 5)]

    for name, gdim, facet, co, ridge in configs:
        cell = Cell(name, gdim, facet, co, ridge)
        L = Lowering(ctx, cell)
        tag = f"{name} in R^{gdim}, facet {facet}" + (f", orientation {co:+d}" if gdim > cell.tdim else "")
        tdim = cell.tdim
        Jt = cell.J()
        first_facet = facet == 0 and co == 1

        def lo(tname):
            try:
                return L.lower(tname)
            except LiftRaise as e:
                h = L.tab.get(tname)
                rep.violation("C07-form/" + tname, h.func, f"{tname} on {tag}", f"lowering of {tname} raises on an affine {tag}: {e.what}")
                return h, None, None

        if first_facet:
            h, got, _ = lo("Jacobian")
            if got is not None:
                num_equal("C07-form/Jacobian", h, f"Jacobian on {tag}", got, Jt)
            h, got, _ = lo("JacobianInverse")
            if got is not None:
                want = c06.o_inverse(Jt) if gdim == tdim and tdim > 1 else (c06.o_pseudo_inverse(Jt) if gdim != tdim else T((1, 1), (), (), {((0, 0), ()): sym.div(sym.ONE, Jt.get((0, 0)))}))
                num_equal("C07-form/JacobianInverse", h, f"JacobianInverse on {tag}", got, want)
            h, got, _ = lo("CellCoordinate")
            if got is not None:
                # x = v0 + J X  (for points of the cell's affine hull; exact identity for square J)
                got = as_T(got)
                if gdim == tdim:
                    for i in range(gdim):
                        ex = cell.v[0][i]
                        for k in range(tdim):
                            ex = sym.add(ex, sym.mul(Jt.get((i, k)), got.get((k,))))
                        holds("C07-form/CellCoordinate", h, f"x[{i}] == v0 + (J X)[{i}] on {tag}", sym.add(ex, sym.neg(L.x.get((i,)))))
                else:
                    want = []
                    P = c06.o_pseudo_inverse(Jt)
                    for k in range(tdim):
                        acc = sym.ZERO
                        for i in range(gdim):
                            acc = sym.add(acc, sym.mul(P.get((k, i)), sym.add(L.x.get((i,)), sym.neg(cell.v[0][i]))))
                        want.append(acc)
                    num_equal("C07-form/CellCoordinate", h, f"CellCoordinate on {tag}", got, vec(want))
            h, got, _ = lo("CellVolume")
            if got is not None:
                want = sym.div(sym.fn("sqrt", gram_det(Jt)), sym.const(fact(tdim)))
                num_equal("C07-form/CellVolume", h, f"CellVolume on {tag}", got, T.scalar(want))
            h, got, _ = lo("Circumradius")
            if got is not None:
                if name == "interval":
                    want = sym.div(sym.fn("sqrt", cell.dist2(0, 1)), sym.const(2))
                else:
                    want = sym.fn("sqrt", cayley_menger_R2(cell))
                num_equal("C07-form/Circumradius", h, f"Circumradius on {tag}", got, T.scalar(want))
            nv = len(cell.v)
            for tname, which in (("MinCellEdgeLength", "min"), ("MaxCellEdgeLength", "max"), ("CellDiameter", "max")):
                h, got, _ = lo(tname)
                if got is not None:
                    num_equal("C07-form/" + tname, h, f"{tname} on {tag}", got, T.scalar(reduce_pairs(cell, range(nv), which)))
        if facet == 0:
            h, got, _ = lo("JacobianDeterminant")
            if got is not None:
                if gdim == tdim:
                    want = c06.o_det(Jt)
                else:
                    want = sym.mul(sym.const(co), sym.fn("sqrt", gram_det(Jt)))
                num_equal("C07-form/JacobianDeterminant", h, f"JacobianDeterminant on {tag}", got, T.scalar(want))
            if gdim == tdim + 1:
                h, got, _ = lo("CellNormal")
                if got is not None:
                    n = comps(as_T(got))
                    cols = [[Jt.get((i, k)) for i in range(gdim)] for k in range(tdim)]
                    holds("C07-form/CellNormal", h, f"|cell normal|^2 == 1 on {tag}", sym.add(dot(n, n), sym.const(-1)))
                    for k, tvec in enumerate(cols):
                        holds("C07-form/CellNormal", h, f"cell normal orthogonal to tangent {k} on {tag}", dot(n, tvec))
                    if tdim == 2:
                        cr = comps(c06.o_cross(vec(cols[0]), vec(cols[1])))
                        holds("C07-form/CellNormal", h, f"cell normal oriented as orientation * (t0 x t1) on {tag}", sym.mul(sym.const(co), dot(n, cr)), kind="positive")
                    else:
                        t0 = cols[0]
                        ex = sym.add(sym.mul(t0[0], n[1]), sym.neg(sym.mul(t0[1], n[0])))
                        holds("C07-form/CellNormal", h, f"cell normal is 'up' for a line pointing right (times orientation) on {tag}", sym.mul(sym.const(co), ex), kind="positive")
        # facet quantities
        if co == 1 or gdim > tdim:
            h, got, _ = lo("FacetNormal")
            if got is not None and co == 1:
                n = comps(as_T(got))
                holds("C07-form/FacetNormal", h, f"|facet normal|^2 == 1 on {tag}", sym.add(dot(n, n), sym.const(-1)))
                fv = facet_vertices(name, facet)
                for a in fv[1:]:
                    holds("C07-form/FacetNormal", h, f"facet normal orthogonal to facet edge v{a}-v{fv[0]} on {tag}", dot(n, cell.diff(a, fv[0])))
                holds("C07-form/FacetNormal", h, f"facet normal points away from the opposite vertex on {tag}", sym.neg(dot(n, cell.diff(opposite_vertex(name, facet), fv[0]))), kind="positive")
                if gdim == 3 and tdim == 2:
                    cols = [[Jt.get((i, k)) for i in range(gdim)] for k in range(tdim)]
                    cr = comps(c06.o_cross(vec(cols[0]), vec(cols[1])))
                    holds("C07-form/FacetNormal", h, f"facet normal lies in the cell's tangent plane on {tag}", dot(n, cr))
                if gdim > 1 and tdim == 1:
                    # tangent space of the line: n parallel to the tangent
                    t0 = [Jt.get((i, 0)) for i in range(gdim)]
                    for i in range(gdim):
                        for j in range(i + 1, gdim):
                            holds("C07-form/FacetNormal", h, f"facet normal parallel to the line's tangent ({i},{j}) on {tag}", sym.add(sym.mul(n[i], t0[j]), sym.neg(sym.mul(n[j], t0[i]))))
        if co == 1:
            h, got, _ = lo("FacetArea")
            if got is not None:
                if tdim == 1:
                    want = sym.ONE
                else:
                    want = sym.div(sym.fn("sqrt", gram_det(cell.facet_matrix())), sym.const(fact(tdim - 1)))
                num_equal("C07-form/FacetArea", h, f"FacetArea on {tag}", got, T.scalar(want))
            if tdim >= 2:
                FM = cell.facet_matrix()
                h, got, _ = lo("FacetJacobian")
                if got is not None:
                    num_equal("C07-form/FacetJacobian", h, f"FacetJacobian on {tag}", got, FM)
                h, got, _ = lo("FacetJacobianDeterminant")
                if got is not None:
                    num_equal("C07-form/FacetJacobianDeterminant", h, f"FacetJacobianDeterminant on {tag}", got, T.scalar(sym.fn("sqrt", gram_det(FM))))
                h, got, _ = lo("FacetJacobianInverse")
                if got is not None:
                    num_equal("C07-form/FacetJacobianInverse", h, f"FacetJacobianInverse on {tag}", got, c06.o_pseudo_inverse(FM))
            if name == "tetrahedron":
                RM = cell.ridge_matrix()
                h, got, _ = lo("RidgeJacobian")
                if got is not None:
                    num_equal("C07-form/RidgeJacobian", h, f"RidgeJacobian (ridge {ridge}) on {tag}", got, RM)
                h, got, _ = lo("RidgeJacobianDeterminant")
                if got is not None:
                    num_equal("C07-form/RidgeJacobianDeterminant", h, f"RidgeJacobianDeterminant (ridge {ridge}) on {tag}", got, T.scalar(sym.fn("sqrt", gram_det(RM))))
                h, got, _ = lo("RidgeJacobianInverse")
                if got is not None:
                    num_equal("C07-form/RidgeJacobianInverse", h, f"RidgeJacobianInverse (ridge {ridge}) on {tag}", got, c06.o_pseudo_inverse(RM))
                fv = facet_vertices(name, facet)
                for tname, which in (("MinFacetEdgeLength", "min"), ("MaxFacetEdgeLength", "max")):
                    h, got, _ = lo(tname)
                    if got is not None:
                        num_equal("C07-form/" + tname, h, f"{tname} on {tag}", got, T.scalar(reduce_pairs(cell, fv, which)))

    # Q1 quadrilateral: cell diameter = max distance between any two vertices; affine-only formulas
    # must not be applied
    cell = Cell("quadrilateral", 2)
    L = Lowering(ctx, cell)
    h, got, o = L.lower("CellDiameter")
    num_equal("C07-form/CellDiameter", h, "CellDiameter on a Q1 quadrilateral", got, T.scalar(reduce_pairs(cell, range(4), "max")))
    for tname in ("CellVolume", "FacetArea"):
        h, got, o = L.lower(tname)
        if got is o:
            rep.ok("C07-guard/affine", h.func, f"{tname} on a non-affine cell is left to the form compiler")
        else:
            rep.violation("C07-guard/affine", h.func, f"{tname} on a quadrilateral", f"the affine-simplex formula for {tname} is applied to a non-affine cell")
    try:
        h, got, o = L.lower("Circumradius")
        rep.violation("C07-guard/affine", h.func, "Circumradius on a quadrilateral", "circumradius of a non-simplex cell does not raise")
    except LiftRaise:
        rep.ok("C07-guard/affine", L.tab["Circumradius"].func, "Circumradius on a non-simplex cell raises")
    # higher order (bendy) cells: edge length / diameter not lowered
    cell = Cell("triangle", 2)
    L = Lowering(ctx, cell)
    coord_el = Obj("element", pullback=Obj("pullback", is_identity=True), embedded_subdegree=2, embedded_superdegree=2)
    L.dom.attrs["ufl_coordinate_element"] = lambda: coord_el
    L.dom.attrs["is_piecewise_linear_simplex_domain"] = lambda: False
    for tname in ("MinCellEdgeLength", "MaxCellEdgeLength", "CellDiameter", "CellVolume", "FacetArea"):
        h, got, o = L.lower(tname)
        if got is o:
            rep.ok("C07-guard/affine", h.func, f"{tname} on a degree-2 cell is left to the form compiler")
        else:
            rep.violation("C07-guard/affine", h.func, f"{tname} on a degree-2 triangle", f"the straight-edge formula for {tname} is applied to a curved cell")
    # facet edge lengths need tdim >= 3
    for tname in ("MinFacetEdgeLength", "MaxFacetEdgeLength"):
        try:
            h, got, o = L.lower(tname)
            rep.violation("C07-guard/affine", h.func, f"{tname} on a triangle", "facet edge length for tdim < 3 does not raise")
        except LiftRaise:
            rep.ok("C07-guard/affine", L.tab[tname].func, f"{tname} for tdim < 3 raises")
    # preserved types are returned unchanged
    cell = Cell("triangle", 2)
    L = Lowering(ctx, cell, preserve_types=[t.cls for t in ctx.tm.concrete() if t.cls.is_subclass_of("GeometricQuantity")])
    n_pres = 0
    for t in ctx.tm.concrete():
        if not t.cls.is_subclass_of("GeometricQuantity"):
            continue
        h = L.tab.get(t.name)
        if h is None:
            rep.violation("C07-guard/table", cls, t.name, f"no handler for geometric type {t.name}")
            continue
        if h.func.name in ("terminal",):
            rep.ok("C07-guard/table", h.func, f"{t.name} is kept as a terminal")
            continue
        try:
            o = L.placeholder(t.name)
            got = L.ip.call_function(h.func, [o], {}, self_obj=L.selfobj)
        except (LiftRaise, Unsupported) as e:
            rep.info("C07-guard/preserve", h.func, f"{t.name}: not lifted with preserve flag ({str(e)[:60]})")
            continue
        n_pres += 1
        if got is o:
            rep.ok("C07-guard/preserve", h.func, f"{t.name} listed in preserve_types is returned unchanged")
        else:
            rep.violation("C07-guard/preserve", h.func, f"{t.name} with preserve flag", f"{t.name} is lowered although it is listed in preserve_types")
    check_declared_shapes(ctx, rep)
    rep.require_min("C07-shape", 150)
    rep.require_min("C07-form", 150)
    rep.require_min("C07-guard", 30)
    rep.explanation = (
        "Each GeometryLoweringApplier handler was lifted from source on affine simplices with symbolic vertex coordinates "
        "(all facets, both orientations for immersed cells) and compared with the quantity computed directly from the vertices "
        "(Gram determinants, Cayley-Menger circumradius, pairwise vertex distances, defining properties of normals). Rational "
        "identities are exact; identities through sqrt/abs/min/max use random interpretation of the lifted terms over real vertex "
        f"coordinates ({pts} cells each, orientation-reversing cells included)."
    )
    rep.assumptions = [
        "reference simplex vertex/edge/facet numbering: frozen basix/UFC tables in this rule (the numbering lives outside UFL)",
        "leaf terminals are interpreted by their values on the affine cell (ReferenceGrad(x)=J, CellOrigin=v0, reference volumes 1/d!, ...)",
        "non-affine cells: only the guards are checked (quantities are left to the form compiler)",
    ]
    from ..memokey import memo_rule

    return rep
