"""C20 -- type dispatch stays valid when new expression types are registered later.

C20-cache   every class-level handler cache that stores per-typecode tables (found by rule: a class
            attribute dict read with .get(<algorithm class>) in __init__ and refilled with a table whose
            size / iteration comes from the type registry) is *validated against the live registry on
            every read*: the condition guarding the rebuild must compare a size derived from the fetched
            entry itself with a live registry size.  A validation that does not mention the fetched entry
            (a shared stamp, a flag) cannot tell which algorithm classes are stale.
C20-cache/stale  the branch that rebuilds an outdated entry does not read the outdated entry (nothing computed
            before a later registration is carried over).
C20-live    per-typecode tables are sized from / iterate over the live registry
            (Expr/UFLType._ufl_all_classes_, _ufl_num_typecodes_), never over a snapshot taken at import
            time (a module-level copy such as set(Expr._ufl_all_classes_)).
C20-index   every subscript by `._ufl_typecode_` outside the registry module indexes either a table that
            rule C20-cache covers, a dict (KeyError-free via `in`/.get), or a per-call table.
C20-sd      DAGTraverser-based algorithms dispatch through functools.singledispatchmethod (whose cache is
            invalidated on registration) - no typecode tables.
C20-cache/key  the cache entry is found under the exact algorithm class (see C19-mro/cache).
C20-late    MultiFunction.__init__ / Transformer.__init__ interpreted from source in a model type registry to which types
            are appended after algorithm classes have been used (an operator, a terminal, a subtype of a type with its own
            handler, a concrete non-Expr type that still carries the inherited abstract flag): every *new instance of an
            already used class* dispatches the new type - and all older ones - to the first handler along the type's
            mro that the class provides, with the right cut-off / visit-order flag (sa/rules/c19_dispatch.py).
"""

from __future__ import annotations

import ast

from ..model import AnalysisError, ClassInfo, FuncInfo, norm, parent_map
from ..report import Report

LIVE_ATTRS = ("_ufl_all_classes_", "_ufl_num_typecodes_", "_ufl_all_handler_names_")


LIFETIME_POSITIVE = '''
from functools import cache

from ufl.corealg.multifunction import MultiFunction


class Rules(MultiFunction):
    def expr(self, o, *ops):
        return o


AT_IMPORT = Rules()
_rules = None


@cache
def rules():
    return Rules()


def lazy_rules():
    global _rules
    if _rules is None:
        _rules = Rules()
    return _rules


def fine(e):
    return Rules()(e)
'''


def is_live_registry_expr(prog, mod, e) -> bool:
    """Expr._ufl_all_classes_ / UFLType._ufl_num_typecodes_ (attribute read at run time)."""
    if isinstance(e, ast.Attribute) and e.attr in LIVE_ATTRS:
        base = prog.resolve_expr(mod, e.value)
        return isinstance(base, ClassInfo) and base.name in ("Expr", "UFLType")
    if isinstance(e, ast.Call) and norm(e.func) == "len" and e.args:
        return is_live_registry_expr(prog, mod, e.args[0])
    return False


def snapshot_origin(prog, mod, e):
    """If e is a Name bound (through imports) to a module-level copy of the registry, return where."""
    if isinstance(e, ast.Call) and norm(e.func) == "len" and e.args:
        return snapshot_origin(prog, mod, e.args[0])
    if isinstance(e, ast.Name):
        r = prog.resolve_name(mod, e.id)
        if isinstance(r, ast.AST):
            for n in ast.walk(r):
                if isinstance(n, ast.Attribute) and n.attr in LIVE_ATTRS:
                    return norm(r)
    return None


def mentions(node, name) -> bool:
    return any(isinstance(n, ast.Name) and n.id == name for n in ast.walk(node))


def handler_cache_sites(prog):
    """Class-level caches read in __init__: (class, attribute, __init__, [fetch assignments], kind).
    kind 'dict-get'  : v = <Class>.attr.get(<key>)         (one dict on the base class, keyed explicitly)
    kind 'class-attr': v = <class object variable>.attr     (one attribute per class, found by attribute lookup)"""
    sites = []
    for cls in prog.all_classes():
        for cname, cval in cls.assigns.items():
            if not ("cache" in cname.lower() or (isinstance(cval, ast.Dict) and not cval.keys) or norm(cval) == "dict()"):
                continue
            init = cls.methods.get("__init__")
            if init is None:
                continue
            fetches, kind = [], None
            for st in ast.walk(init.node):
                if not (isinstance(st, ast.Assign) and len(st.targets) == 1 and isinstance(st.targets[0], ast.Name)):
                    continue
                v = st.value
                if isinstance(v, ast.Call) and isinstance(v.func, ast.Attribute) and v.func.attr == "get" and norm(v.func.value).endswith("." + cname):
                    fetches.append(st)
                    kind = "dict-get"
                elif isinstance(v, ast.Attribute) and v.attr == cname and not (isinstance(v.value, ast.Name) and v.value.id == "self" and False):
                    fetches.append(st)
                    kind = kind or "class-attr"
                elif isinstance(v, ast.Call) and norm(v.func) == "getattr" and len(v.args) >= 2 and isinstance(v.args[1], ast.Constant) and v.args[1].value == cname:
                    fetches.append(st)
                    kind = kind or "class-attr"
            if fetches:
                sites.append((cls, cname, init, fetches, kind))
    return sites


def cache_key_rule(prog, rep, rule, cls, cname, init, fetch, kind):
    """the handler table of an algorithm class must be found under that exact class"""
    what = f"{cls.name}.{cname}"
    if kind == "dict-get":
        key = norm(fetch.value.args[0]) if fetch.value.args else "?"
        if key in ("type(self)", "algorithm_class", "self.__class__"):
            rep.ok(rule, init, f"{what}: keyed by the algorithm class ({key})")
        else:
            rep.violation(rule, init, f"{what}.get({key})", f"{what} is keyed by `{key}`, not by the algorithm class")
    else:
        src = norm(fetch.value)
        if "__dict__" in src or src.startswith("vars("):
            rep.ok(rule, init, f"{what}: read from the class's own namespace ({src})")
        else:
            rep.violation(
                rule,
                (init, fetch),
                f"{norm(fetch.targets[0])} = {src}",
                f"{what} is stored as an attribute of each algorithm class and read by attribute lookup (`{src}`), which follows the MRO: a subclass first "
                "instantiated after its parent finds the parent's handler table and never builds its own, so handlers the subclass adds are skipped",
            )


def run(ctx) -> Report:
    rep = Report("C20")
    prog = ctx.prog
    sites = handler_cache_sites(prog)
    if len(sites) < 2:
        rep.info("C20-cache", "ufl", f"{len(sites)} class-level handler caches of the shape this clause knows (a class-level dict read in __init__): C20-late decides by interpretation")
    covered_tables = set()
    for cls, cname, init, fetches, kind in sites:
        mod = cls.module
        for fetch in fetches:
            var = fetch.targets[0].id if isinstance(fetch.targets[0], ast.Name) else None
            key = norm(fetch.value.args[0]) if kind == "dict-get" and fetch.value.args else norm(fetch.value)
            # the rebuild: an `if` whose body stores into the cache
            rebuild = None
            for st in ast.walk(init.node):
                if isinstance(st, ast.If):
                    for b in ast.walk(st):
                        if isinstance(b, ast.Assign) and any((isinstance(t, ast.Subscript) and norm(t.value).endswith("." + cname)) or (isinstance(t, ast.Attribute) and t.attr == cname) for t in b.targets):
                            rebuild = st
                            break
                if rebuild:
                    break
            what = f"{cls.name}.{cname}"
            if rebuild is None or var is None:
                rep.info("C20-cache", init, f"{what}: no rebuild-on-miss branch of the shape this clause knows; C20-late decides by interpretation")
                continue
            # is the cached value a per-typecode table? (built from the registry)
            uses_registry = any(is_live_registry_expr(prog, mod, n) or snapshot_origin(prog, mod, n) for n in ast.walk(rebuild) if isinstance(n, (ast.Attribute, ast.Name, ast.Call)))
            if not uses_registry:
                rep.info("C20-cache", init, f"{what}: cached value is not derived from the type registry")
                continue
            # (1) validation of the fetched entry against the live registry
            ok_valid = False
            for cmp_ in [n for n in ast.walk(rebuild.test) if isinstance(n, ast.Compare)]:
                sides = [cmp_.left] + list(cmp_.comparators)
                if len(sides) != 2 or not isinstance(cmp_.ops[0], (ast.NotEq, ast.Lt, ast.Eq, ast.LtE)):
                    continue
                a, b = sides
                for x, y in ((a, b), (b, a)):
                    if mentions(x, var) and "len" in norm(x) and is_live_registry_expr(prog, mod, y):
                        ok_valid = True
            # a validity test of another shape (a method of the entry, a helper function applied to it): not this clause's
            opaque = [n for n in ast.walk(rebuild.test) if isinstance(n, ast.Call) and norm(n.func) != "len" and any(mentions(x, var) for x in [n.func] + list(n.args))]
            if not ok_valid and opaque:
                rep.info("C20-cache", (init, rebuild), f"{what}: the fetched entry `{var}` is validated through `{norm(opaque[0])}`; C20-late decides by interpretation")
            elif ok_valid:
                rep.ok("C20-cache", (init, rebuild), f"{what}: fetched entry `{var}` is re-validated against the live registry size on every read")
            else:
                rep.violation(
                    "C20-cache",
                    (init, rebuild),
                    f"if {norm(rebuild.test)}",
                    f"{what} caches per-typecode tables per algorithm class but the rebuild condition `{norm(rebuild.test)}` does not compare the size of the fetched entry `{var}` with the live type registry: a class used before a later type registration keeps a too-short table",
                )
            # (1b) nothing of the stale entry may flow into the rebuilt one
            reassign = min((b.lineno for b in ast.walk(rebuild) if isinstance(b, ast.Assign) and any(isinstance(t, ast.Name) and t.id == var for t in b.targets)), default=10**9)
            stale_reads = [n for st in rebuild.body for n in ast.walk(st) if isinstance(n, ast.Name) and n.id == var and isinstance(n.ctx, ast.Load) and n.lineno < reassign]
            if stale_reads:
                rep.violation(
                    "C20-cache/stale",
                    (init, stale_reads[0]),
                    f"{var} read while rebuilding",
                    f"{what}: the branch that rebuilds an outdated entry reads the outdated entry `{var}` (line {stale_reads[0].lineno}): whatever it keeps from it "
                    "was computed before the later type registrations and is never refreshed",
                )
            else:
                rep.ok("C20-cache/stale", (init, rebuild), f"{what}: the rebuilt entry is computed from the live class and registry only")
            # (2) table sized from / iterated over the live registry
            for n in ast.walk(rebuild):
                if isinstance(n, ast.BinOp) and isinstance(n.op, ast.Mult) and isinstance(n.left, ast.List):
                    size = n.right
                    snap = snapshot_origin(prog, mod, size)
                    if is_live_registry_expr(prog, mod, size):
                        rep.ok("C20-live", (init, n), f"{what}: table sized by {norm(size)}")
                    else:
                        rep.violation("C20-live", (init, n), norm(n), f"{what}: per-typecode table sized by `{norm(size)}`" + (f", an import-time snapshot ({snap})" if snap else ", not the live registry size"))
                if isinstance(n, ast.For):
                    snap = snapshot_origin(prog, mod, n.iter)
                    if is_live_registry_expr(prog, mod, n.iter):
                        rep.ok("C20-live", (init, n), f"{what}: iterates {norm(n.iter)}")
                    elif snap:
                        rep.violation("C20-live", (init, n), f"for {norm(n.target)} in {norm(n.iter)}", f"{what}: handler table is filled by iterating `{norm(n.iter)}`, an import-time snapshot of the registry ({snap}); types registered later never get a handler")
            # (3) key is the algorithm class
            cache_key_rule(prog, rep, "C20-cache/key", cls, cname, init, fetch, kind)
            covered_tables.add(cls.name)
    # C20-live (global): snapshots of the registry must not size / index per-typecode tables anywhere
    n_idx = 0
    for fi in prog.all_functions():
        if fi.module.name in ("ufl.core.ufl_type", "ufl.core.expr"):
            continue
        for n in ast.walk(fi.node):
            if isinstance(n, ast.BinOp) and isinstance(n.op, ast.Mult) and isinstance(n.left, ast.List):
                snap = snapshot_origin(prog, fi.module, n.right)
                if snap:
                    rep.violation("C20-live", (fi, n), norm(n), f"per-typecode table sized from an import-time snapshot of the type registry ({snap})")
            if isinstance(n, ast.Subscript) and isinstance(n.ctx, ast.Load) and norm(n.slice).endswith("._ufl_typecode_"):
                n_idx += 1
                base = norm(n.value)
                owner = fi.cls.name if fi.cls else ""
                if base in ("self._handlers", "self._is_cutoff_type") and owner in ("MultiFunction", "Transformer"):
                    rep.ok("C20-index", (fi, n), f"{base}[typecode]: per-instance table built from the validated class cache")
                elif base.startswith("self._preserve_types"):
                    rep.info("C20-index", (fi, n), f"{base}[typecode]: per-instance table sized at construction (applier objects are created per call)")
                elif base in ("handlers", "cutoff_types", "_terminal_cmps", "Expr._ufl_obj_init_counts_", "Expr._ufl_obj_del_counts_"):
                    rep.ok("C20-index", (fi, n), f"{base}[typecode]: derived from a fresh algorithm object / dict lookup / registry array")
                else:
                    rep.info("C20-index", (fi, n), f"{base}[typecode]: unclassified typecode-indexed table")
    if n_idx < 4:
        raise AnalysisError("fewer than 4 typecode-indexed subscripts found: rule C20-index went vacuous")
    # C20-sd
    dt = prog.get_class("ufl.corealg.dag_traverser.DAGTraverser")
    proc = dt.methods.get("process")
    def is_sd(f):
        return any(d.split(".")[-1] == "singledispatchmethod" for d in f.decorators())

    if proc is None or not is_sd(proc):
        rep.violation("C20-sd", dt, "DAGTraverser.process", "DAGTraverser.process is not a functools.singledispatchmethod: dispatch would need its own registry-validated table")
    else:
        rep.ok("C20-sd", proc, "DAGTraverser.process dispatches through functools.singledispatchmethod")
    for c in ctx.disp.algorithm_classes()["DAGTraverser"]:
        p = next((f for f in c.all_defs if f.name == "process"), None)
        if p is not None:
            if is_sd(p):
                rep.ok("C20-sd", p, f"{c.name}.process is a singledispatchmethod")
            else:
                rep.violation("C20-sd", p, f"{c.name}.process", f"{c.name} redefines process without singledispatchmethod")
    # ---- lifetime of algorithm objects: their typecode tables are bound in __init__, so an instance is only valid for the
    # registry it was built against.  An instance kept beyond one call (module-level object, memoised factory, lazily filled
    # module global or class attribute) goes stale when a type is registered later.
    algs = {c.qualname for cs in ctx.disp.algorithm_classes().values() for c in cs if not c.is_subclass_of("DAGTraverser")}
    algs |= {"ufl.corealg.multifunction.MultiFunction", "ufl.algorithms.transformer.Transformer"}

    def is_alg_instance(mod, e, depth=0):
        if isinstance(e, ast.Call):
            k = prog.resolve_expr(mod, e.func)
            return isinstance(k, ClassInfo) and (k.qualname in algs or k.is_subclass_of("MultiFunction") or k.is_subclass_of("Transformer")) and not k.is_subclass_of("DAGTraverser")
        return False

    def scan_lifetime(mod, report):
        n = 0
        for st in mod.tree.body:
            if isinstance(st, (ast.Assign, ast.AnnAssign)) and st.value is not None and is_alg_instance(mod, st.value):
                report((mod, st.lineno, "<module>"), norm(st), f"{mod.name}: an algorithm object is created at import time (`{norm(st)[:80]}`): its handler table is bound to the types registered so far")
        for fi in list(mod.functions.values()) + [f for c in mod.classes.values() for f in c.all_defs]:
            decos = [norm(d.func if isinstance(d, ast.Call) else d) for d in fi.node.decorator_list]
            memoised = any(d.split(".")[-1] in ("cache", "lru_cache", "cached_property") for d in decos)
            rets = [n_ for n_ in ast.walk(fi.node) if isinstance(n_, ast.Return) and n_.value is not None]
            n += 1
            if memoised and any(is_alg_instance(mod, r.value) for r in rets):
                report(fi, f"@{'/'.join(decos)} {fi.qualname}", f"{fi.qualname} memoises an algorithm object ({norm(rets[0].value)}): one instance, with the handler table of the moment of its creation, serves all later calls - a type registered afterwards has no entry in it")
            # lazily filled module global / class attribute holding an algorithm object
            for a_ in ast.walk(fi.node):
                if isinstance(a_, ast.Assign) and is_alg_instance(mod, a_.value):
                    for t in a_.targets:
                        glob = isinstance(t, ast.Name) and any(isinstance(g, ast.Global) and t.id in g.names for g in ast.walk(fi.node))
                        clsattr = isinstance(t, ast.Attribute) and isinstance(prog.resolve_expr(mod, t.value), ClassInfo)
                        if glob or clsattr:
                            report((fi, a_), norm(a_), f"{fi.qualname} stores an algorithm object in {'a module global' if glob else 'a class attribute'} (`{norm(a_)[:80]}`): it outlives the registry state it was built for")
        return n

    # positive control: the three lifetimes must be recognised on every run
    pname = "verif_c20_lifetime_positive"
    if pname not in prog.modules:
        prog.add_virtual_module(pname, LIFETIME_POSITIVE)
    flagged = []
    scan_lifetime(prog.module(pname), lambda where, construct, why: flagged.append(construct))
    if len(flagged) != 3:
        raise AnalysisError(f"C20-live positive control: {len(flagged)} of 3 algorithm-object lifetimes recognised ({flagged})")
    n_life = 0
    for mod in prog.modules.values():
        if getattr(mod, "path", "").startswith("<"):
            continue
        n_life += scan_lifetime(mod, lambda where, construct, why: rep.violation("C20-live", where, construct, why))
    rep.ok("C20-live", "ufl", f"{n_life} functions and all module bodies scanned: no algorithm object (MultiFunction / Transformer instance) is created at import time, memoised by a cached factory or parked in a global")
    # ---- late registration interpreted: MultiFunction / Transformer __init__ in a model registry that grows ----
    from .c19_dispatch import run_dispatch

    run_dispatch(ctx, rep, rules=("C20-late",))
    rep.require_min("C20-late", 20)
    # the structural clauses look for today's shape of the caches (a class-level dict read in __init__); C20-late decides
    # the behaviour itself by interpretation, so fewer structural sites after a restructuring is reported, not an error
    n_cache = sum(1 for o in rep.obligations if o[0].split("/")[0] == "C20-cache")
    if n_cache < 4:
        rep.info("C20-cache", "ufl", f"only {n_cache} structural cache sites recognised (4 on the tree this rule was written for): the handler caches were restructured; C20-late (interpretation) decides")
    rep.require_min("C20-live", 2)
    rep.require_min("C20-sd", 10)
    rep.explanation = (
        "Class-level handler caches are discovered by rule (class dict attribute read with .get(algorithm class) in __init__ and "
        "refilled from the type registry); for each, the rebuild condition must re-validate the fetched entry against the live "
        "registry, the table must be sized from and filled by iterating the live registry, and the key must be the algorithm "
        "class. All typecode-indexed subscripts in the package are classified. DAGTraverser classes must dispatch through "
        "singledispatchmethod."
    )
    rep.assumptions = ["functools.singledispatch invalidates its dispatch cache on register() (CPython semantics)", "algorithm *instances* are created per run; an instance created before a registration and reused afterwards is out of scope"]
    return rep
