"""C03-compose / C04-compose: apply_derivatives interpreted from source on whole expressions containing spatial
derivative nodes (Grad, ReferenceGrad of composite operands, nested, div-like contractions) and variable derivative
nodes (diff w.r.t. scalar / vector variables, nested variables), in the symbolic world of sa/pipeworld.py.

  C03-compose  the result means the chain-rule derivative of the operand's meaning (d/dx_k = sum_j d/dX_j K[j,k]
               with the true inverse Jacobian of an affine triangle with symbolic vertices; d/dX_j acts on the
               reference values, the reference coordinates and - as zero - on the cell geometry), and in the result
               every derivative acts on a terminal only.
  C04-compose  diff(F, v): the variable's value is an independent quantity V; the result means dF/dV (shape
               F.shape + v.shape), through nested variables by the chain rule; no VariableDerivative remains.
"""

from __future__ import annotations

import itertools

from .. import sym, uflmodel, uflsem
from ..adlift import Deriv
from ..lift import LiftRaise, Obj, Unsupported
from ..model import AnalysisError
from ..pipeworld import PipeWorld
from ..uflmodel import MI, new_index, node
from ..uflsem import T, as_T, equal_T
from .c01_compose import walk


def derivatives_on_terminals_only(e):
    for t in walk(e):
        if t.tags.get("ufl_class") in ("Grad", "ReferenceGrad"):
            a = t.tags["ufl_operands"][0]
            while a.tags.get("ufl_class") in ("Grad", "ReferenceGrad", "ReferenceValue"):
                a = a.tags["ufl_operands"][0]
            if not a.tags.get("_ufl_is_terminal_"):
                return f"a derivative of the non-terminal {a.tags.get('ufl_class')} remains"
    return None


def compose_grad(ctx, rep):
    prog = ctx.prog
    fn = prog.get_function("ufl.algorithms.apply_derivatives", "apply_derivatives")
    um = uflmodel
    n = 0

    def cases(W):
        cm = W.H.ref
        f = W.function("f", (), "Coefficient", number=1)
        g = W.function("g", (), "Coefficient", number=2)
        u = W.function("u", (2,), "Coefficient", number=3)
        v = W.function("v", (), "Argument", number=0)
        x = W.geometry("SpatialCoordinate")
        vol = W.geometry("CellVolume")
        i, j = new_index(), new_index()
        P, S, D = um.m_product, um.m_sum, um.m_division
        idx = lambda A, *k: um.m_indexed(A, MI(k))  # noqa: E731
        one, two, three = um.m_scalar(1), um.m_scalar(2), um.m_scalar(3)
        uu = um.m_index_sum(P(idx(u, i), idx(u, i)), MI((i,)))
        E = [
            ("f*g", P(f, g)),
            ("f + g*v", S(f, P(g, v))),
            ("sin(f)*g", P(cm["Sin"](f), g)),
            ("f/(1 + g*g)", D(f, S(one, P(g, g)))),
            ("f**3", um.m_power(f, three)),
            ("sqrt(1 + f*f)", cm["Sqrt"](S(one, P(f, f)))),
            ("exp(f*g)", cm["Exp"](P(f, g))),
            ("u[i]*u[i]", uu),
            ("u (vector field)", u),
            ("as_vector([f*g, u[0]])", um.m_list_tensor(P(f, g), idx(u, 0))),
            ("x[0]*f", P(idx(x, 0), f)),
            ("x[0]*x[1]", P(idx(x, 0), idx(x, 1))),
            ("CellVolume*f", P(vol, f)),
            ("conditional(f<g, f*f, g)", um.m_conditional(um.m_rel("<")(f, g), P(f, f), g)),
            ("abs(f)*g", P(cm["Abs"](f), g)),
            ("f('+')*g  (restricted operand)", P(cm["PositiveRestricted"](f), g)),
        ]
        return E

    W0 = PipeWorld(ctx)
    descs = [d for d, _ in cases(W0)]
    for k, desc in enumerate(descs):
        for kind in ("grad", "grad(grad)", "div-like grad(.)[..,i] contracted"):
            W = PipeWorld(ctx)
            e = cases(W)[k][1]
            if kind == "div-like grad(.)[..,i] contracted" and e.shape != (2,):
                continue
            if kind == "grad(grad)" and ("conditional" in desc or "abs" in desc):
                continue
            try:
                if kind == "grad":
                    d = W.grad(e)
                elif kind == "grad(grad)":
                    d = W.grad(W.grad(e))
                else:
                    ii = new_index()
                    d = um.m_index_sum(um.m_indexed(W.grad(e), MI((ii, ii))), MI((ii,)))
            except uflsem.SemError as ex:
                continue
            what = f"{kind} of {desc}"
            want = as_T(d)
            try:
                got = as_T(W.ip.call_function(fn, [d], {}))
            except LiftRaise as ex:
                rep.violation("C03-compose", fn, what, f"apply_derivatives({what}) fails: {ex.what[:140]}")
                continue
            n += 1
            ok, how, wit = equal_T(got, want, rng=ctx.rng, real_only=True, points=6)
            post = derivatives_on_terminals_only(got)
            if not ok:
                rep.violation("C03-compose", fn, what, f"apply_derivatives({what}) is not the derivative of the operand ({how}): {wit}", witness=wit)
            elif post:
                rep.violation("C03-compose", fn, what + " (form)", f"apply_derivatives({what}): {post}")
            else:
                rep.ok("C03-compose", fn, f"apply_derivatives({what}) equals the chain-rule derivative ({how}); derivatives act on terminals only")
    # reference-frame operands: ReferenceGrad of expressions in reference values and geometry
    def ref_cases(W):
        cm = W.H.ref
        f = W.function("f", (), "Coefficient", number=1)
        q = W.function("q", (2,), "Coefficient", mapping="contravariant Piola", number=3)
        rf, rq = W.reference_value(f), W.reference_value(q)
        X = W.geometry("CellCoordinate")
        J = W.geometry("Jacobian")
        x = W.geometry("SpatialCoordinate")
        i = new_index()
        P, S = um.m_product, um.m_sum
        idx = lambda A, *k: um.m_indexed(A, MI(k))  # noqa: E731
        return [
            ("rv(f)*rv(f)", P(rf, rf)),
            ("sin(rv(f))*X[0]", P(cm["Sin"](rf), idx(X, 0))),
            ("J[0,i]*rv(q)[i]", um.m_index_sum(P(idx(J, 0, i), idx(rq, i)), MI((i,)))),
            ("x[0]*rv(f)", P(idx(x, 0), rf)),
            ("X (reference coordinate)", X),
        ]

    for k in range(len(ref_cases(PipeWorld(ctx)))):
        for kind in ("reference_grad", "reference_grad(reference_grad)"):
            W = PipeWorld(ctx)
            desc, e = ref_cases(W)[k]
            d = W.reference_grad(e) if kind == "reference_grad" else W.reference_grad(W.reference_grad(e))
            what = f"{kind} of {desc}"
            want = as_T(d)
            try:
                got = as_T(W.ip.call_function(fn, [d], {}))
            except LiftRaise as ex:
                rep.violation("C03-compose", fn, what, f"apply_derivatives({what}) fails: {ex.what[:140]}")
                continue
            n += 1
            ok, how, wit = equal_T(got, want, rng=ctx.rng, real_only=True, points=6)
            post = derivatives_on_terminals_only(got)
            if not ok:
                rep.violation("C03-compose", fn, what, f"apply_derivatives({what}) is not the reference derivative of the operand ({how}): {wit}", witness=wit)
            elif post:
                rep.violation("C03-compose", fn, what + " (form)", f"apply_derivatives({what}): {post}")
            else:
                rep.ok("C03-compose", fn, f"apply_derivatives({what}) equals the derivative with respect to the reference coordinate ({how})")
    # physical and reference derivatives of the same dimension in one expression (one ruleset object per kind)
    def mixed(W):
        f = W.function("f", (), "Coefficient", number=1)
        g = W.function("g", (), "Coefficient", number=2)
        rf = W.reference_value(f)
        P, S = um.m_product, um.m_sum
        idx = lambda A, *k: um.m_indexed(A, MI(k))  # noqa: E731
        gg = lambda: idx(W.grad(P(g, g)), 0)  # noqa: E731
        rr = lambda: idx(W.reference_grad(P(rf, rf)), 1)  # noqa: E731
        return [
            ("grad(g*g)[0] + reference_grad(rv(f)*rv(f))[1]", S(gg(), rr())),
            ("reference_grad(rv(f)*rv(f))[1] * grad(g*g)[0]", P(rr(), gg())),
        ]

    for k in range(2):
        W = PipeWorld(ctx)
        what, d = mixed(W)[k]
        want = as_T(d)
        try:
            got = as_T(W.ip.call_function(fn, [d], {}))
        except LiftRaise as ex:
            rep.violation("C03-compose", fn, what, f"apply_derivatives({what}) fails: {ex.what[:140]}")
            continue
        n += 1
        ok, how, wit = equal_T(got, want, rng=ctx.rng, real_only=True, points=6)
        post = derivatives_on_terminals_only(got)
        if not ok:
            rep.violation("C03-compose", fn, what, f"apply_derivatives({what}) is not the sum/product of the two derivatives ({how}): {wit}", witness=wit)
        elif post:
            rep.violation("C03-compose", fn, what + " (form)", f"apply_derivatives({what}): {post}")
        else:
            rep.ok("C03-compose", fn, f"apply_derivatives({what}): physical and reference derivatives each by their own rules ({how})")
    if n < 42:
        raise AnalysisError(f"only {n} spatial-derivative cases interpreted")
    return n


def compose_diff(ctx, rep):
    prog = ctx.prog
    fn = prog.get_function("ufl.algorithms.apply_derivatives", "apply_derivatives")
    um = uflmodel
    n = 0

    def label():
        return Obj("label", ufl_class="Label", ufl_operands=(), _ufl_is_terminal_=True)

    def variable(value_T, expr_node, lab):
        v = node(as_T(value_T), "Variable", (expr_node, lab), label=lambda: lab)
        v.tags["desc"] = "var"
        return v

    def cases(W):
        cm = W.H.ref
        f = W.function("f", (), "Coefficient", number=1)
        u = W.function("u", (2,), "Coefficient", number=3)
        A = W.function("A", (2, 2), "Coefficient", number=4)
        i, j = new_index(), new_index()
        P, S, D = um.m_product, um.m_sum, um.m_division
        idx = lambda X, *k: um.m_indexed(X, MI(k))  # noqa: E731
        one, two = um.m_scalar(1), um.m_scalar(2)
        out = []
        # scalar variable wrapping an expression of f: its value is the independent quantity V
        L = label()
        vs = variable(T.symbolic("V", ()), P(two, f), L)
        out.append(("v*v*f, v scalar", P(P(vs, vs), f), vs, ()))
        out.append(("sin(v)/(1 + v*v)", D(cm["Sin"](vs), S(one, P(vs, vs))), vs, ()))
        out.append(("f*f   (independent of v)", P(f, f), vs, ()))
        # a variable that labels a bare coefficient: the coefficient elsewhere in F is still independent of it
        vb = variable(T.symbolic("V", ()), f, label())
        out.append(("f*f*v, v = variable(f)", P(P(f, f), vb), vb, ()))
        vu = variable(T.symbolic("V", (2,)), u, label())
        out.append(("u[i]*v[i], v = variable(u)", um.m_index_sum(P(idx(u, i), idx(vu, i)), MI((i,))), vu, (2,)))
        # vector variable
        L2 = label()
        vv = variable(T.symbolic("V", (2,)), u, L2)
        out.append(("v[i]*v[i], v vector", um.m_index_sum(P(idx(vv, i), idx(vv, i)), MI((i,))), vv, (2,)))
        out.append(("v (vector) itself", vv, vv, (2,)))
        out.append(("A[i,j]*v[j]  (free i)", um.m_index_sum(P(idx(A, i, j), idx(vv, j)), MI((j,))), vv, (2,)))
        out.append(("as_vector([v[0]*v[1], f])", um.m_list_tensor(P(idx(vv, 0), idx(vv, 1)), f), vv, (2,)))
        # nested variables: w = variable(g(v)); F(w)
        L3 = label()
        gv = S(P(vs, vs), f)
        w = variable(as_T(gv), gv, L3)
        out.append(("exp(w), w = variable(v*v + f)", cm["Exp"](w), vs, ()))
        out.append(("w*v, w = variable(v*v + f)", P(w, vs), vs, ()))
        return out

    def oracle(Fm: T, vshape, base="V"):
        comps = list(itertools.product(*[range(d) for d in vshape]))
        data = {}
        for kc in comps:
            name = base if not kc else f"{base}[{','.join(map(str, kc))}]"
            d = Deriv((), sym_rule=lambda nm, k, name=name: sym.ONE if nm == name else sym.ZERO)
            for (c, iv), val in Fm.data.items():
                data[(c + kc, iv)] = d(val)
        return T(Fm.shape + tuple(vshape), Fm.fi, Fm.fid, data)

    def vdiff(F, var, vshape, base="V"):
        return node(oracle(as_T(F), vshape, base), "VariableDerivative", (F, var))

    def multi(W):
        """several variables in one expression (one ruleset object per variable must be used)"""
        f = W.function("f", (), "Coefficient", number=1)
        g = W.function("g", (), "Coefficient", number=2)
        P, S = um.m_product, um.m_sum
        v1 = variable(T.symbolic("V1", ()), f, label())
        v2 = variable(T.symbolic("V2", ()), g, label())
        F = P(P(v1, v1), v2)
        return [
            ("diff(v1*v1*v2, v1) + diff(v1*v1*v2, v2)", S(vdiff(F, v1, (), "V1"), vdiff(F, v2, (), "V2"))),
            ("diff(v1*v1*v2, v2) * diff(v1*v1*v2, v1)", P(vdiff(F, v2, (), "V2"), vdiff(F, v1, (), "V1"))),
            ("diff(diff(v1*v1*v2, v1), v2)", vdiff(vdiff(F, v1, (), "V1"), v2, (), "V2")),
            ("diff(diff(v1*v1*v2, v1), v1)", vdiff(vdiff(F, v1, (), "V1"), v1, (), "V1")),
        ]

    W0 = PipeWorld(ctx)
    todo = [("single", k, c[0]) for k, c in enumerate(cases(W0))] + [("multi", k, c[0]) for k, c in enumerate(multi(W0))]
    for fam, k, desc in todo:
        W = PipeWorld(ctx)
        if fam == "single":
            _, F, var, vshape = cases(W)[k]
            vd = vdiff(F, var, vshape)
            what = f"diff({desc}, v)"
        else:
            _, vd = multi(W)[k]
            what = desc
        want = as_T(vd)
        try:
            got = as_T(W.ip.call_function(fn, [vd], {}))
        except LiftRaise as ex:
            rep.violation("C04-compose", fn, what, f"apply_derivatives({what}) fails: {ex.what[:140]}")
            continue
        n += 1
        left = sorted({t.tags.get("ufl_class") for t in walk(got)} & {"VariableDerivative"})
        ok, how, wit = equal_T(got, want, rng=ctx.rng, real_only=True, points=6)
        if not ok:
            rep.violation("C04-compose", fn, what, f"apply_derivatives({what}) is not the partial derivative w.r.t. the variable ({how}): {wit}", witness=wit)
        elif left:
            rep.violation("C04-compose", fn, what + " (form)", f"apply_derivatives({what}) leaves a VariableDerivative node")
        else:
            rep.ok("C04-compose", fn, f"apply_derivatives({what}) = dF/dV with shape {want.shape} ({how})")
    if n < 11:
        raise AnalysisError(f"only {n} variable-derivative cases interpreted")
    return n
