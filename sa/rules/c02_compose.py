"""C02-compose: apply_derivatives interpreted from source (DerivativeRuleDispatcher with the rulesets it
instantiates, map_integrands, the lifted constructors) on *whole* integrands containing Gateaux derivative nodes,
in the symbolic world of sa/pipeworld.py.  The result must mean the directional derivative of the integrand's
meaning,  d/dtau F(w + tau v) at tau = 0,  computed by the calculus oracle (sa/adlift.py) on the term that the
integrand denotes: every symbol of w - and of its reference derivatives, since the gradient is linear - is varied
in the direction of the corresponding symbol of v.  No CoefficientDerivative node may remain.
"""

from __future__ import annotations

import itertools
import re

from .. import sym, uflmodel, uflsem
from ..adlift import Deriv
from ..lift import LiftRaise, Obj, Unsupported
from ..model import AnalysisError
from ..pipeworld import PipeWorld
from ..uflmodel import MI, new_index, node
from ..uflsem import T, as_T, equal_T
from .c01_compose import walk


def direction_symbols(v):
    """component -> symbol of the reference value a direction carries there.  A direction is an argument, a fixed
    component of one (`t[0]`), or a list tensor of such (`as_vector([t[1], t[2]])`, `as_vector([t[0], 0])`); components
    holding a literal zero are absent"""
    if "_ref" in v.tags:
        return {k[0]: ex.args[0] for k, ex in v.tags["_ref"].data.items()}
    kind, ops = v.tags.get("ufl_class"), v.tags.get("ufl_operands", ())
    if kind == "Indexed":
        fixed = tuple(ops[1])
        if not all(isinstance(i, int) for i in fixed):
            raise Unsupported("a direction with free indices")
        return {c[len(fixed) :]: s for c, s in direction_symbols(ops[0]).items() if c[: len(fixed)] == fixed}
    if kind == "ListTensor":
        return {(k,) + c: s for k, o in enumerate(ops) for c, s in direction_symbols(o).items()}
    if v.is_zero_literal or kind == "Zero":
        return {}
    raise Unsupported(f"direction of class {kind}")


def gateaux_oracle(t: T, pairs):
    """pairs: [(w node, v node)] with identical shapes; the symbols of w (and D..(w symbols)) vary like v's"""
    table = {}
    for w, v in pairs:
        wr, vr = w.tags["_ref"], direction_symbols(v)
        for key, ex in wr.data.items():
            if key[0] in vr:
                table[ex.args[0]] = vr[key[0]]  # a component the direction leaves alone (a literal zero) does not vary

    def rule(name, k):
        name, at, side = name.partition("@")  # a restricted symbol varies like the direction's symbol on that side
        m = re.match(r"^D((?:\d,?)+)\((.*)\)$", name)
        base = m.group(2) if m else name
        if base in table:
            return sym.sym((f"D{m.group(1)}({table[base]})" if m else table[base]) + at + side)
        return sym.ZERO

    d = Deriv((), sym_rule=rule)
    return t.map(d)


def compose(ctx, rep):
    prog = ctx.prog
    fn = prog.get_function("ufl.algorithms.apply_derivatives", "apply_derivatives")
    um = uflmodel
    n = 0

    def world():
        W = PipeWorld(ctx)
        EL, EM = prog.get_class("ufl.exprcontainers.ExprList"), prog.get_class("ufl.exprcontainers.ExprMapping")
        W.ip.class_models["ExprList"] = lambda *ops: Obj("ExprList", __class__=EL, ufl_class="ExprList", ufl_operands=tuple(ops), _ufl_is_terminal_=False)
        W.ip.class_models["ExprMapping"] = lambda *ops: Obj("ExprMapping", __class__=EM, ufl_class="ExprMapping", ufl_operands=tuple(ops), _ufl_is_terminal_=False)
        return W

    def cases(W):
        cm = W.H.ref
        w = W.function("w", (), "Coefficient", number=1)
        f = W.function("f", (), "Coefficient", number=2)
        q = W.function("q", (2,), "Coefficient", number=3)
        v = W.function("v", (), "Argument", number=0)
        v2 = W.function("v2", (), "Argument", number=1)
        vq = W.function("vq", (2,), "Argument", number=0)
        vt = W.function("vt", (3,), "Argument", number=0)
        # piecewise constant fields (constant over a cell, not across a facet) and a piecewise constant direction
        u0 = W.function("u0", (), "Coefficient", number=5, degree=0)
        c0 = W.function("c0", (), "Coefficient", number=6, degree=0)
        c1 = W.function("c1", (), "Coefficient", number=7)
        plus, minus = cm["PositiveRestricted"], cm["NegativeRestricted"]
        i = new_index()
        P, S, D = um.m_product, um.m_sum, um.m_division
        idx = lambda A, *k: um.m_indexed(A, MI(k))  # noqa: E731
        gw = W.grad(w)
        gg = um.m_index_sum(P(idx(gw, i), idx(gw, i)), MI((i,)))
        one, three = um.m_scalar(1), um.m_scalar(3)
        F = [
            ("w*w*f", P(P(w, w), f), [(w, v)]),
            ("sin(w)*f + w**3", S(P(cm["Sin"](w), f), um.m_power(w, three)), [(w, v)]),
            ("grad(w)[i]*grad(w)[i]", gg, [(w, v)]),
            ("w/(1 + w*w)", D(w, S(one, P(w, w))), [(w, v)]),
            ("q[i]*q[i]*w   w.r.t. q", P(um.m_index_sum(P(idx(q, i), idx(q, i)), MI((i,))), w), [(q, vq)]),
            ("q[i]*q[i]*w   w.r.t. (w, q)", P(um.m_index_sum(P(idx(q, i), idx(q, i)), MI((i,))), w), [(w, v), (q, vq)]),
            ("exp(w*f)*grad(w)[0]", P(cm["Exp"](P(w, f)), idx(gw, 0)), [(w, v)]),
            ("sqrt(1 + grad(w)[i]*grad(w)[i])", cm["Sqrt"](S(one, gg)), [(w, v)]),
            ("f*f   (independent of w)", P(f, f), [(w, v)]),
            ("div-like: grad(q)[i,i]*w  w.r.t. q", P(um.m_index_sum(idx(W.grad(q), i, i), MI((i,))), w), [(q, vq)]),
            ("w('+')*w('-')*f('+')  (restricted)", P(P(plus(w), minus(w)), plus(f)), [(w, v)]),
            ("(w('+') - w('-'))**2  direction a Coefficient", um.m_power(S(plus(w), P(um.m_scalar(-1), minus(w))), um.m_scalar(2)), [(w, c1)]),
            ("(u0('+') - u0('-'))**2  piecewise constant field and direction", um.m_power(S(plus(u0), P(um.m_scalar(-1), minus(u0))), um.m_scalar(2)), [(u0, c0)]),
            ("u0('+')**3 * f('-')  piecewise constant field and direction", P(um.m_power(plus(u0), three), minus(f)), [(u0, c0)]),
            ("u0*u0*w  piecewise constant field, Argument direction", P(P(u0, u0), w), [(u0, v)]),
            # directions that are components of a vector-valued argument (derivative(F, s, t[0]); split(t) of a mixed argument)
            ("grad(w)[i]*grad(w)[i] + w*w   direction vt[0]", S(gg, P(w, w)), [(w, idx(vt, 0))]),
            ("exp(w*f)*grad(w)[1]   direction vt[2]", P(cm["Exp"](P(w, f)), idx(gw, 1)), [(w, idx(vt, 2))]),
            ("grad(w)[i]*q[i] + q[i]*q[i]*w   w.r.t. (w, q), directions split(vt)", S(um.m_index_sum(P(idx(gw, i), idx(q, i)), MI((i,))), P(um.m_index_sum(P(idx(q, i), idx(q, i)), MI((i,))), w)), [(w, idx(vt, 0)), (q, um.m_list_tensor(idx(vt, 1), idx(vt, 2)))]),
            ("grad(q)[i,i]*w + grad(w)[i]*q[i]   w.r.t. q, direction (vt[2], 0)", S(P(um.m_index_sum(idx(W.grad(q), i, i), MI((i,))), w), um.m_index_sum(P(idx(gw, i), idx(q, i)), MI((i,)))), [(q, um.m_list_tensor(idx(vt, 2), um.m_zero()))]),
        ]
        return F, (w, v, v2)

    W0 = world()
    descs = [d for d, _, _ in cases(W0)[0]]
    for k, desc in enumerate(descs):
        for second in (False, True):
            W = world()
            F, (w, v, v2) = cases(W)
            _, e, pairs = F[k]
            if second and not (len(pairs) == 1 and pairs[0][0] is w):
                continue
            ip = W.ip
            EL, EM = ip.class_models["ExprList"], ip.class_models["ExprMapping"]
            want = gateaux_oracle(as_T(e), pairs)
            cd = node(want, "CoefficientDerivative", (e, EL(*[p[0] for p in pairs]), EL(*[p[1] for p in pairs]), EM()))
            what = f"derivative({desc}, {', '.join(p[0].tags['desc'] for p in pairs)})"
            if second:
                want = gateaux_oracle(want, [(w, v2)])
                cd = node(want, "CoefficientDerivative", (cd, EL(w), EL(v2), EM()))
                what = f"derivative({what}, w, v2)"
            try:
                got = as_T(ip.call_function(fn, [cd], {}))
            except LiftRaise as ex:
                rep.violation("C02-compose", fn, what, f"apply_derivatives({what}) fails: {ex.what[:140]}")
                continue
            n += 1
            left = sorted({t.tags.get("ufl_class") for t in walk(got)} & {"CoefficientDerivative", "VariableDerivative"})
            ok, how, wit = equal_T(got, want, rng=ctx.rng, real_only=True, points=6)
            if not ok:
                rep.violation("C02-compose", fn, what, f"apply_derivatives({what}) is not the directional derivative of the integrand ({how}): {wit}", witness=wit)
            elif left:
                rep.violation("C02-compose", fn, what + " (form)", f"apply_derivatives({what}) leaves {left} nodes")
            else:
                rep.ok("C02-compose", fn, f"apply_derivatives({what}) = d/dtau F(w + tau v) at 0 ({how}); no derivative nodes left")
    if n < 12:
        raise AnalysisError(f"only {n} whole-integrand derivative cases interpreted")
    return n
