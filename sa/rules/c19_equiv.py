"""C19-equiv: the traversal generators of corealg/traversal.py and map_expr_dags of corealg/map_dag.py are
interpreted from source on abstract expression DAGs and compared with their recursive definitions.

Abstract nodes carry a type code, operands and identity (hash / == by object, as for structurally distinct UFL
nodes).  The DAG family is generated: every DAG with up to 5 nodes over operand counts 0..2 in which each
non-terminal picks its operands among the later nodes (so that sharing of sub-expressions, repeated operands
and diamonds all occur), with every subset of node kinds marked as cut-off type.

  pre_traversal / post_traversal          visit every *tree* occurrence (multiplicity = number of root paths),
                                          parent before child / all children before the parent
  unique_pre / unique_post                visit every *distinct* node reachable from the root exactly once, in an
                                          order consistent with parent-before-child (some parent earlier) /
                                          children-before-parent (all operands earlier)
  cutoff_post / cutoff_unique_post        the same on the DAG truncated at nodes of cut-off types (which are
                                          yielded, their operands are not visited through them)
  traverse_(unique_)terminals             exactly the (distinct) terminals
  shared `visited` sets                   a second traversal with the same set yields nothing already yielded
  map_expr_dags                           result for each root = recursive application of the handlers (cut-off
                                          handlers get the node only, the others the node and the results of its
                                          operands); each distinct node is handled once per call, also across several
                                          roots and with caller-supplied caches; compress only interns equal results
"""

from __future__ import annotations

import ast
import itertools

from ..lift import Closure, Interp, LiftRaise, Obj, Unsupported, _Return
from ..model import AnalysisError

TRAV = "ufl.corealg.traversal"
MAPD = "ufl.corealg.map_dag"


class GenInterp(Interp):
    """the interpreter with host-object attribute access; generator functions are the interpreter's lazy generators
    (producer and consumer interleave as in Python, which matters for the shared `visited` sets)"""

    def __init__(self, prog):
        super().__init__(prog)
        self.attr_hook = lambda o, a: getattr(o, a) if isinstance(o, Node) and hasattr(o, a) else NotImplemented


class Node:
    """abstract expression node (host object: attributes are read directly)"""

    __lift_host__ = True

    def __init__(self, name, typecode, operands=()):
        self.name = name
        self._ufl_typecode_ = typecode
        self.ufl_operands = tuple(operands)
        self._ufl_is_terminal_ = not operands

    def __repr__(self):
        return self.name


def dags(max_nodes=5):
    """every rooted DAG shape: node k (k = 0 is the root) has 0, 1 or 2 operands chosen among nodes k+1.. (with
    repetition); all nodes reachable from the root"""
    out = []
    for n in range(1, max_nodes + 1):
        choices = []
        for k in range(n):
            later = list(range(k + 1, n))
            opts = [()]
            if later:
                opts += [(a,) for a in later]
                opts += [(a, b) for a in later for b in later]
            choices.append(opts)
        for combo in itertools.product(*choices):
            # reachable?
            seen, todo = {0}, [0]
            while todo:
                x = todo.pop()
                for y in combo[x]:
                    if y not in seen:
                        seen.add(y)
                        todo.append(y)
            if len(seen) != n:
                continue
            out.append(combo)
    return out


def build(combo):
    n = len(combo)
    nodes = [None] * n
    for k in reversed(range(n)):
        ops = [nodes[j] for j in combo[k]]
        nodes[k] = Node(f"n{k}", f"T{len(ops)}_{k % 2}", ops)
    return nodes


def tree_paths(root):
    """multiset of nodes by tree occurrence"""
    out = []

    def rec(x):
        out.append(x)
        for o in x.ufl_operands:
            rec(o)

    rec(root)
    return out


def reachable(root, cut=lambda x: False):
    seen, order = set(), []

    def rec(x):
        if id(x) in seen:
            return
        seen.add(id(x))
        order.append(x)
        if not cut(x):
            for o in x.ufl_operands:
                rec(o)

    rec(root)
    return order


def check_traversals(ctx, rep, max_nodes):
    prog = ctx.prog
    ip = GenInterp(prog)
    fns = {n: prog.get_function(TRAV, n) for n in ("pre_traversal", "post_traversal", "cutoff_post_traversal", "unique_pre_traversal", "unique_post_traversal", "cutoff_unique_post_traversal", "traverse_terminals", "traverse_unique_terminals")}
    shapes = dags(max_nodes)
    problems = {}
    n_runs = 0

    def bad(fn, msg, combo, extra=""):
        problems.setdefault((fn, msg), (combo, extra))

    for combo in shapes:
        nodes = build(combo)
        root = nodes[0]
        typecodes = sorted({x._ufl_typecode_ for x in nodes})
        tree = tree_paths(root)
        cnt_tree = {}
        for x in tree:
            cnt_tree[id(x)] = cnt_tree.get(id(x), 0) + 1
        distinct = reachable(root)

        def call(name, *a, **k):
            nonlocal n_runs
            n_runs += 1
            return list(ip.call_function(fns[name], list(a), dict(k)))

        # ---- tree traversals
        for name, child_first in (("pre_traversal", False), ("post_traversal", True)):
            got = call(name, root)
            c = {}
            for x in got:
                c[id(x)] = c.get(id(x), 0) + 1
            if c != cnt_tree:
                bad(name, "does not visit every tree occurrence exactly once", combo, f"visited {[x.name for x in got]}")
                continue
            # the sequence must be the pre- / post-order of the tree for a consistent operand order
            def ref_seq(x, post, rl):
                ops = list(reversed(x.ufl_operands)) if rl else list(x.ufl_operands)
                mid = [y for o in ops for y in ref_seq(o, post, rl)]
                return mid + [x] if post else [x] + mid

            if [id(x) for x in got] not in ([id(x) for x in ref_seq(root, child_first, False)], [id(x) for x in ref_seq(root, child_first, True)]):
                bad(name, f"is not the {'post' if child_first else 'pre'}-order of the expression tree (operands left-to-right or right-to-left)", combo, f"visited {[x.name for x in got]}")
        # ---- unique traversals
        got = call("unique_pre_traversal", root)
        if sorted(id(x) for x in got) != sorted(id(x) for x in distinct):
            bad("unique_pre_traversal", "does not visit every distinct node exactly once", combo, f"visited {[x.name for x in got]}")
        else:
            pos = {id(x): i for i, x in enumerate(got)}
            parents = {}
            for x in distinct:
                for o in x.ufl_operands:
                    parents.setdefault(id(o), []).append(x)
            for x in distinct[1:]:
                if not any(pos[id(p)] < pos[id(x)] for p in parents[id(x)]):
                    bad("unique_pre_traversal", "yields a node before all of its parents", combo)
        got = call("unique_post_traversal", root)
        if sorted(id(x) for x in got) != sorted(id(x) for x in distinct):
            bad("unique_post_traversal", "does not visit every distinct node exactly once", combo, f"visited {[x.name for x in got]}")
        else:
            pos = {id(x): i for i, x in enumerate(got)}
            for x in distinct:
                if any(pos[id(o)] > pos[id(x)] for o in x.ufl_operands):
                    bad("unique_post_traversal", "yields a node before one of its operands", combo)
        # shared visited set: nothing is yielded twice, nothing reachable is lost
        vis = set()
        sub = nodes[-1] if len(nodes) > 1 else root
        first = call("unique_post_traversal", sub, vis)
        second = call("unique_post_traversal", root, vis)
        both = first + [x for x in second if x is not root or x not in first]  # the root of a call is always yielded
        if len({id(x) for x in both}) != len(both) or {id(x) for x in both} != {id(x) for x in distinct}:
            bad("unique_post_traversal", "with a shared `visited` set a node is yielded twice or lost", combo)
        vis = set()
        first = call("unique_pre_traversal", sub, vis)
        second = call("unique_pre_traversal", root, vis)
        if sub is not root and ({id(x) for x in first} & {id(x) for x in second} - {id(root)} or not {id(x) for x in first + second} >= {id(x) for x in distinct} - {id(root)}):
            # (the root of the second call is always yielded: it is put on the stack unconditionally)
            bad("unique_pre_traversal", "with a shared `visited` set a node is yielded twice or lost", combo)
        # ---- terminals
        got = call("traverse_terminals", root)
        if sorted(id(x) for x in got) != sorted(id(x) for x in tree if not x.ufl_operands):
            bad("traverse_terminals", "does not yield exactly the terminal occurrences", combo)
        got = call("traverse_unique_terminals", root)
        if sorted(id(x) for x in got) != sorted(id(x) for x in distinct if not x.ufl_operands):
            bad("traverse_unique_terminals", "does not yield exactly the distinct terminals", combo)
        # ---- cut-off variants: every subset of type codes as cut-off types
        for r in range(len(typecodes) + 1):
            for cut in itertools.combinations(typecodes, r):
                table = Obj("cutoff table", __getitem__=lambda k, cut=cut: k in cut)
                table.attrs["__class__"] = None
                is_cut = lambda x, cut=cut: x._ufl_typecode_ in cut  # noqa: E731
                want = reachable(root, is_cut)
                got = call("cutoff_unique_post_traversal", root, table)
                if sorted(id(x) for x in got) != sorted(id(x) for x in want):
                    bad("cutoff_unique_post_traversal", "does not visit exactly the distinct nodes of the DAG truncated at the cut-off types", combo, f"cut-off {cut}: visited {[x.name for x in got]}, expected {[x.name for x in want]}")
                else:
                    pos = {id(x): i for i, x in enumerate(got)}
                    for x in want:
                        if not is_cut(x) and any(pos[id(o)] > pos[id(x)] for o in x.ufl_operands):
                            bad("cutoff_unique_post_traversal", "yields a node before one of its operands", combo, f"cut-off {cut}")
                got = call("cutoff_post_traversal", root, table)
                want_tree = []

                def rec(x):
                    want_tree.append(x)
                    if not is_cut(x):
                        for o in x.ufl_operands:
                            rec(o)

                rec(root)
                if sorted(id(x) for x in got) != sorted(id(x) for x in want_tree):
                    bad("cutoff_post_traversal", "does not visit exactly the tree occurrences of the truncated tree", combo, f"cut-off {cut}")
    for (fn, msg), (combo, extra) in problems.items():
        rep.violation("C19-equiv/" + fn, fns[fn], f"{fn}: {msg}", f"{fn} {msg} on the DAG with operand lists {list(combo)} {extra}")
    for fn in fns:
        if not any(k[0] == fn for k in problems):
            rep.ok("C19-equiv/" + fn, fns[fn], f"{fn} agrees with its recursive definition on all {len(shapes)} DAG shapes with <= {max_nodes} nodes")
    return len(shapes), n_runs


def check_map_dags(ctx, rep, max_nodes):
    prog = ctx.prog
    fn = prog.get_function(MAPD, "map_expr_dags")
    shapes = dags(max_nodes)
    problems = {}
    n = 0
    MF = prog.get_class("ufl.corealg.multifunction.MultiFunction")
    for combo in shapes:
        nodes = build(combo)
        typecodes = sorted({x._ufl_typecode_ for x in nodes})
        for r in range(min(len(typecodes), 2) + 1):
            for cut in itertools.combinations(typecodes, r):
                for compress, two_roots, own_caches in ((True, False, False), (False, True, False), (True, True, True)):
                    ip = GenInterp(prog)
                    calls = []

                    def handler(v, *ops):
                        calls.append(v)
                        return ("h", v.name, tuple(ops))

                    function = Obj("function", __class__=MF)
                    function.attrs["_is_cutoff_type"] = Obj("cutoff table", __getitem__=lambda k, cut=cut: k in cut)
                    function.attrs["_is_cutoff_type"].attrs["__class__"] = None
                    function.attrs["_is_cutoff_type"].attrs["__iter__"] = lambda cut=cut, typecodes=typecodes: iter([t in cut for t in typecodes])
                    function.attrs["_handlers"] = Obj("handler table", __getitem__=lambda k: handler)
                    function.attrs["_handlers"].attrs["__class__"] = None
                    ip.overrides["any"] = lambda it: any(list(it) if not isinstance(it, Obj) else it.attrs["__iter__"]())
                    roots = [nodes[0]] + ([nodes[-1]] if two_roots and len(nodes) > 1 else [])
                    kw = {"compress": compress}
                    vc, rc = {}, {}
                    if own_caches:
                        kw.update(vcache=vc, rcache=rc)
                    try:
                        got = ip.call_function(fn, [function, roots], dict(kw))
                    except LiftRaise as e:
                        problems.setdefault(f"raises {e.what[:80]}", (combo, cut))
                        continue
                    n += 1

                    def ref(x):
                        if x._ufl_typecode_ in cut:
                            return ("h", x.name, ())
                        return ("h", x.name, tuple(ref(o) for o in x.ufl_operands))

                    want = [ref(x) for x in roots]
                    if list(got) != want:
                        problems.setdefault("the results differ from the recursive application of the handlers", (combo, cut))
                    if len({id(v) for v in calls}) != len(calls):
                        problems.setdefault("a distinct node is handled more than once in one call", (combo, cut))
                    want_nodes = set()
                    for x in roots:
                        want_nodes |= {id(y) for y in reachable(x, lambda z: z._ufl_typecode_ in cut)}
                    if {id(v) for v in calls} != want_nodes:
                        problems.setdefault("the set of handled nodes is not the set of distinct nodes of the truncated DAG", (combo, cut))
                    if own_caches:
                        # a second call with the same caches handles nothing again and returns the same results
                        calls.clear()
                        got2 = ip.call_function(fn, [function, roots], dict(kw))
                        if list(got2) != want or calls:
                            problems.setdefault("a second call with the caller's caches recomputes nodes or returns other results", (combo, cut))
    for msg, (combo, cut) in problems.items():
        rep.violation("C19-equiv/map_expr_dags", fn, f"map_expr_dags: {msg}", f"map_expr_dags {msg} on the DAG with operand lists {list(combo)}, cut-off types {list(cut)}")
    if not problems:
        rep.ok("C19-equiv/map_expr_dags", fn, f"map_expr_dags equals the recursive definition, handles each distinct node once and honours caller caches on {n} (DAG, cut-off set, option) cases")
    return n


def check_dag_traverser(ctx, rep, max_nodes):
    """DAGTraverser.__call__ with the postorder / postorder_only_children decorators, all interpreted from source,
    around a recording rule: results = recursive definition, one `process` call per distinct (node, kwargs)."""
    prog = ctx.prog
    DT = prog.get_class("ufl.corealg.dag_traverser.DAGTraverser")
    call_fi = prog.lookup(DT, "__call__")
    init_fi = prog.lookup(DT, "__init__")
    post_fi = prog.lookup(DT, "postorder")
    only_fi = prog.lookup(DT, "postorder_only_children")
    problems = {}
    n = 0
    for combo in dags(max_nodes):
        nodes = build(combo)
        root = nodes[0]
        for mode in ("postorder", "only first child", "preorder"):
            for compress in (True, False):
                ip = GenInterp(prog)
                ip.overrides["wraps"] = lambda f: (lambda g: g)
                so = Obj("traverser", __class__=DT)
                ip.call_function(init_fi, [], {"compress": compress}, self_obj=so)
                calls = []

                def rule(self_, o, *ops, **kw):
                    calls.append((o, tuple(sorted(kw.items()))))
                    return ("r", o.name, tuple(ops), tuple(sorted(kw.items())))

                if mode == "postorder":
                    wrapped = ip.call_function(post_fi, [rule], {})
                elif mode == "only first child":
                    deco = ip.call_function(only_fi, [[0]], {})
                    first_only = lambda self_, o, *ops, **kw: rule(self_, o, *ops, **kw)  # noqa: E731
                    wrapped = ip.call(deco, [first_only], {}, None, None)
                else:
                    wrapped = None
                self_call = lambda node, **kw: ip.call_function(call_fi, [node], dict(kw), self_obj=so)  # noqa: E731
                so.attrs["__call__"] = self_call

                def process(o, **kw):
                    if mode == "only first child" and not o.ufl_operands:
                        return rule(so, o, **kw)
                    if wrapped is None:
                        return rule(so, o, **kw)
                    return ip.call(wrapped, [so, o], dict(kw), None, None)

                so.attrs["process"] = process
                for kw in ({}, {"side": "+"}):
                    try:
                        got = self_call(root, **kw)
                        again = self_call(root, **kw)
                    except LiftRaise as e:
                        problems.setdefault(f"raises {e.what[:80]}", (combo, mode))
                        continue
                    n += 1
                    kws = tuple(sorted(kw.items()))

                    def ref(x):
                        if mode == "postorder":
                            return ("r", x.name, tuple(ref(o) for o in x.ufl_operands), kws)
                        if mode == "only first child":
                            return ("r", x.name, tuple(ref(o) for o in x.ufl_operands[:1]), kws)
                        return ("r", x.name, (), kws)

                    if got != ref(root) or again != got:
                        problems.setdefault("the result differs from the recursive definition (or changes on a repeated call)", (combo, mode))
                    mine = [c for c in calls if c[1] == kws]
                    if len({id(c[0]) for c in mine}) != len(mine):
                        problems.setdefault("a distinct node is processed more than once for the same keyword arguments", (combo, mode))
                # different keyword arguments must not share cache entries
                if len({c[1] for c in calls}) != 2:
                    problems.setdefault("calls with different keyword arguments share one cache entry", (combo, mode))
    for msg, (combo, mode) in problems.items():
        rep.violation("C19-equiv/DAGTraverser", call_fi, f"DAGTraverser.__call__: {msg}", f"DAGTraverser.__call__ ({mode}) {msg} on the DAG with operand lists {list(combo)}")
    if not problems:
        rep.ok("C19-equiv/DAGTraverser", call_fi, f"DAGTraverser.__call__ with postorder / postorder_only_children / pre-order rules equals the recursive definition on {n} cases; one process call per distinct (node, kwargs)")
    return n


def run_equiv(ctx, rep):
    max_nodes = 5 if ctx.thorough() else 4
    n_shapes, n_runs = check_traversals(ctx, rep, max_nodes)
    n_map = check_map_dags(ctx, rep, max_nodes)
    n_dt = check_dag_traverser(ctx, rep, 4 if ctx.thorough() else 3)
    rep.counts["dag_traverser_cases"] = n_dt
    if n_shapes < 40 or n_map < 200 or n_dt < 100:
        raise AnalysisError(f"C19-equiv went vacuous: {n_shapes} DAG shapes, {n_map} map cases")
    rep.counts.update(dag_shapes=n_shapes, traversal_runs=n_runs, map_dag_cases=n_map)
