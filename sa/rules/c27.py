"""C27 -- algorithms never mutate their inputs.

A who-may-write analysis over every function and method of the package (flow-sensitive over the
structured statements, may-taint join at merges, loops iterated to a fixpoint).

Origins of a local value:
  FRESH     created in this function: displays, comprehensions, constructor calls, copy idioms
            (dict(x), list(x), x.copy(), sorted(x), {**x}), arithmetic, results of functions whose every
            return value is FRESH (interprocedural summary, fixpoint over the call graph)
  INPUT(p)  a parameter p or anything reachable from it: attributes, items, elements when iterating,
            results of accessor calls on it, results of calls it is passed to (unless the callee returns FRESH)
  OTHER     module-level state, literals

  C27-write   no attribute store, item store, `del`, in-place `+=` of a list, or mutating method call
              (append, extend, insert, update, setdefault, pop, popitem, remove, clear, sort, reverse, add,
              discard, __setitem__, __delitem__, appendleft) has an INPUT(p) receiver - except
              (a) `self` of an algorithm object (MultiFunction / Transformer / DAGTraverser subclasses and
                  helper classes that are not value classes): its own working state;
              (b) `self` of a value class: constructors (__init__, __new__, _init, __setstate__), and any
                  method writing a slot that is not an *identity slot* (one read by the class's __repr__,
                  __str__, __eq__, equals, __hash__, _ufl_hash_data_, _ufl_signature_data_) or writing it
                  under an `is None` guard on the same slot (lazy cache);
              (c) accumulator parameters: every call site in the package passes a FRESH value for it
                  (one level; at least one call site must exist);
              (d) the reviewed exemptions in EXEMPT (one line of reason each).
  C27-ctor     every expression class with its own `__new__` is applied, from source, to results of itself and of its sibling
               classes in the form-level object world (Python's rule included: `__init__` runs again on whatever `__new__`
               returns if it is an instance of the class); every object that existed before the call keeps its structure
               and no operand ends up containing itself (sa/rules/c27_ctor.py).
  C27-positive the analysis must still flag a tiny in-memory example (guards against a vacuous pass).
"""

from __future__ import annotations

import ast

from ..model import AnalysisError, ClassInfo, FuncInfo, norm
from ..report import Report

MUTATORS = {"append", "extend", "insert", "update", "setdefault", "pop", "popitem", "remove", "clear", "sort", "reverse", "add", "discard", "__setitem__", "__delitem__", "appendleft", "difference_update", "intersection_update", "symmetric_difference_update"}
FRESH_BUILTINS = {"list", "dict", "set", "frozenset", "tuple", "sorted", "defaultdict", "OrderedDict", "str", "int", "float", "bool", "complex", "len", "range", "enumerate", "zip", "map", "filter", "reversed", "sum", "min", "max", "abs", "repr", "hash", "id", "isinstance", "issubclass", "type", "any", "all", "deepcopy", "copy", "chain", "product", "iter", "next", "getattr", "hasattr", "format", "round", "divmod", "bytes", "print", "super", "callable", "count", "cmp_to_key", "partial", "reduce"}
# `next`, `getattr`, `min`, `max`, `reduce` can return elements of their arguments: handled as element access below
ELEMENT_RETURNING = {"next", "getattr", "min", "max", "reduce", "iter", "reversed", "chain", "zip", "enumerate", "map", "filter", "sorted", "list", "tuple", "set", "frozenset"}
CTOR_NAMES = {"__init__", "__new__", "_init", "__setstate__", "__post_init__", "__init_subclass__"}
IDENTITY_METHODS = {"__repr__", "__str__", "__eq__", "equals", "__hash__", "_ufl_hash_data_", "_ufl_signature_data_", "_ufl_compute_hash_", "__getnewargs__"}
ALGO_BASES = {"MultiFunction", "Transformer", "DAGTraverser"}

# reviewed exemptions: (module, qualname, normalised construct prefix) -> reason
EXEMPT = {
    ("ufl.exprequals", "expr_equals", "self.ufl_operands"): "eager DAG sharing after a successful structural comparison: replaces the operand tuple by an equal one (decided separately by C13-pure)",
    ("ufl.core.compute_expr_hash", "compute_expr_hash", "*._hash"): "memoised hash of the node: _hash is a cache slot (None until computed), not read by repr / == / signature",
    ("ufl.indexsum", "IndexSum.evaluate", "index_values."): "balanced push/pop on the evaluation context (a StackDict), restored before returning (C24)",
    ("ufl.tensors", "ComponentTensor.evaluate", "index_values."): "balanced push/pop on the evaluation context (a StackDict), restored before returning (C24)",
    ("ufl.algorithms.formdata", "FormData.__init__", "itg_data."): "FormData completes the IntegralData records that compute_form_data built for it in the same call (pipeline-internal objects, never user inputs)",
    ("ufl.utils.counted", "Counted.__init__", "counted_class._counter"): "lazy creation of the per-class counter on the class object",
    ("ufl.corealg.multifunction", "memoized_handler", "*[]"): "per-instance memo table of a MultiFunction (its own working state, reached through getattr)",
}

FRESH, OTHER = "fresh", "other"


class Origin:
    __slots__ = ("kind", "param", "elems", "items", "whole")

    def __init__(self, kind, param=None, elems=None, items=None, whole=False):
        self.kind = kind  # 'fresh' | 'other' | 'input'
        self.param = param
        self.elems = elems  # Origin of the elements of a fresh container (None: same as kind)
        self.items = items  # positional element origins of a tuple / list display
        self.whole = whole  # the parameter object itself (not something reached through it)

    def part(self):
        """something reached through this value (attribute, item, accessor result)"""
        if self.kind == "input" and self.whole:
            return Origin("input", self.param)
        return self

    @property
    def is_input(self):
        return self.kind == "input"

    def element(self):
        if self.kind == "input":
            return self.part()
        return self.elems if self.elems is not None else Origin(self.kind)

    def __repr__(self):
        return f"{self.kind}{'(' + self.param + ')' if self.param else ''}{'[' + repr(self.elems) + ']' if self.elems else ''}"


def join(a: Origin, b: Origin) -> Origin:
    if a is None:
        return b
    if b is None:
        return a
    if a.is_input and b.is_input:
        return a if (a.param == b.param and a.whole == b.whole) else a.part()
    if a.is_input:
        return a.part() if b.kind == OTHER else a
    if b.is_input:
        return b.part() if a.kind == OTHER else b
    ea, eb = a.elems, b.elems
    el = None
    if ea is not None or eb is not None:
        el = join(ea or Origin(a.kind), eb or Origin(b.kind))
    kind = OTHER if OTHER in (a.kind, b.kind) else FRESH
    items = None
    if a.items is not None and b.items is not None and len(a.items) == len(b.items):
        items = [join(x, y) for x, y in zip(a.items, b.items)]
    return Origin(kind, None, el, items)


def join_env(e1, e2):
    out = {}
    for k in set(e1) | set(e2):
        out[k] = join(e1.get(k), e2.get(k))
    return out


class Analysis:
    def __init__(self, prog):
        self.prog = prog
        self.fresh_return = {}  # FuncInfo key -> bool
        self.deep_fresh = {}  # FuncInfo key -> bool: fresh, and nothing reachable from the result was passed in
        self.ret_items = {}  # FuncInfo key -> [bool] | None: the function returns a tuple display; which positions are created by it
        self.ret_params = {}  # FuncInfo key -> set of parameter names that may be returned (None: anything)
        self.findings = []  # (fi, node, construct, param, why)
        self.call_args = {}  # callee key -> list of (caller fi, call node, [origins])
        self.n_functions = 0
        self.n_sinks = 0
        self.identity_slots = {}

    @staticmethod
    def key(fi: FuncInfo):
        return (fi.module.name, fi.qualname, fi.node.lineno)

    # ---------------------------------------------------------------- class facts
    def slots_read_by_identity(self, cls: ClassInfo):
        k = cls.qualname
        if k not in self.identity_slots:
            s = set()
            for c in cls.mro():
                for nm in IDENTITY_METHODS:
                    m = c.methods.get(nm)
                    if m is None:
                        continue
                    for n in ast.walk(m.node):
                        if isinstance(n, ast.Attribute) and isinstance(n.value, ast.Name) and n.value.id == "self" and isinstance(n.ctx, ast.Load):
                            s.add(n.attr)
                        if isinstance(n, ast.Call) and isinstance(n.func, ast.Attribute) and isinstance(n.func.value, ast.Name) and n.func.value.id == "self":
                            # accessor methods: self.integrals() -> slots they return
                            acc = self.prog.lookup(cls, n.func.attr)
                            if isinstance(acc, FuncInfo):
                                for r in ast.walk(acc.node):
                                    if isinstance(r, ast.Return) and isinstance(r.value, ast.Attribute) and isinstance(r.value.value, ast.Name) and r.value.value.id == "self":
                                        s.add(r.value.attr)
            self.identity_slots[k] = s
        return self.identity_slots[k]

    def is_algorithm_class(self, cls: ClassInfo):
        if any(c.name in ALGO_BASES for c in cls.mro()):
            return True
        # helper classes without an identity (no __eq__/__repr__/__hash__ of their own) are working objects
        return not any(nm in c.methods for c in cls.mro() for nm in ("__eq__", "equals", "__hash__", "_ufl_hash_data_", "_ufl_signature_data_"))

    # ---------------------------------------------------------------- summaries
    def compute_fresh_returns(self, funcs):
        for fi in funcs:
            self.fresh_return[self.key(fi)] = True  # optimistic start, then iterate down
            self.deep_fresh[self.key(fi)] = True
        changed = True
        rounds = 0
        while changed and rounds < 12:
            changed = False
            rounds += 1
            for fi in funcs:
                w = FuncWalker(self, fi, collect=False)
                w.run()
                val = bool(w.returns) and all(r.kind == FRESH for r in w.returns)
                if not w.returns:
                    val = True  # returns None
                if any(isinstance(n, (ast.Yield, ast.YieldFrom)) for n in ast.walk(fi.node)):
                    val = all(r.kind == FRESH for r in w.yields) if w.yields else True
                if self.fresh_return[self.key(fi)] and not val:
                    self.fresh_return[self.key(fi)] = False
                    changed = True
                outs_ = w.yields if any(isinstance(n, (ast.Yield, ast.YieldFrom)) for n in ast.walk(fi.node)) else w.returns
                deep = val and all(r.elems is None or (r.elems.kind == FRESH and not r.elems.is_input) for r in outs_)
                if self.deep_fresh[self.key(fi)] and not deep:
                    self.deep_fresh[self.key(fi)] = False
                    changed = True
                pos = None
                if val and outs_ and all(r.items is not None and len(r.items) == len(outs_[0].items) for r in outs_):
                    pos = []
                    for k in range(len(outs_[0].items)):
                        its_k = [r.items[k] for r in outs_]
                        if all(o_.kind == FRESH and not o_.is_input for o_ in its_k):
                            pos.append("deep" if all(o_.elems is None or not o_.elems.is_input for o_ in its_k) else "shallow")
                        else:
                            pos.append(None)
                if self.ret_items.get(self.key(fi)) != pos:
                    self.ret_items[self.key(fi)] = pos
                    changed = True
                # which parameters may be returned (fresh values and whole parameters only)
                outs = w.yields if any(isinstance(n, (ast.Yield, ast.YieldFrom)) for n in ast.walk(fi.node)) else w.returns
                rp = set()
                for r in outs:
                    if r.kind == FRESH and (r.elems is None or r.elems.kind == FRESH):
                        continue
                    if r.is_input and r.param in w.params and getattr(r, "whole", False):
                        rp.add(r.param)
                        continue
                    rp = None
                    break
                if self.ret_params.get(self.key(fi), set()) != rp:
                    self.ret_params[self.key(fi)] = rp
                    changed = True

    def callee_fresh(self, fi_or_list):
        if isinstance(fi_or_list, FuncInfo):
            return self.fresh_return.get(self.key(fi_or_list), False)
        return bool(fi_or_list) and all(self.fresh_return.get(self.key(f), False) for f in fi_or_list)


class FuncWalker:
    def __init__(self, A: Analysis, fi: FuncInfo, collect=True, outer_env=None, node=None):
        self.A = A
        self.fi = fi
        self.node = node or fi.node
        self.collect = collect
        self.returns = []
        self.yields = []
        self.env = dict(outer_env or {})
        a = self.node.args
        for x in a.posonlyargs + a.args + a.kwonlyargs:
            self.env[x.arg] = Origin("input", x.arg, whole=True)
        if a.vararg:
            self.env[a.vararg.arg] = Origin(FRESH, None, Origin("input", a.vararg.arg))
        if a.kwarg:
            self.env[a.kwarg.arg] = Origin(FRESH, None, Origin("input", a.kwarg.arg))
        self.params = [x.arg for x in a.posonlyargs + a.args + a.kwonlyargs] + ([a.vararg.arg] if a.vararg else []) + ([a.kwarg.arg] if a.kwarg else [])

    def run(self):
        self.block(self.node.body)

    # ------------------------------------------------------------ expressions
    def origin(self, e) -> Origin:
        if e is None:
            return Origin(OTHER)
        if isinstance(e, ast.Name):
            return self.env.get(e.id, Origin(OTHER))
        if isinstance(e, ast.Constant):
            return Origin(FRESH)
        if isinstance(e, ast.Attribute):
            o = self.origin(e.value)
            return o.part() if o.is_input else self._attr_of(o)
        if isinstance(e, ast.Subscript):
            o = self.origin(e.value)
            if isinstance(e.slice, ast.Slice) and not o.is_input:
                return Origin(FRESH, None, o.element())
            if isinstance(e.slice, ast.Slice) and e.slice.lower is None and e.slice.upper is None and e.slice.step is None:
                return Origin(FRESH, None, o.element())  # x[:] - the sequence copy idiom
            if o.items is not None and isinstance(e.slice, ast.Constant) and isinstance(e.slice.value, int) and -len(o.items) <= e.slice.value < len(o.items):
                return o.items[e.slice.value]
            return o.element() if not o.is_input else o.part()
        if isinstance(e, (ast.List, ast.Tuple, ast.Set)):
            el = None
            items = []
            for x in e.elts:
                ox = self.origin(x.value if isinstance(x, ast.Starred) else x)
                if isinstance(x, ast.Starred):
                    ox = ox.element()
                    items = None
                elif items is not None:
                    items.append(ox)
                el = join(el, ox)
            return Origin(FRESH, None, el, items if not isinstance(e, ast.Set) else None)
        if isinstance(e, ast.Dict):
            el = None
            for k, v in zip(e.keys, e.values):
                ov = self.origin(v)
                if k is None:
                    ov = ov.element()
                el = join(el, ov)
            return Origin(FRESH, None, el)
        if isinstance(e, (ast.ListComp, ast.SetComp, ast.GeneratorExp, ast.DictComp)):
            saved = dict(self.env)
            for g in e.generators:
                self.bind(g.target, self.origin(g.iter).element())
            el = self.origin(e.value if isinstance(e, ast.DictComp) else e.elt)
            self.env = saved
            return Origin(FRESH, None, el)
        if isinstance(e, ast.IfExp):
            return join(self.origin(e.body), self.origin(e.orelse))
        if isinstance(e, ast.BoolOp):
            o = None
            for v in e.values:
                o = join(o, self.origin(v))
            return o
        if isinstance(e, ast.NamedExpr):
            o = self.origin(e.value)
            self.env[e.target.id] = o
            return o
        if isinstance(e, (ast.BinOp, ast.UnaryOp, ast.Compare, ast.JoinedStr, ast.FormattedValue, ast.Lambda)):
            if isinstance(e, ast.BinOp):
                # a + b of containers: elements of both; `[x] * n` / `n * [x]` repeats the elements of the display only
                disp = (ast.List, ast.Tuple, ast.ListComp)
                if isinstance(e.op, ast.Mult) and isinstance(e.left, disp) != isinstance(e.right, disp):
                    return Origin(FRESH, None, self.origin(e.left if isinstance(e.left, disp) else e.right).element())
                el = join(self.origin(e.left).element(), self.origin(e.right).element())
                return Origin(FRESH, None, el)
            return Origin(FRESH)
        if isinstance(e, ast.Starred):
            return self.origin(e.value)
        if isinstance(e, ast.Await):
            return self.origin(e.value)
        if isinstance(e, (ast.Yield, ast.YieldFrom)):
            return Origin(OTHER)
        if isinstance(e, ast.Call):
            return self.call_origin(e)
        return Origin(OTHER)

    def _attr_of(self, o: Origin) -> Origin:
        # attribute of a fresh object: unknown contents (may alias its constructor arguments = its elements)
        if o.kind == FRESH:
            return o.element() if o.elems is not None else Origin(FRESH)
        return Origin(OTHER)

    def resolve_callee(self, call: ast.Call):
        f = call.func
        prog = self.A.prog
        if isinstance(f, ast.Name):
            r = prog.resolve_name(self.fi.module, f.id)
            if isinstance(r, (FuncInfo, ClassInfo)):
                return r
            return None
        if isinstance(f, ast.Attribute):
            if isinstance(f.value, ast.Name) and f.value.id == "self" and self.fi.cls is not None:
                r = prog.lookup(self.fi.cls, f.attr)
                if isinstance(r, FuncInfo):
                    return r
            r = prog.resolve_expr(self.fi.module, f)
            if isinstance(r, (FuncInfo, ClassInfo)):
                return r
        return None

    def is_external_call(self, f):
        r = f
        while isinstance(r, ast.Attribute):
            r = r.value
        if not isinstance(r, ast.Name) or r.id in self.env:
            return False
        imp = self.fi.module.imports.get(r.id)
        if imp is None:
            return False
        modname = imp[1]
        return not (modname == "ufl" or modname.startswith("ufl."))

    def call_origin(self, call: ast.Call) -> Origin:
        f = call.func
        args = [self.origin(a.value if isinstance(a, ast.Starred) else a) for a in call.args] + [self.origin(k.value) for k in call.keywords]
        recv = self.origin(f.value) if isinstance(f, ast.Attribute) else None
        callee = self.resolve_callee(call)
        if self.collect and isinstance(callee, FuncInfo):
            self.A.call_args.setdefault(self.A.key(callee), []).append((self.fi, call, [self.origin(a) for a in call.args], {k.arg: self.origin(k.value) for k in call.keywords if k.arg}))
        name = f.id if isinstance(f, ast.Name) else (f.attr if isinstance(f, ast.Attribute) else None)
        # elements flowing through
        el = None
        for o in args:
            el = join(el, o.element() if not o.is_input else o)
        if isinstance(callee, ClassInfo):
            return Origin(FRESH, None, el)  # a new object holding (possibly) its arguments
        if callee is None and self.is_external_call(f):
            return Origin(FRESH, None, el)  # numpy / itertools / ... return new objects
        if isinstance(callee, FuncInfo):
            if self.A.callee_fresh(callee):
                if self.A.deep_fresh.get(self.A.key(callee), False):
                    return Origin(FRESH, None, None)  # nothing reachable from the result was passed in
                pos = self.A.ret_items.get(self.A.key(callee))
                if pos:
                    # a tuple built by the callee: the positions it creates itself are fresh, the others hold (parts of) arguments
                    rest = el if recv is None else join(el, recv.element() if not recv.is_input else recv)
                    its = [Origin(FRESH, None, None) if k_ == "deep" else (Origin(FRESH, None, rest) if k_ == "shallow" else (rest or Origin(FRESH))) for k_ in pos]
                    return Origin(FRESH, None, rest, its)
                return Origin(FRESH, None, el if recv is None else join(el, recv.element() if not recv.is_input else recv))
            rp = self.A.ret_params.get(self.A.key(callee))
            if rp and not any(isinstance(a, ast.Starred) for a in call.args):
                # the callee returns fresh values or (whole) parameters only: the result is one of those arguments
                cparams = callee.params() + [x.arg for x in callee.node.args.kwonlyargs]
                bound = {}
                off = 0
                if callee.cls is not None and cparams and cparams[0] in ("self", "cls") and isinstance(f, ast.Attribute):
                    unbound = isinstance(f.value, ast.Name) and isinstance(self.A.prog.resolve_name(self.fi.module, f.value.id), ClassInfo)
                    if not unbound:
                        bound[cparams[0]] = recv
                        off = 1
                for i, a in enumerate(call.args):
                    if i + off < len(cparams):
                        bound[cparams[i + off]] = self.origin(a)
                for k in call.keywords:
                    if k.arg:
                        bound[k.arg] = self.origin(k.value)
                if all(p in bound and bound[p] is not None for p in rp):
                    res = Origin(FRESH)
                    for p in rp:
                        res = join(res, bound[p])
                    return res
        if isinstance(f, ast.Name) and callee is None and name in FRESH_BUILTINS:
            if name in ("next", "getattr", "min", "max", "reduce"):
                return el or Origin(FRESH)
            return Origin(FRESH, None, el)
        if isinstance(f, ast.Attribute):
            if name in ("copy", "deepcopy", "__copy__", "keys", "values", "items", "union", "difference", "intersection", "split", "join", "format", "strip", "lower", "upper", "replace", "encode", "tolist", "hexdigest", "digest", "count", "index", "startswith", "endswith"):
                return Origin(FRESH, None, recv.element() if recv is not None else None)
            if name == "get" or name == "pop" or name == "setdefault":
                return recv.element() if recv is not None and not recv.is_input else (recv.part() if recv is not None else Origin(OTHER))
            if name in ("__new__",):
                return Origin(FRESH)
            if name == "reconstruct" or name == "_ufl_expr_reconstruct_":
                return Origin(FRESH, None, join(el, recv.element() if recv is not None and not recv.is_input else recv))
            if recv is not None and recv.is_input:
                # accessor on an input: methods of the package that return FRESH on every definition
                cands = [m for c in self.A.prog.all_classes() for nm, m in c.methods.items() if nm == name]
                if cands and self.A.callee_fresh(cands):
                    return Origin(FRESH, None, join(el, recv))
                return recv.part()
            if recv is not None and recv.kind == FRESH:
                cands = [m for c in self.A.prog.all_classes() for nm, m in c.methods.items() if nm == name]
                if cands and self.A.callee_fresh(cands):
                    return Origin(FRESH, None, join(el, recv.element()))
                return join(recv.element(), el) if (recv.elems is not None or el is not None) else Origin(FRESH)
        # unknown / non-fresh callee: may return (part of) any argument
        for o in args:
            if o.is_input:
                return o.part()
        for o in args:
            if o.elems is not None and o.elems.is_input:
                return o.elems.part()
        return Origin(OTHER)

    # ------------------------------------------------------------ statements
    def bind(self, target, o: Origin):
        if isinstance(target, ast.Name):
            self.env[target.id] = o
        elif isinstance(target, (ast.Tuple, ast.List)):
            if o.items is not None and len(o.items) == len(target.elts) and not any(isinstance(t, ast.Starred) for t in target.elts):
                for t, ot in zip(target.elts, o.items):
                    self.bind(t, ot)
                return
            for t in target.elts:
                self.bind(t.value if isinstance(t, ast.Starred) else t, o.element() if not o.is_input else o)
        elif isinstance(target, (ast.Attribute, ast.Subscript)):
            self.sink(target, target.value, "store")

    def sink(self, node, receiver, kind, method=None):
        o = self.origin(receiver)
        self.A.n_sinks += 1 if self.collect else 0
        if not o.is_input or not self.collect:
            return
        self.A.findings.append((self.fi, node, receiver, o.param, kind, method, self.node, o.whole))

    def block(self, stmts):
        for st in stmts:
            self.stmt(st)

    def stmt(self, st):
        if isinstance(st, ast.Assign):
            o = self.origin(st.value)
            for t in st.targets:
                self.bind(t, o)
        elif isinstance(st, ast.AnnAssign):
            if st.value is not None:
                self.bind(st.target, self.origin(st.value))
        elif isinstance(st, ast.AugAssign):
            o = self.origin(st.value)
            if isinstance(st.target, ast.Name):
                cur = self.env.get(st.target.id, Origin(OTHER))
                if cur.is_input and isinstance(st.op, ast.Add) and isinstance(st.value, (ast.List, ast.ListComp)):
                    self.sink(st, st.target, "list +=")
                elif isinstance(st.op, (ast.BitOr, ast.BitAnd, ast.Sub)) and cur.is_input and isinstance(st.value, (ast.Set, ast.SetComp, ast.Dict)):
                    self.sink(st, st.target, "set/dict in-place operator")
                elif not cur.is_input:
                    self.env[st.target.id] = join(cur, Origin(cur.kind, None, o.element()))
            else:
                self.sink(st, st.target.value, "augmented store")
        elif isinstance(st, ast.Delete):
            for t in st.targets:
                if isinstance(t, (ast.Attribute, ast.Subscript)):
                    self.sink(st, t.value, "del")
                elif isinstance(t, ast.Name):
                    self.env.pop(t.id, None)
        elif isinstance(st, ast.Expr):
            self.expr_effects(st.value)
            self.origin(st.value)
        elif isinstance(st, ast.Return):
            if st.value is not None:
                self.expr_effects(st.value)
                self.returns.append(self.origin(st.value))
        elif isinstance(st, ast.If):
            self.expr_effects(st.test)
            e0 = dict(self.env)
            self.block(st.body)
            e1 = self.env
            self.env = dict(e0)
            self.block(st.orelse)
            self.env = join_env(e1, self.env)
        elif isinstance(st, (ast.For, ast.AsyncFor)):
            self.expr_effects(st.iter)
            it = self.origin(st.iter)
            for _ in range(2):
                e0 = dict(self.env)
                self.bind(st.target, it.element() if not it.is_input else it)
                self.block(st.body)
                self.env = join_env(e0, self.env)
            self.block(st.orelse)
        elif isinstance(st, ast.While):
            self.expr_effects(st.test)
            for _ in range(2):
                e0 = dict(self.env)
                self.block(st.body)
                self.env = join_env(e0, self.env)
            self.block(st.orelse)
        elif isinstance(st, (ast.With, ast.AsyncWith)):
            for item in st.items:
                self.expr_effects(item.context_expr)
                if item.optional_vars is not None:
                    self.bind(item.optional_vars, self.origin(item.context_expr))
            self.block(st.body)
        elif isinstance(st, ast.Try):
            e0 = dict(self.env)
            self.block(st.body)
            e1 = self.env
            for h in st.handlers:
                self.env = join_env(e0, e1)
                if h.name:
                    self.env[h.name] = Origin(FRESH)
                self.block(h.body)
                e1 = join_env(e1, self.env)
            self.env = e1
            self.block(st.orelse)
            self.block(st.finalbody)
        elif isinstance(st, (ast.FunctionDef, ast.AsyncFunctionDef)):
            w = FuncWalker(self.A, self.fi, self.collect, outer_env=self.env, node=st)
            w.run()
            self.env[st.name] = Origin(FRESH)
        elif isinstance(st, ast.ClassDef):
            self.env[st.name] = Origin(FRESH)
        elif isinstance(st, (ast.Import, ast.ImportFrom)):
            for a in st.names:
                self.env[(a.asname or a.name).split(".")[0]] = Origin(OTHER)
        elif isinstance(st, ast.Assert):
            self.expr_effects(st.test)
        elif isinstance(st, ast.Raise):
            if st.exc is not None:
                self.expr_effects(st.exc)
        elif isinstance(st, ast.Match):
            e0 = dict(self.env)
            acc = None
            for c in st.cases:
                self.env = dict(e0)
                self.block(c.body)
                acc = self.env if acc is None else join_env(acc, self.env)
            self.env = acc or e0
        elif isinstance(st, (ast.Global, ast.Nonlocal)):
            for n in st.names:
                self.env[n] = Origin(OTHER)

    def expr_effects(self, e):
        """mutating calls anywhere inside an expression"""
        for n in ast.walk(e):
            if isinstance(n, ast.Call):
                f = n.func
                if self.collect and not (isinstance(f, ast.Attribute) and f.attr in MUTATORS):
                    try:
                        self.origin(n)  # records the call site (arguments' origins) for the accumulator rule
                    except RecursionError:
                        pass
                if isinstance(f, ast.Attribute) and f.attr in MUTATORS:
                    # dict.pop / setdefault on an input are mutations too
                    self.sink(n, f.value, "call", f.attr)
                    if isinstance(f.value, ast.Name) and f.attr in ("append", "add", "insert", "extend", "update", "appendleft", "setdefault"):
                        cur = self.env.get(f.value.id)
                        if cur is not None and not cur.is_input:
                            new = None
                            for a in n.args:
                                oa = self.origin(a)
                                new = join(new, oa.element() if f.attr in ("extend", "update") and not oa.is_input else oa)
                            if new is not None:
                                self.env[f.value.id] = Origin(cur.kind, None, join(cur.elems, new) if cur.elems is not None else new)
                elif isinstance(f, ast.Name) and f.id == "setattr" and n.args:
                    self.sink(n, n.args[0], "setattr")
                elif isinstance(f, ast.Name) and f.id == "delattr" and n.args:
                    self.sink(n, n.args[0], "delattr")
                elif isinstance(f, ast.Attribute) and f.attr == "__setattr__" and len(n.args) >= 1 and isinstance(f.value, ast.Name) and f.value.id == "object":
                    self.sink(n, n.args[0], "object.__setattr__")
            elif isinstance(n, (ast.Yield,)) and n.value is not None:
                self.yields.append(self.origin(n.value))
            elif isinstance(n, ast.YieldFrom):
                self.yields.append(self.origin(n.value).element())


def root_name(e):
    while isinstance(e, (ast.Attribute, ast.Subscript, ast.Call)):
        e = e.func if isinstance(e, ast.Call) else e.value
    return e.id if isinstance(e, ast.Name) else None


def first_attr(e):
    """self.X... -> X"""
    chain = []
    while isinstance(e, (ast.Attribute, ast.Subscript, ast.Call)):
        if isinstance(e, ast.Attribute):
            chain.append(e.attr)
        e = e.func if isinstance(e, ast.Call) else e.value
    return chain[-1] if chain else None


def none_guarded(fn_node, target_node, attr):
    """the write happens under `if self.attr is None` (lazy initialisation)"""
    from ..flow import guards_at

    for cond, pol in guards_at(fn_node, target_node):
        txt = norm(cond)
        if pol and txt in (f"self.{attr} is None", f"not self.{attr}", f"self.{attr} == None") or (not pol and txt in (f"self.{attr} is not None", f"self.{attr}")):
            return True
        if pol and f"hasattr(self, '{attr}')" in txt and txt.startswith("not "):
            return True
    return False


def analyse(prog, rep=None, extra_functions=()):
    A = Analysis(prog)
    funcs = [f for f in prog.all_functions() if not f.module.path.startswith("<")] + list(extra_functions)
    A.compute_fresh_returns(funcs)
    for fi in funcs:
        A.n_functions += 1
        FuncWalker(A, fi, collect=True).run()
    return A, funcs


def accumulator_ok(A, prog, fi, param, seen=None, whole=True):
    """(ok, offending call sites): every call site that passes `param` explicitly passes a value created
    by the caller, the working state of an algorithm object, or the caller's own accumulator parameter
    (checked transitively)"""
    seen = seen or set()
    key = (A.key(fi), param)
    if key in seen:
        return True, []
    seen.add(key)
    params = fi.params() + [x.arg for x in fi.node.args.kwonlyargs]
    if param not in params:
        return False, []
    pos = params.index(param)
    sites = A.call_args.get(A.key(fi), [])
    has_self = fi.cls is not None and fi.params() and fi.params()[0] in ("self", "cls")
    passing = 0
    bad = []
    for caller, call, origins, kw in sites:
        unbound = isinstance(call.func, ast.Attribute) and isinstance(call.func.value, ast.Name) and isinstance(prog.resolve_name(caller.module, call.func.value.id), ClassInfo)
        idx = pos - (1 if (has_self and not unbound) else 0)
        if param in kw:
            o = kw[param]
        elif 0 <= idx < len(origins):
            o = origins[idx]
        else:
            continue  # not passed: the default applies
        passing += 1
        if o.kind in (FRESH, OTHER) and not o.is_input:
            if o.kind == OTHER:
                bad.append((caller, call))
            elif not whole and o.elems is not None and o.elems.kind != FRESH:
                # the write goes to something reached *through* the parameter, and the caller's new
                # object was built from (shares parts with) values it did not create itself
                bad.append((caller, call))
            continue
        # an input of the caller
        if o.param == "self" and caller.cls is not None and A.is_algorithm_class(caller.cls):
            continue  # working state of an algorithm object
        ok, _ = accumulator_ok(A, prog, caller, o.param, seen, whole and o.whole)
        if not ok:
            bad.append((caller, call))
    if passing == 0:
        # only default values / no call site inside the package: a public entry point
        return (len(sites) > 0), []
    return (not bad), bad


def constructor_helper(A: Analysis, fi: FuncInfo):
    """a private method whose every call site in the package is `self.<name>(...)` inside a constructor of
    the same class hierarchy (at least one such site): it runs before the object is visible to anyone"""
    if not fi.name.startswith("_") or fi.name.startswith("__"):
        return False
    sites = A.call_args.get(A.key(fi), [])
    if not sites:
        return False
    # every syntactic call `<x>.<name>(...)` in the package must be one of the resolved sites
    n_syntactic = sum(1 for m in A.prog.modules.values() if not m.path.startswith("<") for n in ast.walk(m.tree) if isinstance(n, ast.Call) and isinstance(n.func, ast.Attribute) and n.func.attr == fi.name)
    if n_syntactic != len({id(c) for _, c, _, _ in sites}):
        return False
    for caller, call, _o, _k in sites:
        f = call.func
        if not (isinstance(f, ast.Attribute) and isinstance(f.value, ast.Name) and f.value.id == "self"):
            return False
        if caller.cls is None or caller.name not in CTOR_NAMES:
            return False
        if fi.cls not in caller.cls.mro():
            return False
    return True


def exempt_match(construct, node, c):
    """EXEMPT construct patterns: a text prefix; `*.attr` = a store to that attribute of any receiver; `*[]` = any item
    store (local variable names are not part of an exemption)"""
    if c == "*[]":
        tg = node.targets if isinstance(node, ast.Assign) else [getattr(node, "target", None)]
        return isinstance(node, ast.Subscript) or any(isinstance(t, ast.Subscript) for t in tg if t is not None)
    if c.startswith("*."):
        tg = node.targets if isinstance(node, ast.Assign) else [getattr(node, "target", None)]
        return any(isinstance(t, ast.Attribute) and t.attr == c[2:] for t in tg if t is not None) or (isinstance(node, ast.Attribute) and node.attr == c[2:])
    return construct.startswith(c)


def judge(A: Analysis, prog):
    """apply the exemption rules; returns list of (fi, node, construct, why)"""
    out = []
    seen = set()
    for fi, node, receiver, param, kind, method, fn_node, whole in A.findings:
        construct = norm(node)[:160]
        keyf = (fi.module.name, fi.qualname, node.lineno, construct)
        if keyf in seen:
            continue
        seen.add(keyf)
        if any(fi.module.name == m and fi.qualname == q and exempt_match(construct, node, c) for (m, q, c) in EXEMPT):
            continue
        if param == "cls":
            continue  # class objects under construction (decorators, __new__, classmethods), not expressions
        if param == "self" and fi.cls is not None:
            # the method itself, a closure over its `self`, or a method wrapper built by a decorator
            # defined in the class body (nested function whose own first parameter is `self`)
            cls = fi.cls
            if A.is_algorithm_class(cls):
                continue  # (a)
            if fi.name in CTOR_NAMES:
                continue  # (b) constructor
            if fn_node is fi.node and constructor_helper(A, fi):
                continue  # (b) private helper called only from the constructors of its class, on `self`
            tgt = node.targets[0] if isinstance(node, ast.Assign) else (node.target if isinstance(node, (ast.AugAssign, ast.AnnAssign)) else (node if isinstance(node, (ast.Attribute, ast.Subscript)) else receiver))
            attr = first_attr(tgt) if root_name(tgt) == "self" else None
            ident = A.slots_read_by_identity(cls)
            if attr is not None and attr not in ident:
                continue  # (b) not an identity slot
            if attr is not None and none_guarded(fn_node, node, attr):
                continue  # (b) lazy cache
            what = f"the identity slot '{attr}'" if attr is not None else "an object reachable from self through a local alias"
            out.append((fi, node, construct, f"writes {what} of {cls.name} (read by its repr / == / hash / signature data) outside a constructor and without a lazy-initialisation guard"))
            continue
        # (c) accumulator parameter
        if fn_node is fi.node:
            ok, bad = accumulator_ok(A, prog, fi, param, None, whole)
            if ok:
                continue
            where = "; ".join(f"{c.module.relpath}:{cl.lineno} {c.qualname} passes {norm(cl)[:60]}" for c, cl in bad[:3]) if bad else "no call site in the package passes a value created by the caller (public entry point)"
            out.append((fi, node, construct, f"mutates its parameter '{param}' ({kind}{' .' + method if method else ''}); {where}"))
            continue
        out.append((fi, node, construct, f"mutates an object reachable from the parameter '{param}' of a nested function ({kind}{' .' + method if method else ''})"))
    return out


POSITIVE = '''
def clean(integral):
    md = {}
    md.update(integral.metadata())
    md["k"] = 1
    return md


def dirty(integral):
    md = integral.metadata()
    if md.get("k") is None:
        md = {**md, "k": 1}
    else:
        md["k"] = 2
    return md


def helper(acc, x):
    acc.append(x)


def uses_helper_fresh(x):
    acc = []
    helper(acc, x)
    return acc


def deep_helper(records):
    for r in records:
        r.metadata()["k"] = 1


def uses_deep_helper(form):
    deep_helper(list(form.integrals()))
'''


def run(ctx) -> Report:
    rep = Report("C27")
    prog = ctx.prog
    A, funcs = analyse(prog)
    verdicts = judge(A, prog)
    flagged = set()
    for fi, node, construct, why in verdicts:
        flagged.add((fi.module.name, fi.qualname))
        rep.violation("C27-write", fi, construct, f"{fi.qualname} {why}: `{construct}`", witness={"line": node.lineno})
    for fi in funcs:
        if (fi.module.name, fi.qualname) not in flagged:
            rep.ok("C27-write", fi, "no write through a parameter-derived reference")
    # ---- positive control -------------------------------------------------------------------------------
    m = prog.add_virtual_module("verif_c27_positive", POSITIVE)
    pf = list(m.functions.values())
    A2 = Analysis(prog)
    A2.compute_fresh_returns(funcs + pf)
    for fi in pf:
        FuncWalker(A2, fi, collect=True).run()
    v2 = {fi.name for fi, *_ in judge(A2, prog)}
    if v2 == {"dirty", "deep_helper"}:
        rep.ok("C27-positive", pf[0], "the analysis flags the in-place write of the control example and accepts the copy idiom and the fresh accumulator")
    else:
        raise AnalysisError(f"positive control failed: flagged {sorted(v2)} (expected ['deep_helper', 'dirty'])")
    # ---- constructors applied to their own results never modify their operands (sa/rules/c27_ctor.py) ----------
    from .c27_ctor import run_ctor

    rep.extra["nested constructor calls interpreted"] = run_ctor(ctx, rep)
    if A.n_functions < 1500:
        raise AnalysisError(f"only {A.n_functions} functions analysed")
    rep.extra["functions"] = A.n_functions
    rep.extra["write sites examined"] = A.n_sinks
    rep.extra["fresh-returning functions"] = sum(1 for v in A.fresh_return.values() if v)
    rep.explanation = f"{A.n_functions} functions / methods of the package analysed; {A.n_sinks} write sites (stores, deletes, in-place operators, mutating calls) classified by the origin of their receiver."
    rep.assumptions = [
        "may-alias approximation: a call with an input argument returns an input unless the callee returns fresh values on every path (summary fixpoint)",
        "attribute writes on `self` of algorithm / helper objects are their own working state",
        "mutation through module-level state or through closures over non-parameters is out of scope",
    ]
    return rep
