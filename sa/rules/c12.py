"""C12 -- signatures do not depend on incidental numbering or process state.

Form.signature() - Form.__init__ with its integral sorting, domain / terminal numbering, the
_ufl_signature_data_ methods, compute_form_signature, canonicalize_metadata - is lifted on forms whose
objects are instances of the repository's own classes built by lifting their constructors
(sa/formlift.py); commutative operands are ordered by the lifted Sum/Product constructors
(sorted_expr / cmp_expr).  Everything incidental is an explicit parameter of the lifted world:

  counters   counts of coefficients, constants, indices, labels and mesh ids (monotone re-numberings that
             keep the creation order but cross digit boundaries, 9 -> 10 and 99 -> 100)
  set order  the iteration order of every set built by the analysed code
  str hash   the salt of hash(str)  (PYTHONHASHSEED)

  C12-sig    for every form of the family, the signature is identical in all worlds.

The same form is built in the same way in each world; a difference is reported with the first differing
pre-hash data (what leaked).
"""

from __future__ import annotations

from ..formlift import FormWorld
from ..lift import LiftRaise, Unsupported
from ..model import AnalysisError
from ..report import Report

WORLDS = [
    # name, shifts per counter kind, set order, hash salt
    ("base", {}, "fifo", 0),
    ("counters+8 (9->10)", {"mesh": 8, "coefficient": 8, "constant": 8, "index": 8, "label": 8}, "fifo", 0),
    ("counters+98 (99->100)", {"mesh": 98, "coefficient": 98, "constant": 98, "index": 98, "label": 98}, "fifo", 0),
    ("mixed shifts", {"mesh": 9, "coefficient": 97, "constant": 7, "index": 995, "label": 8}, "fifo", 0),
    ("set order reversed", {}, "lifo", 0),
    ("set order keyed 1", {}, "keyed:1", 0),
    ("set order keyed 2", {}, "keyed:2", 0),
    ("set order keyed 3", {}, "keyed:3", 0),
    ("str hash salt 1", {}, "fifo", 1),
    ("indices 99,100", {"index": 99, "label": 99, "coefficient": 99, "constant": 99, "mesh": 99}, "fifo", 0),
    ("indices 999,1000", {"index": 999, "label": 999}, "fifo", 0),
    ("all", {"mesh": 98, "coefficient": 8, "constant": 9, "index": 7, "label": 99}, "keyed:4", 2),
]


class Builder:
    """builds the family in one world; cnt(kind, k) is the counter value of the k-th object of a kind"""

    def __init__(self, W, shifts):
        self.W = W
        self.shifts = shifts

    def cnt(self, kind, k):
        return k + self.shifts.get(kind, 0)

    def forms(self):
        W, cnt = self.W, self.cnt
        out = {}
        P1, P2 = W.element("P", 1), W.element("P", 2)
        P1v = W.element("P", 1, (2,))
        m = [W.mesh(cnt("mesh", k)) for k in range(4)]
        V = [W.space(mm, P2) for mm in m]
        Vv = [W.space(mm, P1v) for mm in m]
        f = [W.coefficient(V[0], cnt("coefficient", k)) for k in range(3)]
        fv = [W.coefficient(Vv[0], cnt("coefficient", 3 + k)) for k in range(2)]
        fm = [W.coefficient(V[k], cnt("coefficient", 5 + k)) for k in range(4)]
        c = [W.constant(m[0], cnt("constant", k)) for k in range(3)]
        cm = [W.constant(m[k], cnt("constant", 3 + k)) for k in range(4)]
        v, u = W.argument(V[0], 0), W.argument(V[0], 1)
        prod = lambda a, b: W.new("Product", a, b)  # noqa: E731  (lifted constructor: sorted_expr)
        add = lambda a, b: W.new("Sum", a, b)  # noqa: E731

        # 1. counted terminals in commutative nodes, created late-first
        e = add(prod(f[2], f[0]), prod(c[2], prod(c[1], c[0])))
        e = add(e, prod(f[1], v))
        out["coefficients and constants"] = W.form([W.integral(e, "cell", m[0])])
        # 2. geometry on several meshes; two meshes that are not integration domains
        vol = [W.geometric("CellVolume", mm) for mm in m]
        e = prod(prod(vol[2], vol[1]), prod(fm[2], fm[1]))
        out["non-integration meshes in the integrand"] = W.form([W.integral(e, "cell", m[0])])
        e = prod(prod(vol[3], vol[1]), prod(cm[3], prod(cm[2], vol[2])))
        out["three extra meshes, constants"] = W.form([W.integral(e, "cell", m[0]), W.integral(prod(vol[1], fm[1]), "cell", m[1])])
        # 3. indices (free, fixed), a Zero carrying a free index
        i, j = W.index(cnt("index", 0)), W.index(cnt("index", 1))
        fi = lambda t, *ii: W.op("Indexed", t, W.multiindex(*ii), ufl_shape=(), ufl_free_indices=(), ufl_index_dimensions=())  # noqa: E731
        zero_i = W.new("Zero", (), (cnt("index", 0),), (2,))
        cond = W.op("LT", f[0], W.literal(0))
        body = W.op("Product", W.op("Conditional", cond, zero_i, fi(fv[0], i)), fi(fv[1], i))
        e = W.op("IndexSum", body, W.multiindex(i))
        e2 = W.op("IndexSum", W.op("Product", fi(fv[1], j), fi(fv[0], j)), W.multiindex(j))
        out["indices and a zero with a free index"] = W.form([W.integral(W.op("Sum", e, W.op("Sum", e2, fi(fv[0], 1))), "cell", m[0])])
        # 3b. commutative operands that are equal up to the numbering of their indices / labels (ties of the
        #     canonical operand order), in a context that tells the indices apart
        G = W.coefficient(W.space(m[0], W.element("P", 1, (2, 2))), cnt("coefficient", 9))
        tied = prod(fi(fv[0], i), fi(fv[0], j))
        body = W.op("Product", tied, fi(G, i, j), ufl_shape=(), ufl_free_indices=(), ufl_index_dimensions=())
        e3 = W.op("IndexSum", W.op("IndexSum", body, W.multiindex(j)), W.multiindex(i))
        tied_sum = add(fi(fv[0], i), fi(fv[0], j))
        body2 = W.op("Product", tied_sum, fi(G, i, j), ufl_shape=(), ufl_free_indices=(), ufl_index_dimensions=())
        e4 = W.op("IndexSum", W.op("IndexSum", body2, W.multiindex(j)), W.multiindex(i))
        out["operands tied up to index numbers"] = W.form([W.integral(W.op("Sum", e3, e4), "cell", m[0])])
        # 4. variables / labels
        l0, l1 = W.label(cnt("label", 0)), W.label(cnt("label", 1))
        va = W.op("Variable", f[0], l1)
        vb = W.op("Variable", prod(f[1], f[0]), l0)
        out["variables"] = W.form([W.integral(W.op("Sum", va, W.op("Product", vb, va)), "cell", m[0])])
        # 5. several integrals: types, subdomain ids, metadata; two integration domains created in the other order
        itgs = [
            W.integral(prod(f[0], v), "exterior_facet", m[1], 2, {"quadrature_degree": 3}),
            W.integral(prod(f[1], v), "cell", m[1], (1, 2)),
            W.integral(prod(f[2], v), "cell", m[0], "everywhere", {"quadrature_degree": 2, "scheme": "default"}),
            W.integral(prod(f[0], v), "cell", m[0], 1),
            W.integral(prod(c[0], v), "cell", m[0], "otherwise"),
            W.integral(prod(c[1], prod(u, v)), "interior_facet", m[0], 10),
            W.integral(prod(c[1], prod(u, v)), "interior_facet", m[0], 9),
        ]
        out["several integrals"] = W.form(itgs)
        # 6. extra domain -> integral type map with two extra meshes
        out["extra domain map"] = W.form([W.integral(prod(fm[1], fm[2]), "cell", m[0], extra=[(m[2], "cell"), (m[1], "exterior_facet")])])
        # 7. arguments with parts
        va0, va1 = W.argument(V[0], 0, 1), W.argument(V[0], 0, 0)
        out["arguments with parts"] = W.form([W.integral(add(prod(f[0], va0), prod(f[1], va1)), "cell", m[0])])
        return out


# reviewed iteration-over-a-set sites: (module, function, construct prefix) -> why the order cannot reach a signature
SET_ORDER_REVIEWED = {
    ("ufl.cell", "Cell.__init__", "tuple(set(_))"): "distinct sub-entity cell types per dimension: a singleton for every cell except prism / pyramid facets; a lookup list, not part of any expression or signature",
    ("ufl.form", "Form.geometric_dimension", "tuple(set("): "only its length and (sorted) error text are used",
    ("ufl.sobolevspace", "SobolevSpace.__init__", "[_.parents for _ in _]"): "arguments of frozenset.union: order free",
    ("ufl.algorithms.analysis", "extract_type", "for _ in _"): "accumulates into a list that is only merged into the result set (objects.update)",
    ("ufl.algorithms.analysis", "extract_terminals_with_domain", "[_ for _ in _ if isinstance(_, BaseArgument)]"): "sorted by number and part before it is returned",
    ("ufl.algorithms.analysis", "extract_terminals_with_domain", "[_ for _ in _ if isinstance(_, BaseCoefficient)]"): "sorted by count before it is returned",
    ("ufl.algorithms.analysis", "extract_terminals_with_domain", "[_ for _ in _ if isinstance(_, GeometricQuantity)]"): "sorted by (type name, domain id) before it is returned",
    ("ufl.differentiation", "BaseFormDerivative._analyze_form_arguments", "(_ for _ in _.ufl_operands for _ in extract_type("): "per direction operand the extracted set holds the single argument of that direction; base-form argument tuples do not enter Form.signature()",
    ("ufl.core.base_form_operator", "BaseFormOperator._analyze_form_arguments", "(_ for _ in _ for _ in extract_type("): "sorted by argument number afterwards (ties between equally numbered arguments of composed operators keep set order; base-form-operator slots do not enter Form.signature(), see known finding F11b)",
}


def run(ctx) -> Report:
    rep = Report("C12")
    prog = ctx.prog
    sig_fn = prog.get_function("ufl.form", "Form.signature")
    results = {}
    logs = {}
    for wname, shifts, order, salt in WORLDS:
        W = FormWorld(ctx, set_order=order, hash_salt=salt)
        forms = Builder(W, shifts).forms()
        for fname, F in forms.items():
            n0 = len(W.sha_log)
            try:
                s = W.signature(F)
            except LiftRaise as ex:
                rep.violation("C12-sig", sig_fn, f"{fname} [{wname}]", f"computing the signature of the form '{fname}' fails in world '{wname}': {ex.what}")
                continue
            results[(fname, wname)] = s
            logs[(fname, wname)] = list(W.sha_log[n0:])
    names = sorted({f for f, _ in results})
    if len(names) < 7:
        raise AnalysisError(f"form family too small: {names}")
    for fname in names:
        base = results.get((fname, "base"))
        if base is None:
            continue
        for wname, shifts, order, salt in WORLDS[1:]:
            s = results.get((fname, wname))
            if s is None:
                continue
            if s == base:
                rep.ok("C12-sig", sig_fn, f"'{fname}': signature in world '{wname}' equals the base world's")
            else:
                a, b = logs[(fname, "base")], logs[(fname, wname)]
                first = next(((x, y) for x, y in zip(a, b) if x != y), (b"", b""))
                leak = _diff(first[0].decode("utf-8", "replace"), first[1].decode("utf-8", "replace"))
                rep.violation(
                    "C12-sig",
                    sig_fn,
                    f"{fname} [{wname}]",
                    f"the signature of the form '{fname}' built in the same way changes in world '{wname}' (counters {shifts or 'unchanged'}, set order {order}, str-hash salt {salt}); first differing hash data: {leak}",
                    witness={"form": fname, "world": wname, "base": first[0].decode("utf-8", "replace")[:300], "other": first[1].decode("utf-8", "replace")[:300]},
                )
    rep.require_min("C12-sig", 7 * (len(WORLDS) - 1))
    rep.explanation = (
        f"Form.signature() lifted on {len(names)} forms (objects of the repository classes built by lifting their constructors) in {len(WORLDS)} worlds that differ only in "
        "counter values (order-preserving, across digit boundaries), set iteration order and str-hash salt; signatures compared pairwise with the base world."
    )
    rep.assumptions = [
        "traversal drivers (pre/post-order over ufl_operands) modelled, see C19",
        "user-side finite elements / cells are abstract objects identified by their repr",
        "set iteration order has five representatives (insertion order, its reverse, three element-keyed orders)",
    ]
    # ---- structural: iteration order of sets never reaches a sequence / operator nesting / string ----------
    from ..setorder import set_order_rule

    set_order_rule(ctx, rep, "C12-order", SET_ORDER_REVIEWED)
    return rep


def _diff(a, b):
    k = 0
    while k < min(len(a), len(b)) and a[k] == b[k]:
        k += 1
    lo = max(0, k - 60)
    return f"...{a[lo:k + 40]!r} vs ...{b[lo:k + 40]!r}"
