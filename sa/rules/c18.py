"""C18 -- estimated polynomial degree never underestimates the true degree.

SumDegreeEstimator is lifted as a whole pass (sa/passlift.py) on structured integrands that are
polynomials in the spatial coordinate.  The *true* degree is computed by this checker from the
expression's meaning: every form argument / coefficient component of element degree d is the generic
monomial c*x**d (fresh coefficient symbol c), the spatial coordinate is x, derivatives act as d/dx; the
lifted term is normalised in Q[c..][x] and its degree in x read off.  Obligation per integrand:
estimate >= true degree.

Family: sums, products, non-negative integer powers, indexing (fixed and free), implicit sums, list and
component tensors, conditionals, derivatives, restricted operands, variables, and fixed components of
mixed elements with sub-elements of different degrees - including a Piola-mapped sub-element on an
immersed mesh (reference size != physical size), a symmetric element and an element whose
embedded_subdegree is smaller than its embedded_superdegree.
C18-key: shared MEMO-KEY rule over estimate_degrees.py (a memo of sub-element offsets must be keyed by
everything the offsets depend on, e.g. the domain and not only the element).
"""

from __future__ import annotations

import ast
import itertools

from .. import corpus, sym, uflmodel, uflsem
from ..lift import LiftRaise, Obj, Unsupported
from ..model import AnalysisError, norm
from ..passlift import PassHarness
from ..report import Report
from ..uflmodel import MI, new_index, node, terminal
from ..uflsem import T, as_T
from .c08 import np_model

CLS = "ufl.algorithms.estimate_degrees.SumDegreeEstimator"
X = sym.sym("x")


def poly_terminal(name, shape, degrees, klass, **tags):
    """terminal whose component c is the generic monomial coef_c * x**degrees[c]"""
    data = {}
    for c in itertools.product(*[range(d) for d in shape]):
        d = degrees(c) if callable(degrees) else degrees
        nm = name if not c else f"{name}[{','.join(map(str, c))}]"
        data[(c, ())] = sym.mul(sym.sym("c_" + nm), sym.power(X, sym.const(d))) if d else sym.sym("c_" + nm)
    t = T(shape, (), (), data, name=name)
    t.tags.update(ufl_class=klass, ufl_operands=(), _ufl_is_terminal_=True, key=(klass, name))
    t.tags.update(tags)
    return t


def ddx(t: T, gdim: int) -> T:
    """Grad: every direction is d/dx (one representative coordinate suffices for the total degree)"""
    memo = {}

    def D(x):
        r = memo.get(x)
        if r is not None:
            return r
        if x.op in ("c", "I"):
            r = sym.ZERO
        elif x.op == "s":
            r = sym.ONE if x is X else sym.ZERO
        elif x.op == "+":
            r = sym.add(D(x.args[0]), D(x.args[1]))
        elif x.op == "*":
            r = sym.add(sym.mul(D(x.args[0]), x.args[1]), sym.mul(x.args[0], D(x.args[1])))
        elif x.op == "^":
            u, n = x.args
            r = sym.mul(sym.mul(sym.const(n), sym.power(u, sym.const(n - 1))), D(u))
        elif x.op == "cond":
            r = sym.cond(x.args[0], D(x.args[1]), D(x.args[2]))
        else:
            raise AnalysisError(f"ddx of {x.op}")
        memo[x] = r
        return r

    data = {}
    for (c, iv), v in t.data.items():
        for k in range(gdim):
            data[(c + (k,), iv)] = D(v)
    return T(t.shape + (gdim,), t.fi, t.fid, data)


def true_degree(t: T):
    """max degree in x over all entries of the lifted meaning (conditionals: max over branches)"""
    best = 0

    def deg_ex(ex):
        # strip conditionals: both branches count
        if ex.op == "cond":
            return max(deg_ex(ex.args[1]), deg_ex(ex.args[2]))
        if ex.op in ("+", "*") and any(isinstance(a, sym.Ex) and _has_cond(a) for a in ex.args):
            a, b = ex.args
            return max(deg_ex(a), deg_ex(b)) if ex.op == "+" else deg_ex(a) + deg_ex(b)
        n, d = sym.to_rat(ex)
        if any(v == "x" for m in d for v, _ in m):
            raise AnalysisError("non-polynomial integrand in the C18 family")
        return max((dict(m).get("x", 0) for m in n), default=0)

    for ex in t.data.values():
        best = max(best, deg_ex(ex))
    return best


def _has_cond(ex):
    seen, todo = set(), [ex]
    while todo:
        x = todo.pop()
        if x in seen:
            continue
        seen.add(x)
        if x.op == "cond":
            return True
        todo.extend(a for a in x.args if isinstance(a, sym.Ex))
    return False


def run(ctx) -> Report:
    rep = Report("C18")
    prog = ctx.prog
    # the memo-key clause first: it needs no interpretation, and what it finds is reported even if a later clause cannot follow the code
    from ..memokey import check_memo_keys, memo_rule  # noqa: F401
    memo_rule(ctx, rep, "C18-key", ['ufl.algorithms.estimate_degrees'])
    cls = prog.get_class(CLS)
    ctx.crosscheck_dispatch({"SumDegreeEstimator"})
    pb = lambda n, *a: uflmodel.make_pullback(prog, n, *a)  # noqa: E731

    def world(gdim, tdim):
        ucell = Obj("cell", cellname={1: "interval", 2: "triangle", 3: "tetrahedron"}[tdim], topological_dimension=tdim)
        coord = Obj("element", embedded_superdegree=1, embedded_subdegree=1)
        dom = Obj("domain", geometric_dimension=gdim, topological_dimension=tdim, ufl_cell=lambda: ucell, ufl_coordinate_element=lambda: coord)
        dom.attrs["__class__"] = None
        dom.attrs["iterable_like"] = lambda element: [dom for _ in range(element.attrs["num_sub_elements"])]
        return dom

    def element(deg, ref_shape=(), pullback="IdentityPullback", subs=(), sub=None, pullback_args=()):
        size = 1
        for d in ref_shape:
            size *= d
        e = Obj("element", embedded_superdegree=deg, embedded_subdegree=deg if sub is None else sub, reference_value_shape=tuple(ref_shape), reference_value_size=size, sub_elements=list(subs), num_sub_elements=len(subs), pullback=None)
        e.attrs["__class__"] = None
        # mixed and symmetric pullbacks are constructed from the element (and the symmetry map) by their own __init__
        e.attrs["pullback"] = pb(pullback, e, *pullback_args) if pullback in ("MixedPullback", "SymmetricPullback") else pb(pullback)
        return e

    def form_arg(name, el, dom, shape, degrees, klass="Coefficient"):
        space = Obj("space", ufl_domain=lambda: dom)
        t = poly_terminal(name, shape, degrees, klass, ufl_element=lambda: el, ufl_function_space=lambda: space, domain=dom, cellwise_constant=False)
        return t

    cmb, _ = uflmodel.base_models()
    idx, mult = corpus.idx, corpus.mult
    P, S = uflmodel.m_product, uflmodel.m_sum
    cases = []
    # ---- plain elements ---------------------------------------------------------------------------
    dom = world(2, 2)
    p1, p2, p3 = element(1), element(2), element(3)
    f1 = form_arg("f1", p1, dom, (), 1)
    f2 = form_arg("f2", p2, dom, (), 2)
    v3 = form_arg("v3", element(3, (2,)), dom, (2,), 3, "Argument")
    u2 = form_arg("u2", element(2, (2,)), dom, (2,), 2)
    x = poly_terminal("xx", (2,), 1, "SpatialCoordinate", domain=dom, cellwise_constant=False)
    x.data = {((0,), ()): X, ((1,), ()): sym.mul(sym.sym("c_y"), X)}
    const = terminal("c", (), "Constant")
    const.tags.update(cellwise_constant=True, domain=dom)
    i, j = new_index(), new_index()
    three, two = uflmodel.m_scalar(3), uflmodel.m_scalar(2)
    zero_exp = uflmodel.m_scalar(0)
    grad = lambda t: node(ddx(t, 2), "Grad", (t,), domain=dom)  # noqa: E731
    cnd = uflmodel.m_rel("<")(const, uflmodel.m_scalar(1))
    lab = Obj("label", ufl_class="Label", ufl_operands=(), _ufl_is_terminal_=True)
    add = lambda d, e: cases.append((d, e, dom))  # noqa: E731
    add("f1", f1)
    add("f1*f2", P(f1, f2))
    add("f1 + f2", S(f1, f2))
    add("f1*f2 + f1", S(P(f1, f2), f1))
    add("f2**3", uflmodel.m_power(f2, three))
    add("f2**0 * f1", P(uflmodel.m_power(f2, zero_exp), f1))
    add("(f1*f2)**2", uflmodel.m_power(P(f1, f2), two))
    add("x[0]*x[1]*f1", P(P(idx(x, 0), idx(x, 1)), f1))
    add("x[0]**3", uflmodel.m_power(idx(x, 0), three))
    add("v3[0]*u2[1]", P(idx(v3, 0), idx(u2, 1)))
    add("v3[i]*u2[i]", mult(idx(v3, i), idx(u2, i)))
    add("v3[i]*u2[i]*f2", P(mult(idx(v3, i), idx(u2, i)), f2))
    add("as_vector([f1, f2*f2])[i]*v3[i]", mult(idx(uflmodel.m_list_tensor(f1, P(f2, f2)), i), idx(v3, i)))
    add("as_tensor(v3[i]*f2, (i,))[j]*u2[j]", mult(idx(uflmodel.m_component_tensor(P(idx(v3, i), f2), MI((i,))), j), idx(u2, j)))
    add("conditional(c<1, f1, f2*f2)", uflmodel.m_conditional(cnd, f1, P(f2, f2)))
    add("conditional(c<1, f2*f2, f1)*f1", P(uflmodel.m_conditional(cnd, P(f2, f2), f1), f1))
    add("grad(f2)[0]*grad(f2)[1]", P(idx(grad(f2), 0), idx(grad(f2), 1)))
    add("grad(v3)[0,1]*f2", P(idx(grad(v3), 0, 1), f2))
    add("grad(grad(f2*1))... grad(grad(f2))[0,0]", idx(grad(grad(f2)), 0, 0))
    add("f2('+')*f1('-')", P(cmb["PositiveRestricted"](f2), cmb["NegativeRestricted"](f1)))
    add("variable(f2*f1)*f2", P(cmb["Variable"](P(f2, f1), lab), f2))
    add("c*f2 + 2*f1", S(P(const, f2), P(two, f1)))
    add("(f2*f1)/c", uflmodel.m_division(P(f2, f1), const))
    add("conj(f2)*real(f1)", P(cmb["Conj"](f2), cmb["Real"](f1)))
    # geometric terminals: the reference-cell coordinate is linear in x on an affine cell, the Jacobian constant
    xc = poly_terminal("Xc", (2,), 1, "CellCoordinate", domain=dom, cellwise_constant=False)
    jac = poly_terminal("Jc", (2, 2), 0, "Jacobian", domain=dom, cellwise_constant=True)
    add("X[0]   (reference-cell coordinate)", idx(xc, 0))
    add("X[0]*X[1]*f1", P(P(idx(xc, 0), idx(xc, 1)), f1))
    add("X[1]**3 + f2", S(uflmodel.m_power(idx(xc, 1), three), f2))
    add("J[0,1]*f2*x[0]", P(P(idx(jac, 0, 1), f2), idx(x, 0)))
    # ---- mixed element, identity pullbacks (P1 x P2 x vector P3) ------------------------------------
    subs = [element(1), element(2), element(3, (2,))]
    mixed = element(3, (4,), "IdentityPullback", subs)
    degs = lambda c: [1, 2, 3, 3][c[0]]  # noqa: E731
    w = form_arg("w", mixed, dom, (4,), degs)
    for k in range(4):
        add(f"w[{k}] (mixed P1 x P2 x P3^2)", idx(w, k))
        add(f"w[{k}]*w[{k}]", P(idx(w, k), idx(w, k)))
    add("w[i]*w[i]", mult(idx(w, i), idx(w, i)))
    add("w[0]*w[3]", P(idx(w, 0), idx(w, 3)))
    # ---- nested mixed elements: a mixed sub-element that does not start at offset 0, and one that does ------------
    for layout, tag in (([1, [3, 1]], "[P1, [P3, P1]]"), ([[3, 1], 2], "[[P3, P1], P2]"), ([1, [2, [3, 1]], 1], "[P1, [P2, [P3, P1]], P1]")):
        def build(l):
            if isinstance(l, int):
                return element(l), [l]
            parts = [build(x) for x in l]
            leaves = [d for _, ds in parts for d in ds]
            return element(max(leaves), (len(leaves),), "IdentityPullback", [e for e, _ in parts]), leaves

        nel, leaves = build(layout)
        wn = form_arg("wn" + str(len(cases)), nel, dom, (len(leaves),), lambda c, leaves=leaves: leaves[c[0]])
        for k in range(len(leaves)):
            add(f"w[{k}] (nested mixed {tag}: leaf degree {leaves[k]})", idx(wn, k))
            add(f"w[{k}]*w[{k}] (nested mixed {tag})", P(idx(wn, k), idx(wn, k)))
    # ---- element with subdegree < superdegree inside a mixed element ---------------------------------
    mini = element(3, (), "IdentityPullback", (), sub=1)
    mixed2 = element(3, (2,), "IdentityPullback", [mini, element(1)])
    w2 = form_arg("wm", mixed2, dom, (2,), lambda c: [3, 1][c[0]])
    add("wm[0] (bubble-enriched sub-element: subdegree 1, superdegree 3)", idx(w2, 0))
    add("wm[0]*wm[0]", P(idx(w2, 0), idx(w2, 0)))
    add("wm[1]*wm[0]", P(idx(w2, 1), idx(w2, 0)))
    # ---- Piola-mapped sub-element on an immersed mesh: reference size 2, physical size 3 --------------
    dom3 = world(3, 2)
    rt = element(3, (2,), "ContravariantPiola")
    mixed3 = element(3, (3,), "MixedPullback", [rt, element(1)])
    w3 = form_arg("wr", mixed3, dom3, (4,), lambda c: [3, 3, 3, 1][c[0]])
    for k in range(4):
        cases.append((f"wr[{k}] (RT3 x P1 on a triangle in R^3: physical layout 3+1)", idx(w3, k), dom3))
        cases.append((f"wr[{k}]*wr[{k}]", P(idx(w3, k), idx(w3, k)), dom3))
    # ---- symmetric element: physical component -> sub-element through the symmetry map ---------------
    sym_subs = [element(1), element(3), element(2)]
    symel = element(3, (3,), "SymmetricPullback", sym_subs, pullback_args=({(0, 0): 0, (0, 1): 1, (1, 0): 1, (1, 1): 2},))
    ws = form_arg("ws", symel, dom, (2, 2), lambda c: {(0, 0): 1, (0, 1): 3, (1, 0): 3, (1, 1): 2}[c])
    for a in range(2):
        for b in range(2):
            add(f"ws[{a},{b}] (symmetric element, degrees 1/3/3/2)", idx(ws, a, b))
    n_checked = 0
    for desc, e, dm in cases:
        H = PassHarness(ctx, CLS)
        ip = H.ip
        ip.overrides["np"] = np_model()
        ip.overrides["extract_unique_domain"] = lambda o, expand_mesh_sequence=True, dm=dm: dm
        ip.overrides["extract_domains"] = lambda o, dm=dm: (dm,)
        ip.overrides["is_cellwise_constant"] = lambda o: bool(as_T(o).tags.get("cellwise_constant", False)) if isinstance(o, T) else False
        ip.overrides["warnings"] = Obj("warnings", warn=lambda *a, **k: None)
        prev = ip.isinstance_hook

        def hook(xv, c):
            if getattr(c, "name", None) == "MeshSequence":
                return False
            return prev(xv, c)

        ip.isinstance_hook = hook
        try:
            H.init(1, {})
            est = H.apply(e)
        except LiftRaise as ex:
            rep.violation("C18-bound", cls, desc, f"degree estimation fails on {desc}: {ex.what}")
            continue
        if isinstance(est, tuple):
            est = max(est)
        true = true_degree(as_T(e))
        n_checked += 1
        if est is None or est < true:
            rep.violation("C18-bound", cls, desc, f"estimated degree {est} < true polynomial degree {true} for {desc}: the derived quadrature does not integrate it exactly")
        else:
            rep.ok("C18-bound", cls, f"{desc}: estimate {est} >= true degree {true}")
    if n_checked < 45:
        raise AnalysisError(f"only {n_checked} integrands estimated: family vacuous")
    # compute_form_data uses the estimator for the attached degree: attach_estimated_degrees and
    # estimate_total_polynomial_degree interpreted with recording stand-ins for the form, its integrals and the estimator
    from ..lift import Interp

    afd = prog.get_function("ufl.algorithms.compute_form_data", "attach_estimated_degrees")
    etd = prog.get_function("ufl.algorithms.estimate_degrees", "estimate_total_polynomial_degree")
    FormK, IntegralK = prog.get_class("ufl.form.Form"), prog.get_class("ufl.integral.Integral")

    def integral_obj(name, degree, md):
        integrand = Obj("integrand:" + name, degree=degree)
        integrand.attrs["__class__"] = None
        o = Obj("integral:" + name, __class__=IntegralK, _name=name)
        o.attrs.update(integrand=lambda: integrand, metadata=lambda: dict(md), reconstruct=lambda metadata=None, **k: Obj("integral:" + name, __class__=IntegralK, _name=name, integrand=lambda: integrand, metadata=lambda: dict(metadata), _md=dict(metadata)))
        return o

    def stub_interp(degrees_of):
        ip = Interp(prog)
        ip.class_models["SumDegreeEstimator"] = lambda *a, **k: Obj("estimator")
        ip.overrides["map_expr_dags"] = lambda de, exprs, **k: [degrees_of(e) for e in exprs]
        ip.class_models["Form"] = lambda integrals: Obj("form", __class__=FormK, integrals=lambda: list(integrals), _integrals=list(integrals))
        ip.isinstance_hook = lambda x, c: False if isinstance(x, Obj) and x.kind.startswith("integrand:") else NotImplemented
        return ip

    for degs in ((2, 5, 3), (5, 2), (1,), (0, 0, 4, 1)):
        ip = stub_interp(lambda e: e.attrs["degree"])
        # the first integral carries other metadata, the last one a stale estimate left by an earlier preprocessing of another integrand
        md_of = lambda k: {"quadrature_rule": "default"} if k == 0 else ({"estimated_polynomial_degree": 0, "quadrature_rule": "vertex"} if k == len(degs) - 1 and k > 0 else {})  # noqa: E731
        itgs = [integral_obj(f"I{k}", d, md_of(k)) for k, d in enumerate(degs)]
        form = Obj("form", __class__=FormK, integrals=lambda itgs=itgs: list(itgs))
        try:
            total = ip.call_function(etd, [form], {})
            if total == max(degs):
                rep.ok("C18-attach", etd, f"total degree of a form with integrand estimates {degs} is {total}")
            else:
                rep.violation("C18-attach", etd, f"estimate_total_polynomial_degree, integrands {degs}", f"the total degree of a form whose integrands are estimated {degs} is {total}, not their maximum {max(degs)}")
            one = ip.call_function(etd, [itgs[-1]], {})
            if one != degs[-1]:
                rep.violation("C18-attach", etd, f"estimate_total_polynomial_degree(integral), {degs}", f"the estimate of a single integral with integrand estimate {degs[-1]} is {one}")
            out = ip.call_function(afd, [form], {})
            got = [(i.attrs["_name"], i.attrs["_md"].get("estimated_polynomial_degree"), {k: v for k, v in i.attrs["_md"].items() if k != "estimated_polynomial_degree"}) for i in out.attrs["_integrals"]]
            want = [(f"I{k}", d, {kk: vv for kk, vv in md_of(k).items() if kk != "estimated_polynomial_degree"}) for k, d in enumerate(degs)]
            if got == want:
                rep.ok("C18-attach", afd, f"each of {len(degs)} integrals gets the estimate of its own integrand {degs} (a stale estimate in the metadata is replaced); other metadata kept")
            else:
                rep.violation("C18-attach", afd, f"attach_estimated_degrees, integrands {degs}", f"integrals with integrand estimates {degs} come out as (name, estimated_polynomial_degree, other metadata) = {got}")
        except LiftRaise as ex:
            rep.violation("C18-attach", afd, f"attach_estimated_degrees {degs}", f"raises {ex.what}")
    # the mixed element that derivative() builds for a tuple of coefficients: its degrees bound its sub-elements'
    mk = prog.get_class("ufl.formoperators._MixedElement")
    ipm = Interp(prog)
    ipm.instantiable = {"_MixedElement"}
    ipm.class_models["IdentityPullback"] = lambda: Obj("pullback")
    ipm.class_models["MixedPullback"] = lambda el: Obj("pullback")
    ipm.isinstance_hook = lambda x, c: True if isinstance(x, Obj) and x.kind == "pullback" else NotImplemented
    ucell = Obj("cell")
    n_mixed = 0
    for n in (2, 3):
        for sup in itertools.product((0, 1, 3), repeat=n):
            subs = [Obj("element", embedded_superdegree=d, embedded_subdegree=max(d - 1, 0), cell=ucell, pullback=Obj("pullback")) for d in sup]
            try:
                me = ipm.instantiate(mk, [subs], {})
                hi = ipm.getattr(me, "embedded_superdegree", None, prog.module("ufl.formoperators"))
                lo = ipm.getattr(me, "embedded_subdegree", None, prog.module("ufl.formoperators"))
            except LiftRaise as ex:
                rep.violation("C18-mixed", mk, f"_MixedElement{sup}", f"raises {ex.what}")
                continue
            n_mixed += 1
            if hi is None or hi < max(sup):
                rep.violation("C18-mixed", mk, f"_MixedElement with sub-element degrees {sup}", f"embedded_superdegree of the mixed element over sub-elements of degrees {sup} is {hi}: below a sub-element's degree, so every estimate through this element underestimates")
            elif lo > min(max(d - 1, 0) for d in sup):
                rep.violation("C18-mixed", mk, f"_MixedElement with sub-element degrees {sup}", f"embedded_subdegree {lo} exceeds a sub-element's subdegree")
            else:
                rep.ok("C18-mixed", mk, f"degrees {sup}: superdegree {hi} >= every sub-element, subdegree {lo} <= every sub-element")
    if n_mixed < 30:
        raise AnalysisError(f"only {n_mixed} mixed elements instantiated")
    rep.require_min("C18-bound", 45)
    rep.explanation = (
        f"SumDegreeEstimator lifted on {len(cases)} polynomial integrands; the true degree was computed from the lifted meaning with each form-argument "
        "component replaced by a generic monomial of its element degree (physical component layout for mixed / Piola-mapped / symmetric elements) "
        "and compared with the estimate (estimate >= true degree)."
    )
    rep.assumptions = ["affine simplex cells (degree-reducing derivative rule applies)", "generic coefficients: no accidental cancellation except structural ones present in the expression", "one representative spatial direction for total degree"]
    from ..memokey import memo_rule

    return rep
