"""C21 -- replace substitutes exactly the mapped subexpressions.

C21-subst   Replacer is lifted as a whole pass on the structured expression family (sa/corpus.py) for
            several mappings (terminal -> terminal, -> compound expression, -> literal zero, several
            terminals at once, terminals under restrictions / variables / conditionals); the meaning of the
            result must equal the meaning of the input with the mapped terminals' symbols substituted by
            the images' entries; expressions without mapped terminals are returned unchanged (same object).
C21-shape   Replacer.__init__ lifted: a shape-changing mapping raises.
C21-deriv   replace() itself interpreted from source (with expand_derivatives = algebra lowering + apply_derivatives)
            on expressions holding pending Gateaux derivatives: the result means the derivative with the mapped
            terminals substituted afterwards - also when an image depends on the differentiation variable - or
            the call is refused; never a substitution into the operand of a pending derivative
            (sa/rules/c21_compose.py).
C21-truth   no handler of Replacer uses the truthiness of a looked-up image (`mapping.get(o) or ...`) on a
            path that handles plain expressions (Zero is falsy); the two base-form-operator handlers that do
            are reported as information.
"""

from __future__ import annotations

import ast

from .. import corpus, sym, uflmodel, uflsem
from ..lift import LiftRaise, Obj
from ..model import AnalysisError, norm
from ..passlift import PassHarness
from ..report import Report
from ..uflmodel import MI, node, terminal
from ..uflsem import T, as_T, equal_T

CLS = "ufl.algorithms.replace.Replacer"


def substitute(e: T, mapping):
    """meaning of e with the symbols of each mapped terminal replaced by the image's entries"""
    table = {}
    for k, v in mapping.items():
        v = as_T(v)
        for (c, _iv), ex in k.data.items():
            if ex.op != "s":
                raise AnalysisError("substitute: key is not a symbolic terminal")
            table[ex.args[0]] = v.get(c, ()) if not v.fi else None
    memo = {}

    def rec(x):
        r = memo.get(x)
        if r is not None:
            return r
        if x.op == "s":
            base = x.args[0].split("@")[0]
            if base in table:
                img = table[base]
                if "@" in x.args[0]:
                    side = x.args[0].split("@", 1)[1]
                    img = uflmodel.restrict(T.scalar(img), side).get()
                r = img
            else:
                r = x
        elif x.op == "cs":
            r = sym.conj(rec(sym.sym(x.args[0])))
        elif x.op in ("c", "I"):
            r = x
        else:
            r = sym.Ex(x.op, *[rec(a) if isinstance(a, sym.Ex) else a for a in x.args])
        memo[x] = r
        return r

    return e.map(rec)


def run(ctx) -> Report:
    rep = Report("C21")
    prog = ctx.prog
    # the memo-key clause first: it needs no interpretation, and what it finds is reported even if a later clause cannot follow the code
    from ..memokey import check_memo_keys, memo_rule  # noqa: F401
    memo_rule(ctx, rep, "C21-key", ['ufl.algorithms.replace'])
    cls = prog.get_class(CLS)
    ctx.crosscheck_dispatch({"Replacer"})
    terms, exprs = corpus.build()
    f, g, u, v, A = terms["f"], terms["g"], terms["u"], terms["v"], terms["A"]
    cm, _ = uflmodel.base_models()
    i = terms["i"]
    j = terms["j"]
    h = terminal("h", (), "Coefficient")
    uu = terminal("uu", (2,), "Coefficient")
    compound_scalar = uflmodel.m_sum(cm["Sin"](g), h)
    compound_vec = uflmodel.m_component_tensor(corpus.mult(corpus.idx(A, i, j), corpus.idx(uu, j)), MI((i,)))
    zero = uflmodel.m_zero(())
    zero_vec = uflmodel.m_zero((2,))
    mappings = [
        ("{f: h}", {f: h}),
        ("{u: uu}", {u: uu}),
        ("{f: sin(g)+h}", {f: compound_scalar}),
        ("{u: A.uu}", {u: compound_vec}),
        ("{f: 0}", {f: zero}),
        ("{u: zero vector}", {u: zero_vec}),
        ("{f: h, u: uu, v: u}", {f: h, u: uu, v: u}),
        ("{h: f} (no mapped terminal occurs)", {h: f}),
    ]
    # images that are constant on each cell but differ across a facet (DG0 coefficient, cell volume), and one that is
    # globally constant: whatever the pass asks about an image (is_cellwise_constant ...) is answered by its tags
    k0 = terminal("k0", (), "Coefficient", cellwise_constant=True)
    vol = terminal("vol", (), "CellVolume", cellwise_constant=True)
    mappings += [("{f: k0 (DG0)}", {f: k0}), ("{f: k0*vol}", {f: uflmodel.m_product(k0, vol)}), ("{g: k0, f: vol}", {g: k0, f: vol})]
    extra = []
    extra.append(("f('+')*g('-')", corpus.mult(cm["PositiveRestricted"](f), cm["NegativeRestricted"](g))))
    lab = Obj("label", ufl_class="Label", ufl_operands=(), _ufl_is_terminal_=True)
    var = cm["Variable"](corpus.mult(f, g), lab)
    extra.append(("variable(f*g)*f", corpus.mult(var, f)))
    extra.append(("f('+') - f('-')   (jump)", uflmodel.m_sum(cm["PositiveRestricted"](f), uflmodel.m_product(uflmodel.m_scalar(-1), cm["NegativeRestricted"](f)))))
    extra.append(("(f*g)('+')*g('-')", corpus.mult(cm["PositiveRestricted"](corpus.mult(f, g)), cm["NegativeRestricted"](g))))
    extra.append(("(u[i]*v[i])('-') + f('+')", uflmodel.m_sum(cm["NegativeRestricted"](corpus.mult(corpus.idx(u, i), corpus.idx(v, i))), cm["PositiveRestricted"](f))))
    for desc, e in exprs + extra:
        for mdesc, mp in mappings:
            H = PassHarness(ctx, CLS)
            H.ip.overrides["as_ufl"] = lambda x: x
            H.ip.overrides["is_cellwise_constant"] = lambda o: bool(as_T(o).tags.get("cellwise_constant", False)) if isinstance(o, T) else False
            H.ip.overrides["is_globally_constant"] = lambda o: False
            H.ip.skip_functions |= {"MultiFunction.__init__"}
            try:
                H.init(dict(mp))
                got = H.apply(e)
            except LiftRaise as ex:
                rep.violation("C21-subst", cls, f"replace({desc}, {mdesc})", f"replace({desc}, {mdesc}) fails: {ex.what}")
                continue
            want = substitute(e, mp)
            ok, how, wit = equal_T(as_T(got), want, rng=ctx.rng, real_only=True)
            touched = any(ex_.op == "s" and ex_.args[0].split("@")[0] in {s.args[0] for k in mp for s in k.data.values()} for val in e.data.values() for ex_ in _symbols(val))
            if not ok:
                rep.violation("C21-subst", cls, f"replace({desc}, {mdesc})", f"replace({desc}, {mdesc}) does not evaluate to the expression with the mapped terminals substituted ({how}): {wit}", witness=wit)
            elif not touched and got is not e:
                rep.violation("C21-subst/unchanged", cls, f"replace({desc}, {mdesc})", "an expression without mapped terminals is not returned unchanged")
            else:
                rep.ok("C21-subst", cls, f"replace({desc}, {mdesc}): substituted exactly ({how}){'' if touched else '; returned unchanged'}")
    # shape-changing mappings are rejected
    for mdesc, mp in (("{f: u}", {f: u}), ("{u: A}", {u: A}), ("{u: f}", {u: f}), ("{f: h, u: A} (one valid, one shape-changing entry)", {f: h, u: A}), ("{u: A, f: h}", {u: A, f: h})):
        H = PassHarness(ctx, CLS)
        try:
            H.init(dict(mp))
            rep.violation("C21-shape", prog.lookup(cls, "__init__"), f"Replacer({mdesc})", f"a shape-changing mapping {mdesc} is accepted")
        except LiftRaise:
            rep.ok("C21-shape", prog.lookup(cls, "__init__"), f"mapping {mdesc} rejected")
    # derivatives: replace() interpreted on expressions with pending derivatives (sa/rules/c21_compose.py)
    tab = ctx.disp.mf_table(cls)
    from .c21_compose import compose_replace

    compose_replace(ctx, rep, substitute)
    # truthiness of looked-up images
    for hname, fi in cls.methods.items():
        for n in ast.walk(fi.node):
            if isinstance(n, ast.BoolOp) and isinstance(n.op, ast.Or) and any(isinstance(v_, ast.Call) and norm(v_.func).endswith("mapping.get") for v_ in n.values[:-1]):
                handled = [t for t, hd in tab.items() if hd is not None and hd.func is fi]
                exprs_handled = [t for t in handled if t in ctx.tm.types and not ctx.tm.types[t].cls.is_subclass_of("BaseFormOperator")]
                if exprs_handled:
                    rep.violation("C21-truth", (fi, n), norm(n), f"Replacer.{hname} uses the truthiness of the looked-up image (`{norm(n)}`) for plain expression types {exprs_handled[:4]}...: an image that is a Zero is treated as 'not mapped'")
                else:
                    rep.info("C21-truth", (fi, n), f"Replacer.{hname}: `{norm(n)}` (base form operators only)")
    rep.ok("C21-truth", cls, "no expression handler branches on the truthiness of an image")
    rep.require_min("C21-subst", 150)
    rep.require_min("C21-shape", 3)
    rep.explanation = (
        f"Replacer was lifted as a whole pass on {len(exprs) + len(extra)} structured expressions x {len(mappings)} mappings (terminal, compound and "
        "zero images, simultaneous mappings, mappings that do not apply) and the result's meaning compared with the substituted "
        "meaning; shape guard, derivative handling and truthiness-of-image idioms checked."
    )
    rep.assumptions = ["images without free indices", "traversal driver model of sa/passlift.py", "dict lookup of terminals by object identity (UFL: structural equality of terminals)"]
    from ..memokey import memo_rule

    return rep


def _symbols(ex):
    seen, todo = set(), [ex]
    while todo:
        x = todo.pop()
        if x in seen:
            continue
        seen.add(x)
        if x.op in ("s", "cs"):
            yield sym.sym(x.args[0]) if x.op == "cs" else x
        for a in x.args:
            if isinstance(a, sym.Ex):
                todo.append(a)
