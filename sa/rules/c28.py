"""C28 -- base-form algebra has the semantics of the linear maps it denotes.

The base-form classes (Matrix, Cofunction, Coefficient, Argument, ZeroBaseForm, FormSum, Action, Adjoint) are
instantiated by interpreting their own constructors (`__new__`, `__init__`, the BaseForm operators `+ - *
unary -`) in the form-level world of sa/formlift.py.  Every object is given a *denotation* on a finite-
dimensional model - a tensor of terms with one axis per argument, over spaces of dimension 2 (V) and 3 (U):

    Matrix(R, C)      a symbolic dim(R) x dim(C) matrix           Cofunction in S*    a symbolic vector over S
    Coefficient in S  a symbolic vector over S (operand of an action only)
    Form(v in S, ...) a variational form with one cell integral whose integrand is an opaque expression
                      coefficient * <name>: a symbolic tensor with one axis per argument; Form / Integral
                      arithmetic (scalar * integrand, -integrand, concatenation of integrals) is interpreted
                      from source, FormSum folds its variational components into one Form
    ZeroBaseForm(args) the zero tensor with one axis per argument
    FormSum           sum of weight * denotation(component)        Adjoint(A)          the transposed matrix
    Action(A, b)      contraction of the last axis of A with the first axis of b

  C28-value   for every well-typed composition of depth <= 2 (3 in the thorough tier) of adjoint / negation /
              scaling / sum / difference / action over the atoms, the denotation of the object that the
              constructors actually build (after zero elimination, distribution over sums, adjoint involution,
              flattening of nested sums) equals the denotation of the requested operation computed from the
              operands' denotations - exact identities in the entries.
  C28-args    the arguments that the built object reports (its own `_analyze_form_arguments`, interpreted from
              source) live in the spaces of the axes of that denotation, in order, with strictly increasing numbers
              (a contraction keeps the numbers of the surviving arguments; it must never produce duplicates or a
              reversed order).
  C28-map     map_integrands interpreted from source on the FormSum objects of the family with component
              functions that keep, replace or annihilate individual components: the result denotes
              sum of weight_k * denotation(function(component_k)).
"""

from __future__ import annotations

import ast
import itertools

from .. import sym, uflsem
from ..formlift import FormWorld
from ..lift import LiftRaise, Obj, Unsupported
from ..model import AnalysisError
from ..report import Report
from ..uflsem import T, equal_T


class Model:
    def __init__(self, ctx):
        self.ctx = ctx
        self.W = W = FormWorld(ctx)
        self.ip = W.ip
        m = W.mesh(0)
        self.V = W.space(m, W.element("P", 1))
        self.U = W.space(m, W.element("P", 2))
        self.dims = {}
        self.atoms = {}
        self.den_atoms = {}
        self.form_names = {}
        self._den_stack = set()
        self.count = 0
        self.install_integrand_arithmetic()

    def dim(self, space):
        """2 for P1 spaces (and their duals), 3 for P2 ones: by the element the lifted space holds"""
        el = self.W.call_method(space, "ufl_element")
        r = self.ip.py_repr(el)
        return 2 if "P1" in r else 3

    # ---- atoms ------------------------------------------------------------------------------------------
    def matrix(self, name, R, C):
        o = self.W.new("ufl.matrix.Matrix", R, C)
        self.den_atoms[id(o)] = (o, T.symbolic(name, (self.dim(R), self.dim(C))), (R, C))
        return o

    def matrix_on_dual(self, name, R, C):
        """a two-form whose trial argument lives in the dual space C*: it can act on cofunctions of C* (and on weighted
        sums of them)"""
        Cd = self.W.call_method(C, "dual")
        o = self.W.new("ufl.matrix.Matrix", R, Cd)
        self.den_atoms[id(o)] = (o, T.symbolic(name, (self.dim(R), self.dim(C))), (R, Cd))
        return o

    def contractible(self, a, b):
        """the last axis of a left operand and the first axis of a right operand range over the same basis: the
        same space, or a space and its dual (which of the two the language accepts is its typing rule)"""
        if self.same_space(a, b):
            return True
        for x, y in ((a, b), (b, a)):
            try:
                if self.same_space(self.W.call_method(x, "dual"), y):
                    return True
            except (LiftRaise, Unsupported):
                pass
        return False

    def cofunction(self, name, S):
        o = self.W.new("ufl.coefficient.Cofunction", self.W.call_method(S, "dual"))
        self.den_atoms[id(o)] = (o, T.symbolic(name, (self.dim(S),)), (S,))
        return o

    def coefficient(self, name, S):
        self.count += 1
        o = self.W.coefficient(S, 100 + self.count)
        self.den_atoms[id(o)] = (o, T.symbolic(name, (self.dim(S),)), (S,))
        return o

    def form(self, name, *spaces):
        """a variational Form (one cell integral) with one argument per space: its integrand is an opaque
        expression  coefficient * <name>  that knows its arguments; scalar * integrand and -integrand (all that
        Form / Integral arithmetic does to an integrand) scale the coefficient"""
        args = tuple(self.W.argument(S, k) for k, S in enumerate(spaces))
        itg = self.integrand(((1, name),), args)
        f = self.W.form([self.W.integral(itg, "cell", self.W.mesh(0))])
        self.form_names[name] = (tuple(self.dim(S) for S in spaces), spaces)
        return f

    def integrand(self, terms, args):
        o = Obj("integrand", __class__=self.W.K("ufl.algebra.Product"), ufl_operands=(), ufl_shape=(), ufl_free_indices=(), ufl_index_dimensions=(), _terms=tuple(terms), _args=tuple(args), _hash=None)
        o.attrs["__repr__"] = "integrand(" + " + ".join(f"{c}*{n}" for c, n in terms) + ")"
        o.attrs["__str__"] = o.attrs["__repr__"]
        return o

    def install_integrand_arithmetic(self):
        ip = self.ip

        def is_itg(x):
            return isinstance(x, Obj) and x.kind == "integrand"

        def scal(x):
            return isinstance(x, (int, float)) and not isinstance(x, bool) or hasattr(x, "numerator")

        prev_b = getattr(ip, "binop_hook", None)

        def binop_hook(op, a, b, node):
            if op is ast.Mult and (is_itg(a) and scal(b) or is_itg(b) and scal(a)):
                i, k = (a, b) if is_itg(a) else (b, a)
                return self.integrand(tuple((k * c, n) for c, n in i.attrs["_terms"]), i.attrs["_args"])
            return prev_b(op, a, b, node) if prev_b else NotImplemented

        ip.binop_hook = binop_hook
        prev_u = getattr(ip, "unop_hook", None)

        def unop_hook(op, a, node):
            if op is ast.USub and is_itg(a):
                return self.integrand(tuple((-c, n) for c, n in a.attrs["_terms"]), a.attrs["_args"])
            return prev_u(op, a, node) if prev_u else NotImplemented

        ip.unop_hook = unop_hook

        def extract_arguments_and_coefficients(form):
            args = []
            for itg in self.W.call_method(form, "integrals"):
                for a in self.W.call_method(itg, "integrand").attrs["_args"]:
                    if not any(a is x for x in args):
                        args.append(a)
            return sorted(args, key=lambda a: self.W.call_method(a, "number")), []

        ip.overrides["extract_arguments_and_coefficients"] = extract_arguments_and_coefficients
        ip.overrides["extract_arguments"] = lambda form: extract_arguments_and_coefficients(form)[0]
        ip.overrides["extract_terminals_with_domain"] = lambda form: (extract_arguments_and_coefficients(form)[0], [], [])

    def identity(self, S, co=False):
        """Argument in S (resp. Coargument in S*): the identity on S, as an operand of an action"""
        o = self.W.new("ufl.argument.Coargument", self.W.call_method(S, "dual"), 0) if co else self.W.argument(S, 1)
        n = self.dim(S)
        self.den_atoms[id(o)] = (o, T((n, n), (), (), {((i, j), ()): (sym.ONE if i == j else sym.ZERO) for i in range(n) for j in range(n)}), (S, S))
        return o

    def zero(self, *spaces):
        args = tuple(self.W.argument(S, k) for k, S in enumerate(spaces))
        return self.W.new("ufl.form.ZeroBaseForm", args)

    # ---- denotation of whatever the constructors built ----------------------------------------------------
    def cls(self, o):
        k = self.ip.obj_class(o)
        return k.name if k is not None else None

    def den(self, o):
        """-> (T, spaces)"""
        if isinstance(o, Obj):
            if id(o) in self._den_stack:
                raise LiftRaise(f"ValueError: the object built contains itself ({self.cls(o)} reached again while evaluating its own operands): an operand was re-initialised in place")
            self._den_stack.add(id(o))
            try:
                return self._den(o)
            finally:
                self._den_stack.discard(id(o))
        return self._den(o)

    def _den(self, o):
        if isinstance(o, int) and not isinstance(o, bool) and o == 0:
            return None
        if id(o) in self.den_atoms:
            _, t, sp = self.den_atoms[id(o)]
            return t, sp
        c = self.cls(o)
        A = o.attrs if isinstance(o, Obj) else {}
        if c == "ZeroBaseForm":
            sp = tuple(self.W.call_method(a, "ufl_function_space") for a in self.W.call_method(o, "arguments"))
            return T.zero(tuple(self.dim(s) for s in sp)), sp
        if c == "Form":
            acc, sp0 = None, None
            for itg in self.W.call_method(o, "integrals"):
                i = self.W.call_method(itg, "integrand")
                for coef, name in i.attrs["_terms"]:
                    shape, sp = self.form_names[name]
                    t = T.symbolic(name, shape).map(lambda v, coef=coef: sym.mul(sym.lift(coef), v))
                    acc = t if acc is None else uflsem.t_add(acc, t)
                    sp0 = sp0 or sp
            if acc is None:
                raise Unsupported("denotation of an empty Form")
            return acc, sp0
        if c == "FormSum":
            acc, sp0 = None, None
            for comp, w in zip(self.W.call_method(o, "components"), self.W.call_method(o, "weights")):
                t, sp = self.den(comp)
                t = t.map(lambda v, w=w: sym.mul(sym.lift(w), v))
                acc = t if acc is None else uflsem.t_add(acc, t)
                sp0 = sp0 or sp
            return acc, sp0
        if c == "Adjoint":
            t, sp = self.den(self.W.call_method(o, "form"))
            if len(t.shape) != 2:
                raise LiftRaise("ValueError: Adjoint of something that is not a 2-form was built")
            return T((t.shape[1], t.shape[0]), (), (), {((j, i), ()): v for ((i, j), _), v in t.data.items()}), (sp[1], sp[0])
        if c == "Action":
            return self.contract(self.den(self.W.call_method(o, "left")), self.den(self.W.call_method(o, "right")))
        if c in ("Argument", "Coargument"):
            raise Unsupported("an argument as a denotation")
        raise Unsupported(f"denotation of {c}")

    def contract(self, a, b):
        (ta, sa), (tb, sb) = a, b
        if not ta.shape or not tb.shape or ta.shape[-1] != tb.shape[0]:
            raise LiftRaise("ValueError: action of incompatible objects")
        shape = ta.shape[:-1] + tb.shape[1:]
        data = {}
        for ca in itertools.product(*[range(d) for d in ta.shape[:-1]]):
            for cb in itertools.product(*[range(d) for d in tb.shape[1:]]):
                acc = sym.ZERO
                for k in range(tb.shape[0]):
                    acc = sym.add(acc, sym.mul(ta.get(ca + (k,)), tb.get((k,) + cb)))
                data[(ca + cb, ())] = acc
        return T(shape, (), (), data), tuple(sa[:-1]) + tuple(sb[1:])

    def same_space(self, a, b):
        return a is b or self.ip.obj_eq(a, b)


def run(ctx) -> Report:
    rep = Report("C28")
    prog = ctx.prog
    # the memo-key clause first: it needs no interpretation, and what it finds is reported even if a later clause cannot follow the code
    from ..memokey import check_memo_keys, memo_rule  # noqa: F401
    memo_rule(ctx, rep, "C28-key", ["ufl.action", "ufl.adjoint", "ufl.form", "ufl.algorithms.map_integrands"])
    Mo = Model(ctx)
    W, ip = Mo.W, Mo.ip
    V, U = Mo.V, Mo.U
    atoms = {
        "M(VxU)": Mo.matrix("M", V, U),
        "N(UxV)": Mo.matrix("N", U, V),
        "S(VxV)": Mo.matrix("S", V, V),
        "c(V*)": Mo.cofunction("c", V),
        "c2(V*)": Mo.cofunction("c2", V),
        "d(U*)": Mo.cofunction("d", U),
        "D(UxV*)": Mo.matrix_on_dual("D", U, V),
        "0(V)": Mo.zero(V),
        "0(VxU)": Mo.zero(V, U),
        # variational forms (integrals): sums of them are folded into one Form by FormSum
        "F(V)": Mo.form("F", V),
        "G(V)": Mo.form("G", V),
        "a(VxU)": Mo.form("a", V, U),
    }
    vectors = {"u(V)": Mo.coefficient("u", V), "w(U)": Mo.coefficient("w", U)}

    # sums of coefficients as expressions (ufl Sum nodes): Action distributes over them on either side
    def vector_sum(a, b, S):
        o = W.new("Sum", a, b)
        Mo.den_atoms[id(o)] = (o, uflsem.t_add(Mo.den(a)[0], Mo.den(b)[0]), (S,))
        return o

    vectors["(u + u2)(V)"] = vector_sum(vectors["u(V)"], Mo.coefficient("u2", V), V)
    vectors["(w + w2)(U)"] = vector_sum(vectors["w(U)"], Mo.coefficient("w2", U), U)
    identities_right = {"Argument(V)": Mo.identity(V), "Argument(U)": Mo.identity(U)}
    identities_left = {"Coargument(V*)": Mo.identity(V, co=True), "Coargument(U*)": Mo.identity(U, co=True)}
    where = {n: prog.lookup(prog.get_class(q), "__new__") for n, q in (("Action", "ufl.action.Action"), ("Adjoint", "ufl.adjoint.Adjoint"), ("FormSum", "ufl.form.FormSum"))}
    where_ops = prog.get_class("ufl.form.BaseForm")

    # ---- the family: (description, build() -> object, expected denotation, is base form) -----------------------
    level = [(n, (lambda o=o: o), Mo.den(o)) for n, o in atoms.items()]
    vec = [(n, (lambda o=o: o), Mo.den(o)) for n, o in vectors.items()]

    def spaces_equal(a, b):
        return len(a) == len(b) and all(Mo.same_space(x, y) for x, y in zip(a, b))

    def compose(items, vecs):
        out = []
        for n, b, (t, sp) in items:
            if len(sp) == 2:
                out.append((f"adjoint({n})", "Adjoint", (lambda b=b: W.new("ufl.adjoint.Adjoint", b())), (T((t.shape[1], t.shape[0]), (), (), {((j, i), ()): v for ((i, j), _), v in t.data.items()}), (sp[1], sp[0]))))
            out.append((f"-{n}", "ops", (lambda b=b: ip.e_UnaryOp(ast.parse("-x", mode="eval").body, _env(ip, x=b()), prog.module("ufl.form"))), (t.map(sym.neg), sp)))
            out.append((f"3*{n}", "ops", (lambda b=b: ip.binop(ast.Mult, 3, b())), (t.map(lambda v: sym.mul(sym.const(3), v)), sp)))
        for (n1, b1, (t1, s1)), (n2, b2, (t2, s2)) in itertools.product(items, repeat=2):
            if spaces_equal(s1, s2):
                out.append((f"({n1} + {n2})", "ops", (lambda b1=b1, b2=b2: ip.binop(ast.Add, b1(), b2())), (uflsem.t_add(t1, t2), s1)))
                out.append((f"({n1} - {n2})", "ops", (lambda b1=b1, b2=b2: ip.binop(ast.Sub, b1(), b2())), (uflsem.t_add(t1, t2.map(sym.neg)), s1)))
                out.append((f"FormSum(({n1}, 2), ({n2}, -1))", "FormSum", (lambda b1=b1, b2=b2: W.new("ufl.form.FormSum", (b1(), 2), (b2(), -1))), (uflsem.t_add(t1.map(lambda v: sym.mul(sym.const(2), v)), t2.map(sym.neg)), s1)))
            if s1 and s2 and Mo.contractible(s1[-1], s2[0]):
                out.append((f"action({n1}, {n2})", "Action", (lambda b1=b1, b2=b2: W.new("ufl.action.Action", b1(), b2())), Mo.contract((t1, s1), (t2, s2))))
        for (n1, b1, (t1, s1)), (n2, b2, (t2, s2)) in itertools.product(items, vecs):
            if s1 and Mo.contractible(s1[-1], s2[0]):
                out.append((f"action({n1}, {n2})", "Action", (lambda b1=b1, b2=b2: W.new("ufl.action.Action", b1(), b2())), Mo.contract((t1, s1), (t2, s2))))
            if s1 and len(s1) == 1 and "+" in n2 and Mo.contractible(s2[0], s1[0]):
                # a sum of coefficients on the left of a one-form on the dual space
                out.append((f"action({n2}, {n1})", "Action", (lambda b1=b1, b2=b2: W.new("ufl.action.Action", b2(), b1())), Mo.contract((t2, s2), (t1, s1))))
        out += with_identities(items)
        return out

    def with_identities(items):
        """identity arguments: action(X, Argument in the space of X's last argument) = X = action(Coargument, X)"""
        out = []
        for n1, b1, (t1, s1) in items:
            for n2, o2 in identities_right.items():
                if s1 and Mo.same_space(s1[-1], Mo.den(o2)[1][0]):
                    out.append((f"action({n1}, {n2})", "Action", (lambda b1=b1, o2=o2: W.new("ufl.action.Action", b1(), o2)), (t1, s1)))
            for n2, o2 in identities_left.items():
                if s1 and Mo.same_space(s1[0], Mo.den(o2)[1][0]):
                    out.append((f"action({n2}, {n1})", "Action", (lambda b1=b1, o2=o2: W.new("ufl.action.Action", o2, b1())), (t1, s1)))
        return out

    def _env(ip_, **kw):
        from ..lift import Env

        e = Env()
        e.vars.update(kw)
        return e

    depth = 3 if ctx.thorough() else 2
    family = []
    cur = level
    for d in range(depth):
        nxt = compose(cur if d == 0 else cur + level, vec)
        family += [x for x in nxt]
        # next level composes over what was built at this level (bounded)
        if d == 0:
            # every first-level composition (not only the ones composed further) under the identity arguments
            family += with_identities([(n, b, den) for n, _, b, den in nxt if den[1] and "Argument(" not in n and "Coargument(" not in n])
        cur = [(n, b, den) for n, _, b, den in nxt if den[1]][: 40 if d == 0 else 25]
    n_ok = 0
    n_rejected = 0
    sums = []
    seen = set()
    for n, kind, build, (want, want_sp) in family:
        if n in seen:
            continue
        seen.add(n)
        w = where.get(kind, where_ops)
        try:
            r = build()
        except LiftRaise as ex:
            if "TypeError" in ex.what or "Can only take Adjoint of a 2-form" in ex.what:
                # the language's own typing rule (the last argument of the left operand and the first argument of
                # the right operand must live in dual spaces): a rejection never changes a map
                n_rejected += 1
                continue
            rep.violation("C28-value", w, n, f"{n}: construction raises {ex.what[:140]} although the composition is well typed")
            continue
        if isinstance(r, int) and r == 0:
            got = (T.zero(want.shape), want_sp)
        else:
            try:
                got = Mo.den(r)
            except Unsupported as ex:
                raise AnalysisError(f"{n}: {ex} ({ip.py_repr(r)[:200]})")
            except LiftRaise as ex:
                rep.violation("C28-value", w, n, f"{n}: the object built is ill-formed: {ex.what[:140]}")
                continue
        if got[0].shape != want.shape:
            rep.violation("C28-value", w, n, f"{n}: the object built ({ip.py_repr(r)[:80]}) is a tensor of shape {got[0].shape}, the requested operation one of shape {want.shape}")
            continue
        ok, how, wit = equal_T(got[0], want, rng=ctx.rng)
        if not ok:
            rep.violation("C28-value", w, n, f"{n}: the object built ({ip.py_repr(r)[:80]}) does not denote the requested linear map ({how}): {wit}", witness=wit)
            continue
        rep.ok("C28-value", w, f"{n}: built {Mo.cls(r) or r!r}; denotes the requested map ({how})")
        n_ok += 1
        # ---- arguments ----
        if isinstance(r, Obj) and Mo.cls(r) is not None:
            try:
                args = W.call_method(r, "arguments")
            except LiftRaise as ex:
                rep.violation("C28-args", w, n, f"{n}: arguments() of the object built raises {ex.what[:120]}")
                continue
            nums = [W.call_method(a, "number") for a in args]
            sps = [W.call_method(a, "ufl_function_space") for a in args]
            if any(a >= b for a, b in zip(nums, nums[1:])) or not spaces_equal(sps, want_sp):
                rep.violation("C28-args", w, n, f"{n}: the object built reports arguments numbered {nums} in spaces {[ip.py_repr(s)[-24:] for s in sps]}; the map it denotes has {len(want_sp)} argument(s) in {[ip.py_repr(s)[-24:] for s in want_sp]} (numbers must increase strictly along the axes)")
            else:
                rep.ok("C28-args", w, f"{n}: {len(args)} argument(s) in the spaces of the axes of the map, numbers strictly increasing")
            if Mo.cls(r) == "FormSum":
                sums.append((n, r))
    # ---- map_integrands on sums -----------------------------------------------------------------------------
    mi = prog.get_function("ufl.algorithms.map_integrands", "map_integrands")
    c, c2, d_ = atoms["c(V*)"], atoms["c2(V*)"], atoms["d(U*)"]
    n_map = 0
    # sums with several components first (weights that can be misaligned), distinct weights preferred; a few single-component ones
    # (components that map_integrands maps as a whole: it descends into Adjoint / Action / nested sums)
    comps_of = lambda fs_: list(W.call_method(fs_, "components"))  # noqa: E731
    weights_of = lambda fs_: list(W.call_method(fs_, "weights"))  # noqa: E731
    whole = lambda fs_: all(Mo.cls(c_) in ("Matrix", "Cofunction", "Form", "ZeroBaseForm") for c_ in comps_of(fs_))  # noqa: E731
    sums = [x for x in sums if whole(x[1])]
    multi = [x for x in sums if len(comps_of(x[1])) >= 2 and len({id(c_) for c_ in comps_of(x[1])}) == len(comps_of(x[1]))]
    multi.sort(key=lambda x: (-len(set(map(repr, weights_of(x[1])))), -len(comps_of(x[1]))))
    sums = multi[:40] + [x for x in sums if len(comps_of(x[1])) < 2][:6]
    if len(multi) < 10:
        raise AnalysisError(f"only {len(multi)} sums with several components in the family")
    for n, fs in sums:
        comps = comps_of(fs)
        for mode in ("identity", "annihilate first", "annihilate last", "annihilate all but last", "swap atoms"):
            def fn(x, mode=mode, comps=comps):
                if isinstance(x, Obj) and x.kind == "integrand":
                    return x  # a variational component is mapped integrand by integrand: kept
                k = next((i for i, cc in enumerate(comps) if cc is x), None)
                t, sp = Mo.den(x)
                if mode == "annihilate first" and k == 0 or mode == "annihilate last" and k == len(comps) - 1 or mode == "annihilate all but last" and k is not None and k < len(comps) - 1:
                    return W.new("ufl.form.ZeroBaseForm", tuple(W.argument(S, i) for i, S in enumerate(sp)))
                if mode == "swap atoms" and x is c:
                    return c2
                return x

            try:
                want = None
                for comp, wgt in zip(comps, weights_of(fs)):
                    t, sp = Mo.den(comp if Mo.cls(comp) == "Form" else fn(comp))
                    t = t.map(lambda v, wgt=wgt: sym.mul(sym.lift(wgt), v))
                    want = t if want is None else uflsem.t_add(want, t)
                r = ip.call_function(mi, [fn, fs], {})
                got = T.zero(want.shape) if isinstance(r, int) and r == 0 else Mo.den(r)[0]
            except LiftRaise as ex:
                rep.violation("C28-map", mi, f"map_integrands({mode}, {n})", f"map_integrands({mode}) on {n} raises {ex.what[:120]}")
                continue
            n_map += 1
            ok, how, wit = equal_T(got, want, rng=ctx.rng) if got.shape == want.shape else (False, "shape", f"{got.shape} != {want.shape}")
            if ok:
                rep.ok("C28-map", mi, f"map_integrands({mode}) on {n}: weights stay with their components")
            else:
                rep.violation("C28-map", mi, f"map_integrands({mode}, {n})", f"map_integrands with the component function '{mode}' on {n} does not give the weighted sum of the mapped components ({how}): {wit}", witness=wit)
    if n_ok < 150 or n_map < 20:
        raise AnalysisError(f"family too small: {n_ok} compositions, {n_map} map_integrands cases")
    rep.require_min("C28-value", 150)
    rep.require_min("C28-args", 100)
    rep.require_min("C28-map", 20)
    rep.counts.update(rejected_by_typing=n_rejected, compositions=n_ok, map_cases=n_map, depth=depth)
    rep.explanation = (
        f"{n_ok} well-typed compositions (depth <= {depth}) of adjoint / negation / scaling / sum / difference / FormSum / action over matrices, "
        "cofunctions, variational forms, coefficients and zero forms were built by interpreting the constructors and BaseForm operators from source; the denotation "
        "of each object built (a tensor over spaces of dimension 2 and 3) equals the denotation of the requested operation, and the arguments it "
        f"reports match the axes of that tensor; map_integrands interpreted on {len(sums)} sums x 5 component functions."
    )
    rep.assumptions = [
        "the finite-dimensional model: one symbolic tensor per atom; Action contracts the last axis of the left operand with the first axis of the right one",
        "variational Forms enter as one opaque integrand per form (coefficient * name); Interpolate / ExternalOperator operands and derivatives of base forms are not in the family",
    ]
    from ..memokey import memo_rule

    return rep
