"""C04 -- diff() with respect to variables computes partial derivatives.

C04-table  dispatch table of VariableRuleset (T-EXH, arity, unjustified zero rules).
C04-calc   every generic operator rule resolved through VariableRuleset is lifted for variable shapes
           (), (2,), (2,2) and compared with the formal derivative (chain rule building blocks,
           result shape f.shape + v.shape).
C04-id     the ruleset object is produced by lifting VariableRuleset.__init__ for scalar / vector /
           matrix / rank-3 variables; _make_identity is compared with the Kronecker identity of rank
           2*rank(v); the terminal rules are lifted: d v/d v = Id exactly when the node *is* the
           differentiation variable (same label for Variable nodes even if the wrapped expression has
           been rewritten; same coefficient for Coefficients), everything else 0 / chain rule.
C04-shape  VariableDerivative reports shape f.shape + v.shape and diff() rejects variables with free
           indices (AST facts on differentiation.py / operators.py).
"""

from __future__ import annotations

import ast
import itertools

from .. import sym, uflmodel, uflsem
from ..adlift import DT
from ..lift import LiftRaise, Obj
from ..memokey import check_memo_keys
from ..model import AnalysisError, norm
from ..report import Report
from ..uflmodel import MI, node, terminal
from ..uflsem import T, as_T, equal_T
from .c02 import Harness, calc_instances, check_tables, cmp

MOD = "ufl.algorithms.apply_derivatives"


def kron_identity(shape):
    data = {}
    for a in itertools.product(*[range(d) for d in shape]):
        for b in itertools.product(*[range(d) for d in shape]):
            data[(a + b, ())] = sym.ONE if a == b else sym.ZERO
    return T(tuple(shape) + tuple(shape), (), (), data)


def variable_node(expr: T, label) -> T:
    v = node(expr, "Variable", (expr, label), label=lambda: label)
    v.tags["key"] = ("Variable", id(label), expr.tags.get("key", id(expr)))
    return v


def make(ctx, var):
    H = Harness(ctx, "VariableRuleset", ())
    init = ctx.prog.lookup(H.cls, "__init__")
    H.selfobj.attrs.pop("_var_shape", None)
    prev = H.ip.isinstance_hook

    def hook(x, cls_):
        if isinstance(x, Obj) and x.kind == "label":
            return getattr(cls_, "name", None) == "Label"
        return prev(x, cls_)

    H.ip.isinstance_hook = hook
    H.ip.call_function(init, [var], {}, self_obj=H.selfobj)
    H.var_shape = tuple(H.selfobj.attrs["_var_shape"])
    return H


def run(ctx) -> Report:
    rep = Report("C04")
    # the memo-key clause first: it needs no interpretation, and what it finds is reported even if a later clause cannot follow the code
    from ..memokey import check_memo_keys, memo_rule  # noqa: F401
    check_memo_keys(ctx, rep, "C04-key", [MOD])
    check_tables(ctx, rep, "C04", ["VariableRuleset"])
    calc_instances(ctx, rep, "VariableRuleset", "C04", var_shapes=((), (2,), (2, 2)))
    rule = "C04-id"
    prog = ctx.prog
    vcls = prog.get_class(f"{MOD}.VariableRuleset")
    mk = prog.lookup(vcls, "_make_identity")
    # _make_identity
    for sh in [(), (2,), (3,), (2, 3), (2, 2, 2)] + ([(2, 3, 2)] if ctx.thorough() else []):
        H = Harness(ctx, "VariableRuleset", ())
        try:
            got = H.ip.call_function(mk, [tuple(sh)], {}, self_obj=H.selfobj)
        except LiftRaise as e:
            rep.violation(rule + "/identity", mk, f"_make_identity({sh})", f"raises: {e.what}")
            continue
        ok, how, wit = equal_T(as_T(got), kron_identity(sh), rng=ctx.rng)
        if ok:
            rep.ok(rule + "/identity", mk, f"_make_identity({sh}) is the rank-{2 * len(sh)} Kronecker identity ({how})")
        else:
            rep.violation(rule + "/identity", mk, f"_make_identity({sh})", f"dv/dv for a variable of shape {sh} is not the identity: {wit}", witness=wit)

    for sh in [(), (2,), (2, 2)]:
        Id = kron_identity(sh)
        zero = lambda osh: T.zero(tuple(osh) + tuple(sh))  # noqa: E731
        # ---- variable is a Variable node -----------------------------------------
        e = terminal("e", sh, "Coefficient")
        L = Obj("label", name="L")
        L2 = Obj("label", name="L2")
        v = variable_node(e, L)
        H = make(ctx, v)
        if H.var_shape != tuple(sh):
            rep.violation(rule + "/init", prog.lookup(vcls, "__init__"), "VariableRuleset._var_shape", f"variable of shape {sh} gives _var_shape {H.var_shape}")
            continue
        ip = H.ip
        hv = H.handler("Variable")

        def call(h, args):
            try:
                return H.invoke(h, args[0], args[1:])
            except LiftRaise as ex:
                return ex

        def expect(h, args, want, what):
            got = call(h, args)
            if isinstance(got, LiftRaise):
                rep.violation(rule + "/" + h.via, h.func, what, f"{what}: raises {got.what}")
                return
            cmp(rep, rule + "/" + h.via, h, f"{what} [variable shape {sh}]", got, want, ctx)

        df = terminal("df", sh + sh)
        # the same variable
        expect(hv, [v, df, L], Id, "d v / d v for the differentiation variable itself")
        # same label, wrapped expression rewritten by derivative expansion (different object)
        e2 = terminal("e_expanded", sh, "Coefficient")
        v_rewritten = variable_node(e2, L)
        expect(hv, [v_rewritten, df, L], Id, "d v / d v when the variable's expression was rewritten (same label)")
        # another variable: chain rule through its expression
        other = variable_node(e, L2)
        expect(hv, [other, df, L2], df, "another variable (different label): derivative of its expression")
        # coefficient terminals are independent of a Variable
        hc = H.handler("Coefficient")
        expect(hc, [e], zero(sh), "coefficient wrapped by the variable is itself independent of it")
        u = terminal("u", (2,), "Coefficient")
        expect(hc, [u], zero((2,)), "unrelated coefficient")
        expect(H.handler("Argument"), [terminal("a", (2,), "Argument")], zero((2,)), "argument")
        expect(H.handler("SpatialCoordinate"), [terminal("x", (2,), "SpatialCoordinate")], zero((2,)), "geometric quantity")
        gu = node(uflmodel.grad_named(u, 2, "d"), "Grad", (u,))
        expect(H.handler("Grad"), [gu], zero((2, 2)), "grad of a terminal")
        s = node(T.symbolic("s", (2,)), "Sum", (u, u))
        gs = node(uflmodel.grad_named(s, 2, "d"), "Grad", (s,))
        got = call(H.handler("Grad"), [gs])
        if isinstance(got, LiftRaise):
            rep.ok(rule + "/Grad", H.handler("Grad").func, "grad of a non-terminal is rejected")
        else:
            rep.violation(rule + "/Grad", H.handler("Grad").func, "grad(non-terminal) w.r.t. a variable", "grad of a non-terminal is silently treated as independent of the variable")
        # ---- variable is a Coefficient ----------------------------------------------
        w = terminal("w", sh, "Coefficient")
        H = make(ctx, w)
        ip = H.ip
        hc = H.handler("Coefficient")
        expect(hc, [w], Id, "d w / d w for the coefficient itself")
        w_other = terminal("w2", sh, "Coefficient")
        expect(hc, [w_other], zero(sh), "another coefficient of the same shape")
        hv = H.handler("Variable")
        vv = variable_node(w, L)
        expect(hv, [vv, df, L], df, "variable(w) differentiated w.r.t. the coefficient w: chain rule")
        # reference value
        el_id = Obj("element", pullback=Obj("pullback", is_identity=True))
        el_pi = Obj("element", pullback=Obj("pullback", is_identity=False))
        for el, want_ok in ((el_id, True), (el_pi, False)):
            w.tags["ufl_element"] = lambda el=el: el
            rv = node(terminal("rv_w", sh, "ReferenceValue"), "ReferenceValue", (w,))
            got = call(H.handler("ReferenceValue"), [rv])
            if want_ok:
                if isinstance(got, LiftRaise):
                    rep.violation(rule + "/ReferenceValue", H.handler("ReferenceValue").func, "reference_value(w), identity pullback", f"raises {got.what}")
                else:
                    cmp(rep, rule + "/ReferenceValue", H.handler("ReferenceValue"), f"d rv(w)/d w with identity pullback [shape {sh}]", got, Id, ctx)
            else:
                if isinstance(got, LiftRaise):
                    rep.ok(rule + "/ReferenceValue", H.handler("ReferenceValue").func, "mapped element: raises (derivative not representable)")
                else:
                    rep.violation(rule + "/ReferenceValue", H.handler("ReferenceValue").func, "d rv(w)/d w with a non-identity pullback", "returns a value although the derivative is not the identity for mapped elements")
        rv_u = node(terminal("rv_u", (2,), "ReferenceValue"), "ReferenceValue", (u,))
        expect(H.handler("ReferenceValue"), [rv_u], zero((2,)), "reference value of another coefficient")
    # ---- free indices in the variable are rejected ---------------------------------
    F = terminal("F", (2,), "Coefficient")
    i = uflmodel.new_index()
    vi = uflmodel.m_indexed(F, MI((i,)))
    H = Harness(ctx, "VariableRuleset", ())
    init = prog.lookup(vcls, "__init__")
    try:
        H.ip.call_function(init, [vi], {}, self_obj=H.selfobj)
        rep.violation(rule + "/init", init, "variable with free indices", "VariableRuleset accepts a differentiation variable with free indices")
    except LiftRaise:
        rep.ok(rule + "/init", init, "variable with free indices is rejected")

    # ---- shape of VariableDerivative ---------------------------------------------------
    vd = prog.get_class("ufl.differentiation.VariableDerivative")
    vinit = prog.lookup(vd, "__init__")
    vnew = prog.lookup(vd, "__new__")
    if vinit is None or vnew is None:
        raise AnalysisError("VariableDerivative.__init__/__new__ not found")
    for fsh, vsh in (((), ()), ((2,), ()), ((), (3,)), ((2,), (3,)), ((2, 2), (3, 2))):
        H = Harness(ctx, "VariableRuleset", ())
        f = node(T.symbolic("f", fsh), "Sum", ())
        L = Obj("label")
        v = variable_node(terminal("e", vsh, "Coefficient"), L)
        so = Obj("VariableDerivative", __class__=vd)
        try:
            H.ip.call_function(vinit, [f, v], {}, self_obj=so)
        except LiftRaise as e:
            rep.violation("C04-shape", vinit, f"VariableDerivative.__init__ f{fsh} v{vsh}", f"raises {e.what}")
            continue
        got = tuple(so.attrs.get("ufl_shape", ("?",)))
        if got == fsh + vsh and tuple(so.attrs.get("ufl_free_indices", ("?",))) == ():
            rep.ok("C04-shape", vinit, f"diff(f{fsh}, v{vsh}) has shape {got}")
        else:
            rep.violation("C04-shape", vinit, f"VariableDerivative.__init__ f{fsh} v{vsh}", f"diff of an expression of shape {fsh} w.r.t. a variable of shape {vsh} reports shape {got}, expected {fsh + vsh}")
        # simplification in __new__: terminal different from the variable -> zero of that shape
        ft = terminal("g", fsh, "Coefficient")
        try:
            r = H.ip.call_function(vnew, [vd, ft, v], {})
        except LiftRaise as e:
            rep.violation("C04-shape", vnew, f"VariableDerivative.__new__ terminal f{fsh} v{vsh}", f"raises {e.what}")
            continue
        if isinstance(r, T):
            ok, how, wit = equal_T(r, T.zero(fsh + vsh), rng=ctx.rng)
            (rep.ok("C04-shape", vnew, f"diff(unrelated terminal{fsh}, v{vsh}) folds to Zero{fsh + vsh}") if ok else rep.violation("C04-shape", vnew, f"VariableDerivative.__new__ terminal f{fsh} v{vsh}", f"construction-time simplification returns a wrong zero: {wit}"))
    # a variable with free indices is rejected at construction
    H = Harness(ctx, "VariableRuleset", ())
    vfree = variable_node(vi, Obj("label"))
    try:
        H.ip.call_function(vnew, [vd, node(T.symbolic("f", ()), "Sum", ()), vfree], {})
        rep.violation("C04-shape", vnew, "VariableDerivative.__new__ free-index variable", "a differentiation variable with free indices is accepted")
    except LiftRaise:
        rep.ok("C04-shape", vnew, "differentiation variable with free indices is rejected")
    from .c03_compose import compose_diff

    compose_diff(ctx, rep)
    rep.require_min("C04-compose", 8)
    rep.require_min("C04-table", 130)
    rep.require_min("C04-calc", 150)
    rep.require_min("C04-id", 50)
    rep.explanation = (
        "VariableRuleset: dispatch table checks; all generic operator rules lifted for variable shapes (), (2,), (2,2) and "
        "compared with the formal derivative (shape f.shape+v.shape by construction of the comparison); _make_identity "
        "compared with the Kronecker identity for ranks 0..3; the Variable / Coefficient / ReferenceValue / Grad terminal "
        "rules lifted with the ruleset object produced by lifting __init__, including a Variable node whose wrapped "
        "expression was rewritten (same label). C04-compose: apply_derivatives interpreted from source on whole diff(F, v) "
        "expressions (scalar / vector / matrix variables, nested variables, variables under math functions, spatial "
        "derivatives and conditionals); the result must mean dF/dV for the independent quantity V bound to the label."
    )
    rep.assumptions = ["reference semantics as in sa/uflmodel.py", "label identity models Label equality; Variable equality compares label and expression"]
    return rep
