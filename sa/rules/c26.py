"""C26 -- reference cell topology is internally consistent.

The literal table of named cells (`_sub_entity_celltypes` today, found by its shape) and the Cell / TensorProductCell accessors are evaluated
from source by constant propagation for every named cell and every entity dimension in
[-4, tdim+2] (exhaustive on that finite domain):

  C26-euler    sum_d (-1)^d f_d = 1 (Euler-Poincare for a convex polytope incl. the cell itself)
  C26-entity   sub_entities(d) has num_sub_entities(d) members, each a cell of topological dimension d
               whose own table exists; sub_entity_types(d) is exactly the set of their types; the last
               level is the cell itself; out-of-range (negative / too large) dimensions give 0 / ()
  C26-facets   facets / ridges / peaks (and their num_* and *_types variants) are the entities of
               dimension tdim-1 / tdim-2 / tdim-3; vertices/edges/faces of dimension 0/1/2
  C26-ridge    every ridge lies in exactly two facets: sum over facets of their facet count = 2 * ridges
  C26-order    `<` on cells is a strict total order (irreflexive, asymmetric, transitive, total),
               including TensorProductCell vs Cell
  C26-key      shared MEMO-KEY rule over ufl/cell.py: memo tables keyed by all inputs; the result of a memoised helper (one
               object shared by every cell of a name) is never modified in place.
  C26-tp       TensorProductCell: vertex count is the product of the factors' vertex counts
"""

from __future__ import annotations

import ast
import itertools

from ..lift import Interp, LiftRaise, Obj, Unsupported
from ..model import AnalysisError
from ..report import Report

MOD = "ufl.cell"


def run(ctx) -> Report:
    rep = Report("C26")
    prog = ctx.prog
    # the memo-key clause first: it needs no interpretation, and what it finds is reported even if a later clause cannot follow the code
    from ..memokey import check_memo_keys, memo_rule  # noqa: F401
    memo_rule(ctx, rep, "C26-key", ["ufl.cell"])
    m = prog.module(MOD)
    ip = Interp(prog)
    ip.instantiable = {"Cell", "TensorProductCell"}
    ip.overrides["weakref"] = Obj("weakref", proxy=lambda x: x)
    ip.overrides["numbers"] = Obj("numbers", Integral=ip.global_name("int", m))

    def _reduce(f, seq, *init):
        seq = list(seq)
        acc = init[0] if init else seq.pop(0)
        for x in seq:
            acc = f(acc, x)
        return acc

    ip.overrides["functools"] = Obj("functools", reduce=_reduce)
    ip.overrides["as_cell"] = lambda c: c
    g = ip.exec_module_level(MOD, lambda st: isinstance(st, ast.AnnAssign) or (isinstance(st, ast.Assign) and isinstance(st.value, ast.Dict)))
    # the literal table of named cells, found by its shape (cell name -> one tuple of entity cell names per dimension),
    # whatever it is called
    def is_cell_table(v):
        return isinstance(v, dict) and len(v) >= 10 and all(isinstance(k, str) and isinstance(lv, (list, tuple)) and lv and all(isinstance(t, tuple) and all(isinstance(x, str) for x in t) for t in lv) for k, lv in v.items())

    tables = [v for v in g.values() if is_cell_table(v)]
    if len(tables) != 1:
        raise AnalysisError(f"{len(tables)} module-level tables 'cell name -> entity cell names per dimension' in ufl.cell (confirmed: 1 table with 11 cells)")
    table = tables[0]
    ccls = prog.get_class(f"{MOD}.Cell")
    where = (m, ccls.node.lineno, "Cell")
    cells = {}
    for name in table:
        try:
            cells[name] = ip.instantiate(ccls, [name], {})
        except LiftRaise as e:
            rep.violation("C26-entity", where, f"Cell('{name}')", f"constructing the named cell {name} raises {e.what}")
    def attr(o, a):
        return ip.getattr(o, a, None, m)

    def call(o, a, *args):
        return ip.call(attr(o, a), list(args), {}, None, m)

    def tdim(o):
        return attr(o, "topological_dimension")

    for name, c in cells.items():
        td = tdim(c)
        levels = table[name]
        if td != len(levels) - 1:
            rep.violation("C26-entity", where, f"{name}.topological_dimension", f"{name} reports tdim {td} but its table has {len(levels)} levels")
            continue
        # Euler-Poincare
        f = [call(c, "num_sub_entities", d) for d in range(td + 1)]
        chi = sum((-1) ** d * f[d] for d in range(td + 1))
        if chi == 1 and f[td] == 1:
            rep.ok("C26-euler", where, f"{name}: f-vector {f}, alternating sum 1")
        else:
            rep.violation("C26-euler", where, f"{name} f-vector", f"{name}: f-vector {f} has alternating sum {chi} (a convex polytope with its interior has 1) / top level {f[td]}")
        for d in range(-4, td + 3):
            try:
                n = call(c, "num_sub_entities", d)
                ents = call(c, "sub_entities", d)
                types = call(c, "sub_entity_types", d)
            except LiftRaise as e:
                rep.violation("C26-entity", where, f"{name} dim {d}", f"querying entities of dimension {d} of {name} raises {e.what}")
                continue
            ents, types = tuple(ents), tuple(types)
            if d < 0 or d > td:
                if n == 0 and ents == () and types == ():
                    rep.ok("C26-entity/range", where, f"{name}: no entities of dimension {d}")
                else:
                    rep.violation("C26-entity/range", where, f"{name} dim {d}", f"{name} has tdim {td} but reports {n} entities / {len(ents)} sub_entities / {len(types)} types of dimension {d}")
                continue
            bad = []
            if len(ents) != n:
                bad.append(f"len(sub_entities({d})) = {len(ents)} but num_sub_entities({d}) = {n}")
            for e in ents:
                if tdim(e) != d:
                    bad.append(f"sub-entity {attr(e, 'cellname')} of dimension {d} has tdim {tdim(e)}")
                if attr(e, "cellname") not in table:
                    bad.append(f"sub-entity {attr(e, 'cellname')} is not a named cell")
            names_e = sorted({attr(e, "cellname") for e in ents})
            names_t = sorted(attr(t, "cellname") for t in types)
            if names_e != names_t:
                bad.append(f"sub_entity_types({d}) = {names_t} but the entities have types {names_e}")
            if d == td and (len(ents) != 1 or attr(ents[0], "cellname") != name):
                bad.append("the top-dimensional entity is not the cell itself")
            if tuple(attr(e, "cellname") for e in ents) != tuple(levels[d]):
                bad.append(f"entities {[attr(e, 'cellname') for e in ents]} differ from the table row {list(levels[d])}")
            if bad:
                for b in bad:
                    rep.violation("C26-entity", where, f"{name} dim {d}: {b.split(' = ')[0][:60]}", f"{name}: {b}")
            else:
                rep.ok("C26-entity", where, f"{name} dim {d}: {n} entities {names_e}")
        # accessors
        for prop, dd in (("vertices", 0), ("edges", 1), ("faces", 2), ("facets", td - 1), ("ridges", td - 2), ("peaks", td - 3)):
            singular = {"vertices": "vertex", "edges": "edge", "faces": "face", "facets": "facet", "ridges": "ridge", "peaks": "peak"}[prop]
            try:
                got = tuple(attr(c, prop))
                gotn = attr(c, "num_" + prop)
                gott = tuple(attr(c, singular + "_types"))
                want = tuple(call(c, "sub_entities", dd))
                wantn = call(c, "num_sub_entities", dd)
                wantt = tuple(call(c, "sub_entity_types", dd))
            except LiftRaise as e:
                rep.violation("C26-facets", where, f"{name}.{prop}", f"raises {e.what}")
                continue
            key = lambda xs: [attr(x, "cellname") for x in xs]  # noqa: E731
            ok = key(got) == key(want) and gotn == wantn and sorted(key(gott)) == sorted(key(wantt)) and len(got) == gotn
            if ok and all(tdim(x) == dd for x in got):
                rep.ok("C26-facets", where, f"{name}.{prop}: the {gotn} entities of dimension {dd}")
            else:
                rep.violation("C26-facets", where, f"{name}.{prop}", f"{name}.{prop} = {key(got)} (num {gotn}, types {key(gott)}) but the entities of dimension {dd} are {key(want)} (num {wantn}, types {key(wantt)})")
        # every ridge in exactly two facets
        if td >= 2:
            facets = tuple(attr(c, "facets"))
            s = sum(attr(fc, "num_facets") for fc in facets)
            nr = attr(c, "num_ridges")
            if s == 2 * nr:
                rep.ok("C26-ridge", where, f"{name}: facets have {s} facets in total = 2 x {nr} ridges")
            else:
                rep.violation("C26-ridge", where, f"{name} ridge incidence", f"{name}: its facets have {s} sub-facets in total but it has {nr} ridges (each ridge lies in exactly two facets)")
    # ordering
    tp = prog.get_class(f"{MOD}.TensorProductCell")
    universe = dict(cells)
    # every product of 1..3 factors with total dimension <= 3 (vertex factors included: factor lists that are proper
    # prefixes of one another, same dimension and cellname-free hash data of different lengths)
    tdims = {a: attr(cells[a], "topological_dimension") for a in cells}
    alphabet = [a for a in ("vertex", "interval", "triangle", "quadrilateral") if a in cells]
    if ctx.thorough():
        alphabet += [a for a in ("tetrahedron", "hexahedron", "prism") if a in cells]
    for a in cells:
        try:
            universe[f"tp({a})"] = ip.instantiate(tp, [cells[a]], {})
        except LiftRaise:
            pass
    for n in (2, 3):
        for fs in itertools.product(alphabet, repeat=n):
            if sum(tdims[f] for f in fs) <= 3:
                universe["*".join(fs)] = ip.instantiate(tp, [cells[f] for f in fs], {})
    if len(universe) < 50:
        raise AnalysisError(f"cell order universe has only {len(universe)} cells")
    names = list(universe)

    def lt(a, b):
        return ip.truth(ip.compare(ast.Lt, universe[a], universe[b], None))

    def eq(a, b):
        return ip.obj_eq(universe[a], universe[b])

    L = {(a, b): lt(a, b) for a in names for b in names}
    nbad = 0
    for a in names:
        if L[(a, a)]:
            rep.violation("C26-order", where, f"{a} < {a}", f"{a} < {a} holds")
            nbad += 1
        for b in names:
            if a != b:
                if L[(a, b)] and L[(b, a)]:
                    rep.violation("C26-order", where, f"{a} <> {b}", f"both {a} < {b} and {b} < {a}")
                    nbad += 1
                if not L[(a, b)] and not L[(b, a)] and not eq(a, b):
                    rep.violation("C26-order", where, f"{a} ? {b}", f"{a} and {b} are different cells but neither is less than the other (order is not total)")
                    nbad += 1
            for c in names:
                if L[(a, b)] and L[(b, c)] and not L[(a, c)]:
                    rep.violation("C26-order", where, f"{a} < {b} < {c}", f"{a} < {b} and {b} < {c} but not {a} < {c}")
                    nbad += 1
    if not nbad:
        rep.ok("C26-order", where, f"`<` is a strict total order on {len(names)} cells ({len(names) ** 3} triples)")
    # tensor product vertex counts
    for nm, o in universe.items():
        if "*" in nm or nm.startswith("tp("):
            factors = nm.split("*") if "*" in nm else [nm[3:-1]]
            nv = call(o, "num_sub_entities", 0)
            want = 1
            for fa in factors:
                want *= call(cells[fa], "num_sub_entities", 0)
            td = tdim(o)
            wtd = sum(tdim(cells[fa]) for fa in factors)
            if nv == want and td == wtd and call(o, "num_sub_entities", td) == 1 and call(o, "num_sub_entities", -1) == 0 and call(o, "num_sub_entities", td + 1) == 0:
                rep.ok("C26-tp", where, f"{nm}: {nv} vertices, tdim {td}")
            else:
                rep.violation("C26-tp", where, nm, f"TensorProductCell {nm}: {nv} vertices (expected {want}), tdim {td} (expected {wtd})")
    rep.exhaustive = True
    rep.require_min("C26-euler", 10)
    rep.require_min("C26-entity", 90)
    rep.require_min("C26-facets", 60)
    rep.require_min("C26-ridge", 8)
    rep.counts.update(named_cells=len(cells))
    rep.explanation = (
        f"Table and accessors of ufl/cell.py evaluated from source by constant propagation for all {len(cells)} named cells and entity "
        "dimensions -4..tdim+2: Euler characteristic, entity counts/types/dimensions, facet/ridge/peak accessors, ridge-facet "
        "incidence, and the strict total order on cells (all triples)."
    )
    rep.assumptions = ["weakref.proxy and numbers.Integral are modelled as identity / int"]
    from ..memokey import memo_rule

    return rep
