"""C10 -- index rewriting passes are value-preserving and hygienic.

The three passes are lifted *as whole passes* (sa/passlift.py) on the structured expression family of
sa/corpus.py - which contains expressions that reuse one Index object in sibling and nested
summation / tensor scopes, fixed/free index mixes, zeros with free indices - and the meaning of the
result is compared exactly with the meaning of the input:

  C10-remove   remove_component_tensors (IndexRemover + IndexReplacer): same value, shape, free indices
  C10-expand   expand_indices (IndexExpander) on closed scalar expressions: same value; the component
               and index-binding stacks are empty afterwards (push/pop balanced on every path)
  C10-relabel  renumber_indices (IndexRelabeller): same value up to the renaming of free indices that
               the pass itself applied; Zero nodes keep each dimension attached to its own index
  C10-scope    (structural, binder hygiene) a substituting MultiFunction with a multi_index handler must
               also stop at / rename binders (IndexSum, ComponentTensor) or be applied only to operands
               that bind none of the substituted indices
  C10-memo     a context-sensitive Transformer (handlers read traversal state) must not inherit a memo
               keyed without that state
  C10-key      shared MEMO-KEY rule over the three modules (dict memos, membership-guarded memos whatever the
               cache is called, persistent vcaches).
The hand-written family is extended by the compositional generator of sa/corpus.py: every composition
closer(wrapper^n(base)) of 9 tensor-valued bases, 6 wrappers (variable, conditional branches, list row, sum,
as_tensor re-wrap) and 4 closers (fixed components of one shared node, free contraction, self contraction,
mixed fixed/free), n <= 1 in the quick tier and n <= 2 in the thorough tier.
"""

from __future__ import annotations

import ast
import itertools

from .. import corpus, sym, uflmodel, uflsem
from ..lift import Interp, LiftRaise, Obj, Unsupported
from ..model import AnalysisError, norm
from ..passlift import PassHarness, node_class
from ..report import Report
from ..uflmodel import MI, terminal
from ..uflsem import T, as_T, equal_T


class StackModel(list):
    __lift_host__ = True

    def push(self, v):
        self.append(v)

    def peek(self):
        return self[-1]


class StackDictModel(dict):
    __lift_host__ = True

    def __init__(self):
        super().__init__()
        self._l = []

    def push(self, k, v):
        self._l.append((k, self.get(k)))
        if v is None:
            self.pop_key(k)
        else:
            self[k] = v

    def pop_key(self, k):
        if k in self:
            del self[k]

    def pop(self):
        k, v = self._l.pop()
        if v is None:
            self.pop_key(k)
        else:
            self[k] = v
        return k, v


def rename_free(t: T, mapping):
    """rename free indices of t according to mapping old Idx -> new Idx"""
    fi = [mapping.get(i, i) for i in t.fi]
    return T(t.shape, fi, t.fid, dict(t.data))


def run(ctx) -> Report:
    rep = Report("C10")
    prog = ctx.prog
    # the memo-key clause first: it needs no interpretation, and what it finds is reported even if a later clause cannot follow the code
    from ..memokey import check_memo_keys, memo_rule  # noqa: F401
    check_memo_keys(ctx, rep, "C10-key", ["ufl.algorithms.remove_component_tensors", "ufl.algorithms.expand_indices", "ufl.algorithms.renumbering"], min_sites=2)
    terms, exprs = corpus.build()
    # compositional family: every composition closer(wrapper^n(base)), n <= 1 (quick) / 2 (thorough)
    _, generated = corpus.generate(2 if ctx.thorough() else 1, terms)
    exprs = exprs + generated
    rep.counts["hand_written_inputs"] = len(exprs) - len(generated)
    rep.counts["generated_inputs"] = len(generated)

    def compare(rule, where, what, got, want, extra=""):
        got, want = as_T(got), as_T(want)
        ok, how, wit = equal_T(got, want, rng=ctx.rng, real_only=True)
        if ok:
            rep.ok(rule, where, f"{what}: value, shape and free indices preserved ({how}){extra}")
        else:
            rep.violation(rule, where, what, f"{what}: the pass changed the expression ({how}): {wit}", witness=wit)

    # ---------------------------------------------------------- remove_component_tensors
    rm_cls = "ufl.algorithms.remove_component_tensors.IndexRemover"
    where_rm = prog.get_class(rm_cls)
    for desc, e in exprs:
        H = PassHarness(ctx, rm_cls)
        H.ip.instantiable |= {"IndexReplacer"}
        H.init()
        try:
            got = H.apply(e)
        except LiftRaise as ex:
            fn = getattr(ex, "file", None)
            rep.violation("C10-remove", where_rm, f"remove_component_tensors({desc})", f"remove_component_tensors({desc}) fails: {ex.what}")
            continue
        compare("C10-remove", where_rm, f"remove_component_tensors({desc})", got, e)
    # ---------------------------------------------------------- renumber_indices
    rl_cls = "ufl.algorithms.renumbering.IndexRelabeller"
    where_rl = prog.get_class(rl_cls)
    for desc, e in exprs:
        H = PassHarness(ctx, rl_cls)
        H.init()
        try:
            got = as_T(H.apply(e))
        except LiftRaise as ex:
            rep.violation("C10-relabel", where_rl, f"renumber_indices({desc})", f"renumber_indices({desc}) fails: {ex.what}")
            continue
        cache = H.selfobj.attrs.get("index_cache", {})
        mapping = dict(cache)
        inj = len(set(id(v) for v in mapping.values())) == len(mapping)
        if not inj:
            rep.violation("C10-relabel", where_rl, f"renumber_indices({desc})", "the index relabelling is not injective")
            continue
        compare("C10-relabel", where_rl, f"renumber_indices({desc})", got, rename_free(e, mapping), extra=f"; {len(mapping)} indices relabelled injectively")
    # Zero with free indices of different dimensions met in reverse creation order
    i, j = terms["i"], terms["j"]
    B = terms["B"]
    z = uflmodel.m_zero((), (i.id, j.id), (2, 3))
    c = uflmodel.m_rel("<")(terms["f"], terms["g"])
    for order in ((j, i), (i, j)):
        cond = uflmodel.m_conditional(c, z, corpus.idx(B, i, j))
        e = uflmodel.m_component_tensor(cond, MI(order))
        H = PassHarness(ctx, rl_cls)
        H.init()
        try:
            got = as_T(H.apply(e))
            compare("C10-relabel", where_rl, f"renumber_indices(as_tensor(conditional(c, Zero[i,j], B[i,j]), {order}))", got, e)
        except LiftRaise as ex:
            rep.violation("C10-relabel", where_rl, f"renumber_indices(zero with free indices, order {order})", f"fails: {ex.what}")
    # ---------------------------------------------------------- expand_indices
    ex_cls = "ufl.algorithms.expand_indices.IndexExpander"
    where_ex = prog.get_class(ex_cls)

    def space_for(t):
        comps = {c: n for n, c in enumerate(itertools.product(*[range(d) for d in t.shape]))}
        return Obj("space", components=comps)

    for t in terms.values():
        if isinstance(t, T):
            t.tags["ufl_function_space"] = (lambda t=t: space_for(t))
    closed = [(d, e) for d, e in exprs if e.shape == () and not e.fi]
    if len(closed) < 10:
        raise AnalysisError("too few closed expressions in the corpus")
    lab = Obj("label")
    w = uflmodel.node(terms["u"], "Variable", (terms["u"], lab))
    closed.append(("variable(u)[0]*variable(u)[1]", corpus.mult(corpus.idx(w, 0), corpus.idx(w, 1))))
    closed.append(("variable(u)[i]*variable(u)[i]", corpus.mult(corpus.idx(w, terms["i"]), corpus.idx(w, terms["i"]))))
    for desc, e in closed:
        H = PassHarness(ctx, ex_cls)
        H.ip.class_models["Stack"] = StackModel
        H.ip.class_models["StackDict"] = StackDictModel
        H.ip.skip_functions |= {"Transformer.__init__", "ReuseTransformer.__init__"}
        H.init()
        try:
            got = H.apply(e)
        except LiftRaise as exn:
            rep.violation("C10-expand", where_ex, f"expand_indices({desc})", f"expand_indices({desc}) fails: {exn.what}")
            continue
        comps = H.selfobj.attrs.get("_components")
        i2v = H.selfobj.attrs.get("_index2value")
        if comps or (i2v is not None and (len(i2v) or i2v._l)):
            rep.violation("C10-stack", where_ex, f"expand_indices({desc})", f"component / index-value stacks are not empty after the traversal: {list(comps)}, {dict(i2v)}")
            continue
        compare("C10-expand", where_ex, f"expand_indices({desc})", got, e, extra="; stacks balanced")
    # ---------------------------------------------------------- structural: binder hygiene
    n_sub = 0
    for alg in ctx.disp.algorithm_classes()["MultiFunction"]:
        tab = ctx.disp.mf_table(alg)
        mi = tab.get("MultiIndex")
        if mi is None or mi.func.name in ("reuse_if_untouched", "terminal", "undefined"):
            continue
        src = norm(mi.func.node)
        if "fimap" not in src and "mapping" not in src and ".get(" not in src:
            continue
        if "index_cache" in src:
            continue  # consistent renaming of every index (binders included) by an injective map
        n_sub += 1
        binders = [b for b in ("IndexSum", "ComponentTensor") if tab.get(b) is not None and tab[b].func.name not in ("reuse_if_untouched",)]
        if len(binders) == 2:
            rep.ok("C10-scope", mi.func, f"{alg.name}: substitutes indices and has binder-aware rules for IndexSum and ComponentTensor")
        else:
            rep.violation(
                "C10-scope",
                mi.func,
                f"{alg.name}.multi_index substitutes through binders",
                f"{alg.name} substitutes indices in every MultiIndex but has no rule that stops at or renames the binders "
                f"{[b for b in ('IndexSum', 'ComponentTensor') if b not in binders]}: an operand that re-binds a substituted index, or binds the "
                "replacement index, is captured",
            )
    if n_sub < 1:
        raise AnalysisError("no index-substituting MultiFunction found (anchor IndexReplacer vanished)")
    # ---------------------------------------------------------- structural: context memo
    for alg in ctx.disp.algorithm_classes()["Transformer"]:
        tab = ctx.disp.mf_table(alg)
        # context-sensitive: a handler (or a helper method of the class) reads private state of the object that the
        # methods of the class change during the traversal (pushed / appended / popped / assigned by item)
        own = [f for k in alg.mro() if k.name not in ("Transformer", "ReuseTransformer", "object") for f in k.all_defs if f.name != "__init__"]
        changed = set()
        for f in own:
            for p in ast.walk(f.node):
                tgt = None
                if isinstance(p, ast.Call) and isinstance(p.func, ast.Attribute) and p.func.attr in ("push", "append", "pop", "popitem", "update", "setdefault", "insert", "extend", "clear"):
                    tgt = p.func.value
                elif isinstance(p, (ast.Assign, ast.Delete)):
                    for t in p.targets:
                        if isinstance(t, ast.Subscript):
                            tgt = t.value
                if tgt is not None and isinstance(tgt, ast.Attribute) and isinstance(tgt.value, ast.Name) and tgt.value.id == "self" and tgt.attr.startswith("_") and tgt.attr != "_variable_cache":
                    changed.add(tgt.attr)
        state_reads = set()
        for f in own:
            for n in ast.walk(f.node):
                if isinstance(n, ast.Attribute) and isinstance(n.ctx, ast.Load) and isinstance(n.value, ast.Name) and n.value.id == "self" and n.attr in changed:
                    state_reads.add(n.attr)
        if not state_reads:
            continue
        var = tab.get("Variable")
        if var is not None and var.func.name in ("reuse_variable", "reconstruct_variable"):
            rep.violation(
                "C10-memo",
                alg,
                f"{alg.name}.variable = Transformer.{var.func.name}",
                f"{alg.name} is context sensitive (handlers depend on {sorted(state_reads)}) but resolves Variable to Transformer.{var.func.name}, "
                "whose memo is keyed by the variable label only: the first expansion is reused for every context",
            )
        else:
            rep.ok("C10-memo", alg, f"{alg.name}: context-sensitive ({sorted(state_reads)}); Variable rule does not use the label-keyed memo")
    from ..memokey import check_memo_keys

    rep.require_min("C10-remove", 20)
    rep.require_min("C10-relabel", 20)
    rep.require_min("C10-expand", 12)
    rep.require_min("C10-scope", 1)
    rep.require_min("C10-memo", 1)
    rep.explanation = (
        f"remove_component_tensors, renumber_indices and expand_indices were lifted as whole passes on {len(exprs)} structured "
        "symbolic expressions (incl. reuse of one Index object in sibling / nested scopes, zeros with free indices, variables) and the "
        "meaning of each result compared exactly with the meaning of the input; stack balance of IndexExpander checked on the "
        "modelled stacks; binder hygiene of substituting MultiFunctions and label-keyed memos of context-sensitive transformers "
        "checked structurally."
    )
    rep.assumptions = ["traversal drivers (map_expr_dag, Transformer.visit) as modelled in sa/passlift.py", "dimensions 2 and 3; ranks <= 2", "Stack/StackDict semantics as modelled in this rule"]
    return rep
