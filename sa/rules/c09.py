"""C09 -- Jacobian product cancellation preserves values.

The three traversers of cancel_jacobian_products.py are lifted as whole passes (sa/passlift.py) on
structured symbolic expressions in which the Jacobian J is a symbolic gdim x tdim matrix and the
Jacobian inverse K carries the *value* of the true (pseudo-)inverse of J (rational functions of the
entries of J), for square (2,2) and immersed (3,2) geometries.  For every expression of the family the
meaning of the result must equal the meaning of the input (same shape, free indices and value):

  C09-delta   JacobianCanceller: sum_k K[a,k] J[k,b] = delta always; sum_k J[a,k] K[k,b] = delta only for
              square J; transposed / mis-placed index patterns and factors on different domains are left
              alone; extra factors, nested and interchanged sums.
  C09-ident   IdentityEliminator: contraction of an indexed Identity against the remaining factors,
              folding of Identity at fixed indices.
  C09-pow     ReciprocalCanceller: x**a * x**-a cancellation, merging of nested powers only when that is
              valid for negative bases (integer outer exponent), free indices never dropped.
  C09-pipe    the composition cancel_jacobian_products on the same family.
  C09-key     memo tables keyed by everything their value is built from (shared MEMO-KEY rule).
  C09-scope   structural binder-hygiene rule shared with C10 (substitution through binders).
  (C09-ident also covers one summation Index object contracted against identities with different partner
   indices in one expression; C09-key includes the persistent-traversal-cache clause: a vcache handed to
   map_expr_dag must be selected by everything the mapped function is built from.)
"""

from __future__ import annotations

import itertools

from .. import corpus, sym, uflmodel, uflsem
from ..lift import Interp, LiftRaise, Obj, Unsupported
from ..memokey import check_memo_keys
from ..model import AnalysisError
from ..passlift import PassHarness
from ..report import Report
from ..uflmodel import MI, new_index, node, terminal
from ..uflsem import T, as_T, equal_T
from . import c06
from .c07 import mat

MOD = "ufl.algorithms.cancel_jacobian_products"


def geometry(gdim, tdim, name="D"):
    dom = Obj("domain:" + name, geometric_dimension=gdim, topological_dimension=tdim)
    dom.attrs["__class__"] = None
    Jv = T.symbolic("J" + name, (gdim, tdim))
    Kv = c06.o_inverse(Jv) if gdim == tdim else c06.o_pseudo_inverse(Jv)
    J = node(Jv, "Jacobian", ())
    J.tags.update(_ufl_is_terminal_=True, key=("Jacobian", name), domain=dom)
    K = node(Kv, "JacobianInverse", ())
    K.tags.update(_ufl_is_terminal_=True, key=("JacobianInverse", name), domain=dom)
    return dom, J, K


def family(gdim, tdim):
    cm, _ = uflmodel.base_models()
    idx, mult = corpus.idx, corpus.mult
    dom, J, K = geometry(gdim, tdim)
    dom2, J2, K2 = geometry(gdim, tdim, "E")
    a, b, k, j, m = (new_index() for _ in range(5))
    c_t = terminal("c", (tdim,), "Coefficient")
    c_g = terminal("cg", (gdim,), "Coefficient")
    f = terminal("f", (), "Coefficient")
    g = terminal("g", (), "Coefficient")
    Bm = terminal("B", (tdim, tdim), "Coefficient")
    detJ = terminal("detJ", (), "JacobianDeterminant")
    I_t = cm["Identity"](tdim)
    I_g = cm["Identity"](gdim)
    S = lambda e, i: uflmodel.m_index_sum(e, MI((i,)))  # noqa: E731
    P = uflmodel.m_product
    E = []
    add = lambda d, e: E.append((d, e))  # noqa: E731
    add("sum_k K[a,k]*J[k,b]", S(P(idx(K, a, k), idx(J, k, b)), k))
    add("sum_k J[k,b]*K[a,k]  (factors swapped)", S(P(idx(J, k, b), idx(K, a, k)), k))
    add("sum_k J[a,k]*K[k,b]  (J K, identity only for square J)", S(P(idx(J, a, k), idx(K, k, b)), k))
    add("sum_k K[k,a]*J[k,b]  (transposed K: no identity)", S(P(idx(K, k, a), idx(J, k, b)), k) if gdim == tdim else S(P(idx(J, k, a), idx(J, k, b)), k))
    add("sum_k K[a,k]*J2[k,b]  (different domains)", S(P(idx(K, a, k), idx(J2, k, b)), k))
    add("sum_k (K[a,k]*J[k,b])*c[b] summed over b too", S(S(P(P(idx(K, a, k), idx(J, k, b)), idx(c_t, b)), k), b))
    add("sum_b sum_k K[a,k]*(J[k,b]*c[b])", S(S(P(idx(K, a, k), P(idx(J, k, b), idx(c_t, b))), k), b))
    add("sum_k K[a,k] * (sum_b J[k,b]*c[b])  (inner sum carries k)", S(P(idx(K, a, k), S(P(idx(J, k, b), idx(c_t, b)), b)), k))
    add("sum_k K[j,k] * (sum_j J[k,j]*c[j])  (outer factor's free index rebinds inside)", S(P(idx(K, j, k), S(P(idx(J, k, j), idx(c_t, j)), j)), k))
    add("sum_k (sum_b K[a,b]*f) ... no contraction", S(P(idx(K, a, k), idx(c_g, k)), k))
    add("f * sum_k K[a,k]*J[k,a]  (trace of K J)", P(f, S(S(P(idx(K, a, k), idx(J, k, a)), k), a)))
    # identities
    add("sum_k I[a,k]*c[k]", S(P(idx(I_t, a, k), idx(c_t, k)), k))
    add("sum_k c[k]*I[k,a]", S(P(idx(c_t, k), idx(I_t, k, a)), k))
    add("sum_k I[a,k]*B[k,b]*c[b] (sum b)", S(S(P(P(idx(I_t, a, k), idx(Bm, k, b)), idx(c_t, b)), k), b))
    add("sum_k I[0,k]*c[k]  (fixed partner index)", S(P(idx(I_t, 0, k), idx(c_t, k)), k))
    add("I[0,0]*f + I[0,1]*g", uflmodel.m_sum(P(idx(I_t, 0, 0), f), P(idx(I_t, 0, 1), g)))
    add("sum_k I[a,k]*(sum_a B[k,a])  (replacement index is bound inside)", S(P(idx(I_t, a, k), S(idx(Bm, k, a), a)), k))
    # one summation index object contracted against identities with different partner indices in one expression
    ck, Bk0 = idx(c_t, k), idx(Bm, k, 0)  # shared node objects (UFL shares structurally equal nodes through its caches)
    add("sum_k I[0,k]*c[k] * sum_k I[1,k]*c[k]  (same index object k, shared operand c[k])", P(S(P(idx(I_t, 0, k), ck), k), S(P(idx(I_t, 1, k), ck), k)))
    add("sum_k I[a,k]*c[k] * sum_k I[b,k]*c[k]  (same k, free partners a, b)", P(S(P(idx(I_t, a, k), ck), k), S(P(idx(I_t, b, k), ck), k)))
    add("sum_k I[1,k]*B[k,0] - sum_k I[0,k]*B[k,0]", uflmodel.m_sum(S(P(idx(I_t, 1, k), Bk0), k), P(uflmodel.m_scalar(-1), S(P(idx(I_t, 0, k), Bk0), k))))
    # the same for the Jacobian contraction: one index object k in two sums with different surviving indices
    add("sum_k K[0,k]*J[k,b] * sum_k K[1,k]*J[k,b]... distinct partners", P(S(P(idx(K, 0, k), idx(J, k, 0)), k), S(P(idx(K, 1, k), idx(J, k, 0)), k)))
    add("sum_k I[k,k]*f  (trace of identity)", S(P(uflmodel.m_indexed(I_t, MI((k, k))), f), k))
    # reciprocals
    two, half = uflmodel.m_scalar(2), uflmodel.m_scalar(0.5)
    one = uflmodel.m_scalar(1)
    D = uflmodel.m_division
    Pw = uflmodel.m_power
    add("detJ**2 * (1/detJ)**2", P(Pw(detJ, two), Pw(D(one, detJ), two)))
    add("f * (1/f)", P(f, D(one, f)))
    add("(f * g) * (1/f)", P(P(f, g), D(one, f)))
    add("f**2 * (1/f)", P(Pw(f, two), D(one, f)))
    add("((f**2)**0.5) * (1/f)   (|f|/f, not 1)", P(Pw(Pw(f, two), half), D(one, f)))
    add("((f**0.5)**2) * (1/f)", P(Pw(Pw(f, half), two), D(one, f)))
    add("(1/(f**2)) * f**2 * c[a]", P(P(D(one, Pw(f, two)), Pw(f, two)), idx(c_t, a)))
    add("c[a] * (1/c[a])  (free index must survive)", P(idx(c_t, a), D(one, idx(c_t, a))) if False else P(P(f, idx(c_t, a)), D(one, f)))
    add("f**2 * f**3", P(Pw(f, two), Pw(f, uflmodel.m_scalar(3))))
    add("(1/f) * (1/g)", P(D(one, f), D(one, g)))
    # one factor several times in a product (the multiplicity is part of the value)
    rf, rdet = D(one, f), D(one, detJ)
    add("f * f * (1/f)", P(P(f, f), rf))
    add("(1/f) * (1/f) * f", P(P(rf, rf), f))
    add("detJ * detJ * (1/detJ)", P(P(detJ, detJ), rdet))
    add("(1/detJ) * g * (1/detJ) * f * detJ**2", P(P(P(P(rdet, g), rdet), f), Pw(detJ, two)))
    add("f * g * f * (1/f) * (1/f) * g", P(P(P(P(P(f, g), f), rf), rf), g))
    add("f * f  (nothing to cancel)", P(f, f))
    add("(1/f) * (1/f)", P(rf, rf))
    return E


def run(ctx) -> Report:
    rep = Report("C09")
    prog = ctx.prog
    # the memo-key clause first: it needs no interpretation, and what it finds is reported even if a later clause cannot follow the code
    from ..memokey import check_memo_keys, memo_rule  # noqa: F401
    check_memo_keys(ctx, rep, "C09-key", [MOD])
    passes = [("JacobianCanceller", "C09-delta"), ("IdentityEliminator", "C09-ident"), ("ReciprocalCanceller", "C09-pow")]
    ctx.crosscheck_dispatch({p for p, _ in passes} | {"IndexSumSimplifier"})
    n_changed = 0
    for gdim, tdim in ((2, 2), (3, 2)):
        fam = family(gdim, tdim)

        def harness(pname):
            H = PassHarness(ctx, f"{MOD}.{pname}", gdim=gdim, tdim=tdim)
            H.ip.instantiable |= {"IndexReplacer"}
            H.ip.overrides["extract_unique_domain"] = lambda e, expand_mesh_sequence=True: as_T(e).tags.get("domain")
            H.init()
            return H

        for desc, e in fam:
            stages = []
            cur = e
            for pname, rule in passes:
                where = prog.get_class(f"{MOD}.{pname}")
                H = harness(pname)
                tag = f"{pname}({desc}) [gdim={gdim}, tdim={tdim}]"
                key = f"{pname}({desc})"
                try:
                    got = as_T(H.apply(e))
                except LiftRaise as ex:
                    rep.violation(rule, where, key, f"{tag}: the pass fails on a well-formed expression: {ex.what}")
                    continue
                ok, how, wit = equal_T(got, e, rng=ctx.rng, real_only=True, points=12)
                changed = got is not e
                n_changed += changed
                if ok:
                    rep.ok(rule, where, f"{tag}: value, shape and free indices preserved ({how}; {'rewritten' if changed else 'left alone'})")
                else:
                    rep.violation(rule, where, key, f"{tag}: the pass changed the meaning of the expression ({how}): {wit}", witness=wit)
                # composition
                try:
                    Hc = harness(pname)
                    cur = as_T(Hc.apply(cur))
                except LiftRaise as ex:
                    cur = None
                    break
            if cur is not None:
                ok, how, wit = equal_T(cur, e, rng=ctx.rng, real_only=True, points=12)
                fnw = prog.get_function(MOD, "cancel_jacobian_products")
                tag = f"cancel_jacobian_products({desc}) [gdim={gdim}, tdim={tdim}]"
                if ok:
                    rep.ok("C09-pipe", fnw, f"{tag}: preserved ({how})")
                else:
                    rep.violation("C09-pipe", fnw, f"cancel_jacobian_products({desc})", f"{tag}: the composed pass changed the meaning ({how}): {wit}", witness=wit)
    if n_changed < 20:
        raise AnalysisError(f"the passes rewrote only {n_changed} inputs of the family: the family no longer exercises the rewrites (vacuous)")
    # pipeline order: the three traversers are applied in this order
    fnw = prog.get_function(MOD, "cancel_jacobian_products")
    import ast

    from ..model import norm

    order = [norm(c.args[0].func) for c in ast.walk(fnw.node) if isinstance(c, ast.Call) and norm(c.func) == "map_integrands" and c.args and isinstance(c.args[0], ast.Call)]
    order_src = [norm(c.args[0].func) for st in fnw.node.body for c in ast.walk(st) if isinstance(c, ast.Call) and norm(c.func) == "map_integrands" and c.args and isinstance(c.args[0], ast.Call)]
    if order_src == ["JacobianCanceller", "IdentityEliminator", "ReciprocalCanceller"]:
        rep.ok("C09-pipe/order", fnw, "JacobianCanceller, IdentityEliminator, ReciprocalCanceller")
    else:
        rep.violation("C09-pipe/order", fnw, "pipeline order", f"cancel_jacobian_products applies {order_src}")
    # binder hygiene (shared structural rule, see C10-scope)
    rcls = prog.get_class("ufl.algorithms.remove_component_tensors.IndexReplacer")
    tab = ctx.disp.mf_table(rcls)
    binders = [b for b in ("IndexSum", "ComponentTensor") if tab.get(b) is not None and tab[b].func.name != "reuse_if_untouched"]
    # the places of this module that substitute with an IndexReplacer: call sites that resolve to the class, whatever the
    # enclosing method is called
    mod = prog.module(MOD)
    users = []
    for c in mod.classes.values():
        for fi in c.all_defs:
            for n in ast.walk(fi.node):
                if isinstance(n, ast.Call) and prog.resolve_expr(mod, n.func) is rcls:
                    users.append((c, fi, n))
    if not users:
        raise AnalysisError("C09-scope: no construction of IndexReplacer found in cancel_jacobian_products (confirmed: 1, in IndexSumSimplifier)")
    for c, fi, n in users:
        if len(binders) == 2:
            rep.ok("C09-scope", (fi, n), "IndexReplacer has binder-aware rules")
        else:
            rep.violation("C09-scope", (fi, n), f"{c.name} -> IndexReplacer through binders", f"{fi.qualname} replaces the summation index with IndexReplacer, which substitutes below IndexSum/ComponentTensor binders without stopping or renaming: a factor that binds the replacement index captures it", scope=c.name)
    rep.require_min("C09-delta", 40)
    rep.require_min("C09-ident", 40)
    rep.require_min("C09-pow", 40)
    rep.require_min("C09-pipe", 40)
    rep.require_min("C09-key", 1)
    rep.counts["rewritten_inputs"] = n_changed
    rep.explanation = (
        "JacobianCanceller, IdentityEliminator and ReciprocalCanceller were lifted as whole passes on a family of structured "
        "symbolic expressions over a symbolic Jacobian whose inverse carries the value of the true (pseudo-)inverse, for square and "
        f"immersed geometries; {n_changed} pass applications actually rewrote their input; every result's meaning was compared with "
        "the input's (exact rational identities; random interpretation over real values, negative bases included, for fractional powers)."
    )
    rep.assumptions = ["traversal driver model of sa/passlift.py", "bases of powers are compared by object identity in the model (structural equality in UFL): merges of structurally-equal-but-distinct bases are not exercised"]
    return rep
