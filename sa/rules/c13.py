"""C13 -- structural equality, hashing, repr and pickling are consistent.

A universe of objects of the repository's own classes is built by lifting their constructors
(sa/formlift.py): for every kind (mesh, function spaces, coefficients, cofunctions, constants, arguments,
coarguments, geometric quantities, literals, zeros, indices, multi-indices, labels, variables, operators
built through their constructors, integrals, forms, weighted sums of cofunctions) a base object, *one variant per constructor field*
and an independently rebuilt duplicate.  `==`, `hash` and `repr` are the lifted methods of the classes.

  C13-equiv    == is reflexive, symmetric and transitive on the universe (all pairs / triples)
  C13-hashrepr a == b  =>  hash(a) == hash(b) and repr(a) == repr(b)                      (all pairs)
  C13-fields   objects that differ in one constructor field are unequal; rebuilt duplicates are equal
  C13-pure     after all comparisons, repr, hash and the exact structure (operand tree) of every object
               are what they were before
  C13-evalrepr eval(repr(x)) - the repr string parsed and evaluated with the lifted constructors -
               is equal to x (stated for expressions: weighted sums of base forms, whose repr `w*c + ...` is for reading
               only, are part of every other clause but not of this one)
  C13-newargs  for classes with a parameterised __new__, cls.__new__(cls, *x.__getnewargs__()) is
               well-formed and gives an object equal to x (pickle protocol 2)
"""

from __future__ import annotations

import ast
import itertools

from ..formlift import FormWorld
from ..lift import Env, LiftRaise, Obj, Unsupported
from ..model import AnalysisError, ClassInfo, FuncInfo, norm
from ..report import Report


class Universe:
    def __init__(self, W):
        self.W = W
        self.items = []  # (name, obj, key)

    def add(self, name, obj, key=None):
        self.items.append((name, obj, key if key is not None else name))
        return obj


def build(W):
    U = Universe(W)
    add = U.add
    el = W.element
    # two independent constructions of everything "base" (keys equal) + one-field variants
    for rebuilt in (False, True):
        tag = "'" if rebuilt else ""
        m0 = add("mesh0" + tag, W.mesh(0), "mesh0")
        V = add("V" + tag, W.space(m0, el("P", 1)), "V")
        f = add("f" + tag, W.coefficient(V, 0), "f")
        c = add("c" + tag, W.constant(m0, 0), "c")
        v = add("v" + tag, W.argument(V, 0), "v")
        x = add("x" + tag, W.geometric("SpatialCoordinate", m0), "x")
        add("2" + tag, W.literal(2), "2")
        add("0.5" + tag, W.literal(0.5), "0.5")
        i = add("i" + tag, W.index(3), "i")
        add("mi(i,0)" + tag, W.multiindex(i, 0), "mi(i,0)")
        add("L1" + tag, W.label(1), "L1")
        add("zero(2)[i3:2]" + tag, W.new("Zero", (2,), (3,), (2,)), "zero(2)[i3:2]")
        s = add("f+c" + tag, W.new("Sum", f, c), "f+c")
        p = add("f*v" + tag, W.new("Product", f, v), "f*v")
        add("sin(f)" + tag, W.new("Sin", f), "sin(f)")
        add("f/c" + tag, W.new("Division", f, c), "f/c")
        add("x[0]" + tag, W.new("Indexed", x, W.multiindex(0)), "x[0]")
        add("f<c" + tag, W.new("LT", f, c), "f<c")
        itg = add("itg" + tag, W.integral(p, "cell", m0, 1, {"q": 2}), "itg")
        add("form" + tag, W.form([itg]), "form")
        add("(f+c)*v" + tag, W.new("Product", s, v), "(f+c)*v")
        Vd = W.new("ufl.functionspace.DualSpace", m0, el("P", 1))
        k1, k2 = W.new("ufl.coefficient.Cofunction", Vd, 11), W.new("ufl.coefficient.Cofunction", Vd, 12)
        add("k1 - k2" + tag, W.new("ufl.form.FormSum", (k1, 1), (k2, -1)), "k1 - k2")
    m0 = W.mesh(0)
    V = W.space(m0, el("P", 1))
    f, c, v = W.coefficient(V, 0), W.constant(m0, 0), W.argument(V, 0)
    # ---- one-field variants ---------------------------------------------------------------------------
    m1 = add("mesh1", W.mesh(1))
    add("mesh0 (P2 coordinates)", W.mesh(0, degree=2))
    V2 = add("V(P2)", W.space(m0, el("P", 2)))
    Vm1 = add("V(mesh1)", W.space(m1, el("P", 1)))
    add("V(label a)", W.new("ufl.functionspace.FunctionSpace", m0, el("P", 1), "a"))
    add("V*", W.new("ufl.functionspace.DualSpace", m0, el("P", 1)))
    add("f(count 1)", W.coefficient(V, 1))
    add("f(P2)", W.coefficient(V2, 0))
    add("f(mesh1)", W.coefficient(Vm1, 0))
    add("user Function(V, 0)", W.coefficient(V, 0, cls="userside.Function"), "f")  # equal to f by design (count + space)
    add("cofunction(V*, 0)", W.new("ufl.coefficient.Cofunction", W.new("ufl.functionspace.DualSpace", m0, el("P", 1)), 0))
    add("c(count 1)", W.constant(m0, 1))
    add("c(shape (2,))", W.constant(m0, 0, (2,)))
    add("c(shape (3,))", W.constant(m0, 0, (3,)))
    add("c(mesh1)", W.constant(m1, 0))
    add("v(number 1)", W.argument(V, 1))
    add("v(part 0)", W.argument(V, 0, 0))
    add("v(part 1)", W.argument(V, 0, 1))
    add("v(P2)", W.argument(V2, 0))
    add("coargument(V*, 0)", W.new("ufl.argument.Coargument", W.new("ufl.functionspace.DualSpace", m0, el("P", 1)), 0))
    add("x(mesh1)", W.geometric("SpatialCoordinate", m1))
    add("n(mesh0)", W.geometric("FacetNormal", m0))
    add("vol(mesh0)", W.geometric("CellVolume", m0))
    add("3", W.literal(3))
    add("2.0", W.literal(2.0))
    add("0.25", W.literal(0.25))
    add("complex 1+2j", W.new("ufl.constantvalue.ComplexValue", complex(1, 2)))
    add("complex 1+3j", W.new("ufl.constantvalue.ComplexValue", complex(1, 3)))
    add("i4", W.index(4))
    add("fixed 0", W.fixed(0))
    add("fixed 1", W.fixed(1))
    i3, i4 = W.index(3), W.index(4)
    add("mi(i,1)", W.multiindex(i3, 1))
    add("mi(i4,0)", W.multiindex(i4, 0))
    add("mi(i)", W.multiindex(i3))
    add("L2", W.label(2))
    add("zero()", W.new("Zero"))
    add("zero(2)", W.new("Zero", (2,)))
    add("zero(3)", W.new("Zero", (3,)))
    add("zero(2)[i4:2]", W.new("Zero", (2,), (4,), (2,)))
    add("zero(2)[i3:3]", W.new("Zero", (2,), (3,), (3,)))
    add("identity(2)", W.new("ufl.constantvalue.Identity", 2))
    add("identity(3)", W.new("ufl.constantvalue.Identity", 3))
    g = W.coefficient(V, 1)
    add("g+c", W.new("Sum", g, c))
    add("g*v", W.new("Product", g, v))
    add("cos(f)", W.new("Cos", f))
    # the same shape of tree with another operator type inside, and operand lists that are prefixes of one another:
    # what tells them apart below the root must not be their hashes
    add("sin(f)*v", W.new("Product", W.new("Sin", f), v))
    add("cos(f)*v", W.new("Product", W.new("Cos", f), v))
    add("(f*c)*v", W.new("Product", W.new("Product", f, c), v))
    add("sin(as_vector([f, c]))... list(f, c)", W.new("ufl.exprcontainers.ExprList", f, c))
    add("list(f, c, f)", W.new("ufl.exprcontainers.ExprList", f, c, f))
    add("sum over list: sin-free wrapper of list(f, c)", W.new("ufl.exprcontainers.ExprList", W.new("ufl.exprcontainers.ExprList", f, c), f))
    add("wrapper of list(f, c, f)", W.new("ufl.exprcontainers.ExprList", W.new("ufl.exprcontainers.ExprList", f, c, f), f))
    add("sin(g)", W.new("Sin", g))
    add("c/f", W.new("Division", c, f))
    xx = W.geometric("SpatialCoordinate", m0)
    add("x[1]", W.new("Indexed", xx, W.multiindex(1)))
    add("f<=c", W.new("LE", f, c))
    add("c<f", W.new("LT", c, f))
    add("f**2", W.new("Power", f, W.literal(2)))
    add("f**3", W.new("Power", f, W.literal(3)))
    add("var(f, L1)", W.new("ufl.variable.Variable", f, W.label(1)))
    add("var(f, L2)", W.new("ufl.variable.Variable", f, W.label(2)))
    add("var(g, L1)", W.new("ufl.variable.Variable", g, W.label(1)))
    add("f('+')", W.new("PositiveRestricted", f))
    add("f('-')", W.new("NegativeRestricted", f))
    p = W.new("Product", f, v)
    add("itg(g*v)", W.integral(W.new("Product", g, v), "cell", m0, 1, {"q": 2}))
    add("itg(exterior_facet)", W.integral(p, "exterior_facet", m0, 1, {"q": 2}))
    add("itg(mesh1)", W.integral(p, "cell", m1, 1, {"q": 2}))
    add("itg(id 2)", W.integral(p, "cell", m0, 2, {"q": 2}))
    add("itg(id (1,2))", W.integral(p, "cell", m0, (1, 2), {"q": 2}))
    add("itg(metadata q=3)", W.integral(p, "cell", m0, 1, {"q": 3}))
    add("itg(no metadata)", W.integral(p, "cell", m0, 1, {}))
    add("itg(extra map)", W.integral(p, "cell", m0, 1, {"q": 2}, None, [(m1, "cell")]))
    add("form(2 integrals)", W.form([W.integral(p, "cell", m0, 1, {"q": 2}), W.integral(p, "cell", m0, 2, {})]))
    add("form(id 2)", W.form([W.integral(p, "cell", m0, 2, {"q": 2})]))
    add("form(empty)", W.form([]))
    # weighted sums of base forms: components and weights are both part of the value (hash(-1) == hash(-2) in CPython)
    Vd = W.new("ufl.functionspace.DualSpace", m0, el("P", 1))
    k1, k2, k3 = (W.new("ufl.coefficient.Cofunction", Vd, 11 + n) for n in range(3))
    FS = lambda *pairs: W.new("ufl.form.FormSum", *pairs)  # noqa: E731
    add("k1 - 2*k2", FS((k1, 1), (k2, -2)))
    add("k1 - 3*k2", FS((k1, 1), (k2, -3)))
    add("-k1 + k2... weights (-1, 1)", FS((k1, -1), (k2, 1)))
    add("-2*k1 + k2", FS((k1, -2), (k2, 1)))
    add("k1 + k2", FS((k1, 1), (k2, 1)))
    add("k2 - k1 (components exchanged)", FS((k2, 1), (k1, -1)))
    add("k1 - k3", FS((k1, 1), (k3, -1)))
    add("k1 - k2 + k3", FS((k1, 1), (k2, -1), (k3, 1)))
    add("k1 - k2 - k3", FS((k1, 1), (k2, -1), (k3, -1)))
    add("k1 - k2 - 2*k3", FS((k1, 1), (k2, -1), (k3, -2)))
    return U


def exact(W, o, depth=0):
    """exact structure of an object: class, scalar attributes, operands (by structure)"""
    if isinstance(o, Obj):
        k = W.ip.obj_class(o)
        name = k.name if k is not None else o.kind
        if depth > 12:
            return (name, "...")
        parts = []
        for a in sorted(o.attrs):
            if a in ("__class__", "_serial", "_hash", "__initialised_from_source__") or callable(o.attrs[a]) and not isinstance(o.attrs[a], Obj):
                continue
            if a.startswith("_cache") or a in ("_signature", "_terminal_numbering", "_domain_numbering", "_integration_domains", "_coefficients", "_arguments", "_constants", "_coefficient_numbering", "_constant_numbering", "_subdomain_data", "_base_form_operators"):
                continue  # caches filled lazily by queries (not values)
            parts.append((a, exact(W, o.attrs[a], depth + 1)))
        return (name, tuple(parts))
    if isinstance(o, (tuple, list)):
        return tuple(exact(W, x, depth + 1) for x in o)
    if isinstance(o, dict):
        return tuple((exact(W, k, depth + 1), exact(W, v, depth + 1)) for k, v in o.items())
    if isinstance(o, (set, frozenset)):
        return ("set", len(o))
    if isinstance(o, ClassInfo):
        return ("class", o.name)
    return repr(o)


def colliding_world(ctx, rep):
    """C13-collide: the same universe in a world where *every* hash collides (hash(x) == 0): == must still be
    the same relation and must still leave both operands untouched - hash differences may only speed a
    comparison up, never decide it."""
    prog = ctx.prog
    where = prog.get_function("ufl.exprequals", "expr_equals")
    W = FormWorld(ctx, hash_salt="collide")
    ip = W.ip
    U = build(W)
    # generated: one operator tree over every assignment of its leaf positions to two leaf values, each available
    # as two equal-but-distinct objects: sub-objects shared inside one operand, equal copies across operands
    m0 = W.mesh(0)
    fv = W.coefficient(W.space(m0, W.element("P", 1, (2,))), 7)
    scal = dict(ufl_shape=(), ufl_free_indices=(), ufl_index_dimensions=())
    leaf = lambda k: W.op("Indexed", fv, W.multiindex(k), **scal)  # noqa: E731
    leaves = {"x0": (leaf(0), 0), "x1": (leaf(1), 1), "y0": (leaf(0), 0), "y1": (leaf(1), 1)}
    for l1, l2, l3 in itertools.product(leaves, repeat=3):
        e = W.op("Division", W.op("Sin", leaves[l1][0], **scal), W.op("Product", W.op("Cos", leaves[l2][0], **scal), W.op("Exp", leaves[l3][0], **scal), **scal), **scal)
        U.add(f"sin({l1})/(cos({l2})*exp({l3}))", e, ("dag", leaves[l1][1], leaves[l2][1], leaves[l3][1]))
    names = [x[0] for x in U.items]
    objs = [x[1] for x in U.items]
    keys = [x[2] for x in U.items]
    n = len(objs)
    before = [(ip.py_repr(o),) for o in objs]  # the repr shows the whole operand tree
    bad = 0
    for a, b in itertools.product(range(n), repeat=2):
        try:
            e = bool(ip.obj_eq(objs[a], objs[b]))
        except LiftRaise as ex:
            if "NotImplementedError" in ex.what:
                continue
            bad += 1
            rep.violation("C13-collide", where, f"{names[a]} == {names[b]}", f"with colliding hashes, comparing {names[a]} with {names[b]} raises: {ex.what}")
            continue
        if e != (keys[a] == keys[b]):
            bad += 1
            if bad < 6:
                rep.violation("C13-collide", where, f"{names[a]} | {names[b]}", f"with colliding hashes {names[a]} == {names[b]} is {e}, but they are {'equal' if keys[a] == keys[b] else 'different'} by construction: the comparison relies on hashes being different")
        for k in (a, b):
            now = (ip.py_repr(objs[k]),)
            if now != before[k]:
                bad += 1
                if bad < 6:
                    rep.violation("C13-collide", where, f"{names[k]} changed by {names[a]} == {names[b]}", f"with colliding hashes the comparison {names[a]} == {names[b]} (result {e}) changed {names[k]}: {before[k][0]!r:.100} -> {now[0]!r:.100}")
                before[k] = now
    if not bad:
        rep.ok("C13-collide", where, f"== is the same relation and leaves its operands untouched on {n} objects when every hash collides ({n * n} comparisons)")


def aliasing_world(ctx, rep):
    """C13-alias: the same universe in a world where an identical constructor call returns the very same object
    (labels, indices, multi-indices, literals, terminals shared by identity between different values, as they are
    after replace() / reconstruct): == must be the same relation - sharing a part never makes two values equal."""
    prog = ctx.prog
    where = prog.get_function("ufl.exprequals", "expr_equals")
    W = FormWorld(ctx)
    W.intern, W._interned = True, {}
    ip = W.ip
    U = build(W)
    names = [x[0] for x in U.items]
    objs = [x[1] for x in U.items]
    keys = [x[2] for x in U.items]
    n = len(objs)
    bad = 0
    shared = sum(1 for a in range(n) for b in range(a + 1, n) if objs[a] is objs[b])
    for a, b in itertools.product(range(n), repeat=2):
        try:
            e = bool(ip.obj_eq(objs[a], objs[b]))
        except LiftRaise as ex:
            if "NotImplementedError" in ex.what:
                continue
            bad += 1
            rep.violation("C13-alias", where, f"{names[a]} == {names[b]}", f"with shared sub-objects, comparing {names[a]} with {names[b]} raises: {ex.what}")
            continue
        if e != (keys[a] == keys[b]):
            bad += 1
            if bad < 6:
                rep.violation("C13-alias", where, f"{names[a]} | {names[b]}", f"with sub-objects shared by identity {names[a]} == {names[b]} is {e}, but they are {'equal' if keys[a] == keys[b] else 'different'} by construction: the comparison trusts the identity of a part")
    if not bad:
        rep.ok("C13-alias", where, f"== on {n} objects built with identity-shared parts ({shared} pairs are one object) is the relation given by the constructor arguments ({n * n} comparisons)")


def run(ctx) -> Report:
    rep = Report("C13")
    prog = ctx.prog
    colliding_world(ctx, rep)
    aliasing_world(ctx, rep)
    W = FormWorld(ctx)
    ip = W.ip
    for name, e in W._elements.items():
        pass
    U = build(W)
    n = len(U.items)
    if n < 100:
        raise AnalysisError(f"universe too small: {n}")
    names = [x[0] for x in U.items]
    objs = [x[1] for x in U.items]
    keys = [x[2] for x in U.items]
    where = prog.get_function("ufl.exprequals", "expr_equals")

    def safe(fn, what, nm):
        try:
            return fn()
        except LiftRaise as ex:
            rep.violation("C13-hashrepr", where, f"{what}({nm})", f"{what}() of {nm} raises: {ex.what}")
            return None

    lazy_hash = ["_hash" in o.attrs and o.attrs["_hash"] is None for o in objs]
    before = [(safe(lambda o=o: ip.py_repr(o), "repr", nm), safe(lambda o=o: W.py_hash(o), "hash", nm), exact(W, o)) for nm, o in zip(names, objs)]
    # ---- the == matrix -----------------------------------------------------------------------------------
    E = [[None] * n for _ in range(n)]
    for a, b in itertools.product(range(n), repeat=2):
        try:
            E[a][b] = bool(ip.obj_eq(objs[a], objs[b]))
        except LiftRaise as ex:
            E[a][b] = None
            if "NotImplementedError" in ex.what:
                continue  # comparison declared unsupported by the class (BaseFormOperator); not in the universe
            rep.violation("C13-equiv", where, f"{names[a]} == {names[b]}", f"comparing {names[a]} with {names[b]} raises: {ex.what}")
    bad = 0
    for a in range(n):
        if E[a][a] is False:
            bad += 1
            rep.violation("C13-equiv", where, f"{names[a]} == itself", f"{names[a]} is not equal to itself")
        for b in range(a + 1, n):
            if E[a][b] is not None and E[b][a] is not None and E[a][b] != E[b][a]:
                bad += 1
                rep.violation("C13-equiv", where, f"{names[a]} | {names[b]}", f"{names[a]} == {names[b]} is {E[a][b]} but {names[b]} == {names[a]} is {E[b][a]}: == is not symmetric")
    for a, b, c in itertools.product(range(n), repeat=3):
        if E[a][b] and E[b][c] and E[a][c] is False:
            bad += 1
            if bad < 8:
                rep.violation("C13-equiv", where, f"{names[a]} | {names[b]} | {names[c]}", f"{names[a]} == {names[b]} == {names[c]} but {names[a]} != {names[c]}: == is not transitive")
    if not bad:
        rep.ok("C13-equiv", where, f"== is reflexive, symmetric and transitive on {n} objects ({n * n} comparisons, {n**3} triples)")
    # ---- == implies equal hash and repr ----------------------------------------------------------------------
    bad = 0
    for a in range(n):
        for b in range(a + 1, n):
            if E[a][b]:
                ra, ha, _ = before[a]
                rb, hb, _ = before[b]
                if ra != rb:
                    bad += 1
                    rep.violation("C13-hashrepr", where, f"{names[a]} | {names[b]}", f"{names[a]} == {names[b]} but their repr differ: {ra!r:.150} vs {rb!r:.150}")
                if ha != hb:
                    bad += 1
                    rep.violation("C13-hashrepr", where, f"hash {names[a]} | {names[b]}", f"{names[a]} == {names[b]} but their hashes differ (equal keys land in different dict slots)")
    if not bad:
        rep.ok("C13-hashrepr", where, "every pair of equal objects has identical repr and hash")
    # ---- fields --------------------------------------------------------------------------------------------
    bad = 0
    for a in range(n):
        for b in range(a + 1, n):
            if keys[a] == keys[b] and E[a][b] is False:
                bad += 1
                rep.violation("C13-fields", where, f"{names[a]} | {names[b]}", f"{names[a]} and {names[b]} are built from equal constructor arguments but compare unequal")
            if keys[a] != keys[b] and E[a][b]:
                bad += 1
                rep.violation("C13-fields", where, f"{names[a]} | {names[b]}", f"{names[a]} and {names[b]} differ in a constructor field but compare equal: == compares only a subset of the data", witness={"a": before[a][0], "b": before[b][0]})
    if not bad:
        rep.ok("C13-fields", where, "objects differing in one constructor field are unequal; rebuilt duplicates are equal")
    # ---- purity --------------------------------------------------------------------------------------------
    bad = 0
    for k, (nm, o) in enumerate(zip(names, objs)):
        r0, h0, s0 = before[k]
        r1 = safe(lambda o=o: ip.py_repr(o), "repr", nm)
        if lazy_hash[k]:
            o.attrs["_hash"] = None  # force recomputation of the lazily cached hash
        h1 = safe(lambda o=o: W.py_hash(o), "hash", nm)
        s1 = exact(W, o)
        if (r0, h0) != (r1, h1) or s0 != s1:
            bad += 1
            what = "repr" if r0 != r1 else ("hash" if h0 != h1 else "structure")
            rep.violation("C13-pure", where, nm, f"comparing {nm} with other objects changed its {what}")
    if not bad:
        rep.ok("C13-pure", where, f"repr, hash (recomputed) and structure of all {n} objects unchanged by {n * n} comparisons")
    # ---- constructing further objects does not change existing ones (flyweight caches) ----------------------
    snap = [(safe(lambda o=o: ip.py_repr(o), "repr", nm), exact(W, o)) for nm, o in zip(names, objs)]
    again = [
        ("IntValue(True)", lambda: W.new("ufl.constantvalue.IntValue", True)),
        ("IntValue(2.0)", lambda: W.new("ufl.constantvalue.IntValue", 2.0)),
        ("IntValue(2)", lambda: W.new("ufl.constantvalue.IntValue", 2)),
        ("IntValue(3)", lambda: W.new("ufl.constantvalue.IntValue", 3)),
        ("FloatValue(0.5)", lambda: W.new("ufl.constantvalue.FloatValue", 0.5)),
        ("FloatValue(1)", lambda: W.new("ufl.constantvalue.FloatValue", 1)),
        ("Zero()", lambda: W.new("Zero")),
        ("Zero((2,))", lambda: W.new("Zero", (2,))),
        ("Zero((2,), (3,), (2,))", lambda: W.new("Zero", (2,), (3,), (2,))),
        ("FixedIndex(0)", lambda: W.fixed(0)),
        ("FixedIndex(True)", lambda: W.new("ufl.core.multiindex.FixedIndex", True)),
        ("Index(3)", lambda: W.index(3)),
        ("Identity(2)", lambda: W.new("ufl.constantvalue.Identity", 2)),
        ("Label(1)", lambda: W.label(1)),
    ]
    bad = 0
    for what, mk in again:
        try:
            mk()
        except LiftRaise:
            continue  # a rejected construction cannot change anything
        for k, (nm, o) in enumerate(zip(names, objs)):
            now = (safe(lambda o=o: ip.py_repr(o), "repr", nm), exact(W, o))
            if now != snap[k]:
                bad += 1
                rep.violation("C13-pure", where, f"{what} changes {nm}", f"constructing {what} changes the existing object {nm}: repr {snap[k][0]!r:.80} -> {now[0]!r:.80}")
                snap[k] = now
    if not bad:
        rep.ok("C13-pure", where, f"{len(again)} further constructions (cached flyweights, integer-like arguments) leave all existing objects unchanged")
    # ---- eval(repr(x)) == x --------------------------------------------------------------------------------
    ufl_mod = prog.module("ufl.classes")
    ip.overrides["Element"] = lambda name: W._elements[name]
    ip.overrides["triangle"] = W.cell()
    n_eval = 0
    for k, (nm, o) in enumerate(zip(names, objs)):
        if nm.endswith("'"):
            continue
        if ip.obj_class(o) is not None and ip.obj_class(o).name == "FormSum":
            continue  # the round trip is stated for expressions; a weighted sum of base forms prints as `w*c + ...` for reading only
        r = before[k][0]
        if r is None:
            continue
        try:
            tree = ast.parse(r, mode="eval").body
        except SyntaxError:
            rep.violation("C13-evalrepr", where, nm, f"repr of {nm} is not a Python expression: {r[:120]}")
            continue
        try:
            back = ip.eval(tree, Env(), ufl_mod)
            same = bool(ip.obj_eq(back, o))
        except LiftRaise as ex:
            rep.violation("C13-evalrepr", where, nm, f"eval(repr({nm})) raises: {ex.what}  [{r[:120]}]")
            continue
        n_eval += 1
        if same:
            rep.ok("C13-evalrepr", where, f"eval(repr({nm})) == {nm}")
        else:
            rep.violation("C13-evalrepr", where, nm, f"eval(repr({nm})) is not equal to {nm}: {r[:160]}")
    # ---- __getnewargs__ ---------------------------------------------------------------------------------------
    seen = set()
    for nm, o in zip(names, objs):
        k = ip.obj_class(o)
        if k is None or k.name in seen:
            continue
        new = prog.lookup(k, "__new__")
        if not isinstance(new, FuncInfo):
            continue
        a = new.node.args
        required = len(a.args) - 1 - len(a.defaults)
        seen.add(k.name)
        gna = prog.lookup(k, "__getnewargs__")
        if not isinstance(gna, FuncInfo):
            if required > 0 and not a.vararg:
                rep.violation("C13-newargs", new, k.name, f"{k.name}.__new__ has {required} required parameter(s) but the class defines no __getnewargs__: unpickling calls __new__(cls) and fails")
            continue
        try:
            args = ip.call_function(gna, [], {}, self_obj=o)
            back = ip.call_function(new, [k] + list(args), {})
            if ip.obj_class(back) is not None and back is not o and "__initialised_from_source__" not in back.attrs:
                init = prog.lookup(k, "__init__")
                if isinstance(init, FuncInfo):
                    ip.call_function(init, list(args), {}, self_obj=back)
            same = bool(ip.obj_eq(back, o))
        except LiftRaise as ex:
            rep.violation("C13-newargs", gna, k.name, f"{k.name}.__new__(cls, *x.__getnewargs__()) raises for x = {nm}: {ex.what}")
            continue
        if same:
            rep.ok("C13-newargs", gna, f"{k.name}: __new__(cls, *__getnewargs__()) rebuilds {nm}")
        else:
            rep.violation("C13-newargs", gna, k.name, f"{k.name}.__getnewargs__ of {nm} does not rebuild an equal object")
    rep.require_min("C13-evalrepr", 60)
    rep.require_min("C13-newargs", 8)
    rep.explanation = (
        f"{n} objects of the repository classes (base, one-field variants, rebuilt duplicates) built by lifting their constructors; lifted ==, hash, repr on all {n * n} pairs; "
        f"order axioms on {n**3} triples; purity of comparisons; {n_eval} repr strings parsed and re-evaluated with the lifted constructors; __getnewargs__ round trips."
    )
    rep.assumptions = ["finite universe", "user-side finite elements are abstract objects identified by their repr", "pickle modelled as protocol 2: cls.__new__(cls, *__getnewargs__()) followed by state restoration (modelled by __init__ with the same arguments)"]
    return rep
