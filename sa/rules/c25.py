"""C25 -- Sobolev space comparisons form a consistent partial order.

The comparison methods of SobolevSpace / DirectionalSobolevSpace are evaluated *from source* by
constant propagation (the lifter's object model implements Python's rich-comparison protocol,
including reflected operands of subclass instances and functools.total_ordering) over a finite
domain: every space declared at module level of ufl/sobolevspace.py and every directional space
with orders in {0,1,2,inf} of length 1..2 (plus a few of length 3).  On that domain the order
axioms are checked exhaustively:

  C25-axioms  irreflexive, asymmetric, transitive;  a > b <=> b < a;  a <= b <=> (a < b or a == b);
              a >= b <=> (b < a or a == b);  == symmetric and exclusive with <;  comparisons return
              booleans (never exception instances).
  C25-truth   among declared spaces, a < b exactly when b is in the transitive closure of the literal
              parent lists (closure recomputed by the checker from the AST); directional vs
              directional is the strict product order; directional vs the isotropic chain
              L2/H1/H2/H3/HInf and vs HDiv/HCurl agrees with the orders.
  C25-member  `element in S` <=> element.sobolev_space <= S, for declared and directional spaces on either side
              (False where the order itself is undecided).
"""

from __future__ import annotations

import ast
import itertools

from ..lift import Interp, LiftRaise, Obj, Unsupported
from ..model import AnalysisError, norm
from ..report import Report

MOD = "ufl.sobolevspace"
INF = float("inf")


def run(ctx) -> Report:
    rep = Report("C25")
    prog = ctx.prog
    m = prog.module(MOD)
    ip = Interp(prog)
    ip.instantiable = {"SobolevSpace", "DirectionalSobolevSpace"}
    ip.overrides["inf"] = INF
    ip.overrides["isinf"] = lambda x: x == INF or x == -INF

    def is_space_decl(st):
        return isinstance(st, ast.Assign) and isinstance(st.value, ast.Call) and norm(st.value.func) in ("SobolevSpace", "DirectionalSobolevSpace")

    g = ip.exec_module_level(MOD, is_space_decl)
    named = {k: v for k, v in g.items() if isinstance(v, Obj)}
    if len(named) < 10:
        raise AnalysisError(f"only {len(named)} declared Sobolev spaces found (confirmed: 12)")
    # literal parent table from the AST -> transitive closure (oracle)
    parents = {}
    for st in m.tree.body:
        if is_space_decl(st):
            nm = st.targets[0].id
            ps = []
            if len(st.value.args) > 1 and isinstance(st.value.args[1], (ast.List, ast.Tuple)):
                ps = [e.id for e in st.value.args[1].elts if isinstance(e, ast.Name)]
            parents[nm] = set(ps)
    closure = {k: set(v) for k, v in parents.items()}
    changed = True
    while changed:
        changed = False
        for k in closure:
            for p in list(closure[k]):
                new = closure.get(p, set()) - closure[k]
                if new:
                    closure[k] |= new
                    changed = True
    for k in closure:
        if k in closure[k]:
            rep.violation("C25-truth/table", (m, 0, "<module>"), k, f"declared parent table is cyclic at {k}")
    dcls = prog.get_class(f"{MOD}.DirectionalSobolevSpace")
    orders = [0, 1, 2, INF]
    dirs = {}
    for n in (1, 2):
        for o in itertools.product(orders, repeat=n):
            dirs[f"D{o}"] = (o, ip.instantiate(dcls, [tuple(o)], {}))
    for o in ((0, 0, 1), (1, 1, 0), (2, 2, 1), (1, 1, 1), (2, 1, 0)) + (tuple(itertools.product((0, 1, 2), repeat=3)) if ctx.thorough() else ()):
        dirs[f"D{tuple(o)}"] = (tuple(o), ip.instantiate(dcls, [tuple(o)], {}))
    universe = {k: v for k, v in named.items()}
    universe.update({k: v[1] for k, v in dirs.items()})
    names = list(universe)
    where = (m, 1, "comparison operators")

    OPS = {"<": ast.Lt, ">": ast.Gt, "<=": ast.LtE, ">=": ast.GtE, "==": ast.Eq, "!=": ast.NotEq}
    cache = {}

    def cmp(op, a, b):
        key = (op, a, b)
        if key in cache:
            return cache[key]
        try:
            r = ip.compare(OPS[op], universe[a], universe[b], None)
        except LiftRaise as e:
            r = ("raise", e.what)
        cache[key] = r
        return r

    def known(*rs):
        return all(isinstance(r, bool) for r in rs)

    n_pairs = 0
    for a in names:
        for b in names:
            lt, gt, le, ge, eq, ne = (cmp(o, a, b) for o in ("<", ">", "<=", ">=", "==", "!="))
            for o, r in (("<", lt), (">", gt), ("<=", le), (">=", ge), ("==", eq), ("!=", ne)):
                if not isinstance(r, bool) and not (isinstance(r, tuple) and r[0] == "raise" and "NotImplementedError" in r[1]):
                    rep.violation("C25-axioms/bool", where, f"{a} {o} {b}", f"{a} {o} {b} evaluates to {r!r}, not a boolean (or a raised NotImplementedError)")
            if not known(lt, eq):
                continue
            n_pairs += 1
            blt, bgt = cmp("<", b, a), cmp(">", b, a)
            bad = []
            if a == b and lt:
                bad.append(f"{a} < {a} holds (irreflexivity)")
            if known(blt) and lt and blt:
                bad.append(f"both {a} < {b} and {b} < {a} hold (asymmetry)")
            if known(bgt) and bgt != lt:
                bad.append(f"{a} < {b} is {lt} but {b} > {a} is {bgt}")
            if known(le) and le != (lt or eq):
                bad.append(f"{a} <= {b} is {le} but ({a} < {b} or {a} == {b}) is {lt or eq}")
            if known(ge, blt) and ge != (blt or eq):
                bad.append(f"{a} >= {b} is {ge} but ({b} < {a} or {a} == {b}) is {blt or eq}")
            beq = cmp("==", b, a)
            if known(beq) and beq != eq:
                bad.append(f"{a} == {b} is {eq} but {b} == {a} is {beq}")
            if eq and lt:
                bad.append(f"{a} == {b} and {a} < {b} both hold")
            if known(ne) and ne == eq:
                bad.append(f"{a} != {b} is {ne} while == is {eq}")
            if bad:
                for msg in bad:
                    rep.violation("C25-axioms", where, f"{a} ? {b}: {msg.split(' (')[0]}", msg)
            else:
                rep.ok("C25-axioms", where, f"({a}, {b}): <,>,<=,>=,==,!= mutually consistent")
    # transitivity
    lt_pairs = {(a, b) for a in names for b in names if cmp("<", a, b) is True}
    by_first = {}
    for a, b in lt_pairs:
        by_first.setdefault(a, set()).add(b)
    ntr = 0
    def dlen(x):
        return len(dirs[x][0]) if x in dirs else None

    for a, b in lt_pairs:
        for c in by_first.get(b, ()):
            # named spaces are dimension agnostic; directional spaces in one chain must live in the
            # same number of spatial dimensions to be comparable at all
            if len({d for d in (dlen(a), dlen(b), dlen(c)) if d is not None}) > 1:
                continue
            r = cmp("<", a, c)
            ntr += 1
            if r is False:
                rep.violation("C25-axioms/transitive", where, f"{a} < {b} < {c}", f"{a} < {b} and {b} < {c} but not {a} < {c}")
    rep.ok("C25-axioms/transitive", where, f"{ntr} chains a<b<c checked")
    # ground truth among declared spaces
    for a in named:
        for b in named:
            want = b in closure.get(a, set())
            got = cmp("<", a, b)
            if got is want:
                rep.ok("C25-truth/declared", where, f"{a} < {b} is {want} (closure of declared parents)")
            else:
                rep.violation("C25-truth/declared", where, f"{a} < {b}", f"{a} < {b} evaluates to {got} but the declared parent table implies {want}")
    # directional ground truth
    iso = {"L2": 0, "H1": 1, "H2": 2, "H3": 3, "HInf": INF}
    for da, (oa, _) in dirs.items():
        for db, (ob, _) in dirs.items():
            if len(oa) != len(ob):
                continue
            want = all(x >= y for x, y in zip(oa, ob)) and any(x > y for x, y in zip(oa, ob))
            got = cmp("<", da, db)
            (rep.ok("C25-truth/product", where, f"{da} < {db} is {want}") if got is want else rep.violation("C25-truth/product", where, f"{da} < {db}", f"{da} < {db} evaluates to {got}; the strict product order gives {want}"))
        for nm, k in iso.items():
            if nm not in named:
                continue
            want_lt = all(x >= k for x in oa) and any(x > k for x in oa)
            want_eq = all(x == k for x in oa)
            want_gt = all(k >= x for x in oa) and not want_eq
            for op, want in (("<", want_lt), ("==", want_eq)):
                got = cmp(op, da, nm)
                (rep.ok("C25-truth/isotropic", where, f"{da} {op} {nm} is {want}") if got is want else rep.violation("C25-truth/isotropic", where, f"{da} {op} {nm}", f"{da} {op} {nm} evaluates to {got}; orders {oa} vs {k} give {want}"))
            got = cmp("<", nm, da)
            (rep.ok("C25-truth/isotropic", where, f"{nm} < {da} is {want_gt}") if got is want_gt else rep.violation("C25-truth/isotropic", where, f"{nm} < {da}", f"{nm} < {da} evaluates to {got}; orders {k} vs {oa} give {want_gt}"))
        for nm in ("HDiv", "HCurl"):
            if nm in named:
                want = all(x >= 1 for x in oa)
                got = cmp("<=", da, nm)
                (rep.ok("C25-truth/hdiv", where, f"{da} <= {nm} is {want}") if got is want else rep.violation("C25-truth/hdiv", where, f"{da} <= {nm}", f"{da} <= {nm} evaluates to {got}; expected {want} (all orders >= 1)"))
    # membership: over the whole universe (declared and directional spaces on either side)
    for s in names:
        el = Obj("element", sobolev_space=universe[s])
        for S in names:
            want = cmp("<=", s, S)
            try:
                got = ip.contains(el, universe[S], None)
            except LiftRaise as e:
                rep.violation("C25-member", where, f"element({s}) in {S}", f"raises {e.what}")
                continue
            if not isinstance(want, bool):
                # inclusion unknown to the order (NotImplementedError): membership may only answer False
                if got is not False:
                    rep.violation("C25-member", where, f"element({s}) in {S}", f"{s} <= {S} is undecided by the order ({want[1][:60]}) but an element of {s} is reported inside {S}")
                continue
            (rep.ok("C25-member", where, f"element in {s}: `in {S}` is {got}") if got is want else rep.violation("C25-member", where, f"element({s}) in {S}", f"an element of {s} is reported {'inside' if got else 'outside'} {S} but {s} <= {S} is {want}"))
        try:
            ip.contains(universe[s], universe[s], None)
            rep.violation("C25-member", where, f"{s} in {s}", "testing a SobolevSpace for membership in a SobolevSpace does not raise")
        except LiftRaise:
            pass
    rep.exhaustive = True
    rep.require_min("C25-axioms", 400)
    rep.require_min("C25-truth", 300)
    rep.require_min("C25-member", 1000)
    rep.counts.update(spaces_declared=len(named), directional_spaces=len(dirs), ordered_pairs_evaluated=n_pairs, transitivity_chains=ntr)
    rep.explanation = (
        f"The six comparison operators were evaluated from source (constant propagation through the lifter's object model, "
        f"which implements Python's reflected-operand and total_ordering rules) on all ordered pairs of the {len(named)} declared "
        f"spaces and {len(dirs)} directional spaces; order axioms, agreement with the transitive closure of the literal parent "
        "lists, the product order for directional spaces, and membership consistency were checked exhaustively on that domain."
    )
    rep.assumptions = ["finite domain: declared spaces + directional spaces with orders in {0,1,2,inf}, length <= 2 (some of length 3)", "pairs whose comparison raises NotImplementedError (directional vs HDivDiv/HEin/HCurlDiv) are skipped"]
    return rep
