"""C06 -- lowering compound tensor algebra preserves values.

C06-poly   every closed-form table in ufl/compound_expressions.py (determinants 2..5, adjugates
           and cofactors 2..4, deviatoric 2..3, cross, pseudo-determinants, (pseudo-)inverses) is
           lifted to rational functions over Q in the matrix entries and compared, entry by entry,
           with the textbook definition computed by this checker (Leibniz determinant, signed
           minors, A - tr(A)/n I, Levi-Civita, sqrt(det(A^T A)), (A^T A)^-1 A^T).  Exact.
C06-ein    every handler of LowerCompoundAlgebra for a compound tensor operator is lifted on
           symbolic operands of every admissible small shape and compared with the operator's
           definition (operators.py docstrings; conjugation conventions of inner/outer).
C06-wire   LowerCompoundAlgebra resolves determinant/inverse/cofactor/deviatoric to handlers that
           reach the table of the same name (decided by lifting through the handler).
C06-table  T-EXH: every CompoundTensorOperator / CompoundDerivative type resolves to a specific
           handler of LowerCompoundAlgebra (not to the reuse default).
"""

from __future__ import annotations

import itertools
from fractions import Fraction

from .. import sym, uflsem
from ..lift import Interp, LiftRaise, Unsupported
from ..model import AnalysisError
from ..report import Report
from ..uflsem import T, Idx, as_tensor, equal_T

MOD = "ufl.compound_expressions"


# ------------------------------------------------------------------ oracles
def perm_sign(p):
    s = 1
    p = list(p)
    for i in range(len(p)):
        while p[i] != i:
            j = p[i]
            p[i], p[j] = p[j], p[i]
            s = -s
    return s


def o_det(A: T):
    n = A.shape[0]
    acc = sym.ZERO
    for p in itertools.permutations(range(n)):
        term = sym.const(perm_sign(p))
        for i in range(n):
            term = sym.mul(term, A.get((i, p[i])))
        acc = sym.add(acc, term)
    return acc


def minor(A: T, i, j):
    n = A.shape[0]
    rows = [r for r in range(n) if r != i]
    cols = [c for c in range(n) if c != j]
    M = T((n - 1, n - 1), (), (), {((a, b), ()): A.get((r, c)) for a, r in enumerate(rows) for b, c in enumerate(cols)})
    return o_det(M) if n > 1 else sym.ONE


def o_cofactor(A: T) -> T:
    n = A.shape[0]
    return T((n, n), (), (), {((i, j), ()): sym.mul(sym.const((-1) ** (i + j)), minor(A, i, j)) for i in range(n) for j in range(n)})


def o_adj(A: T) -> T:
    return o_cofactor(A).T


def o_inverse(A: T) -> T:
    d = o_det(A)
    return o_adj(A).map(lambda v: sym.div(v, d))


def o_gram(A: T) -> T:
    m, n = A.shape
    data = {}
    for i in range(n):
        for j in range(n):
            acc = sym.ZERO
            for k in range(m):
                acc = sym.add(acc, sym.mul(A.get((k, i)), A.get((k, j))))
            data[((i, j), ())] = acc
    return T((n, n), (), (), data)


def o_pseudo_det(A: T):
    return sym.fn("sqrt", o_det(o_gram(A)))


def o_pseudo_inverse(A: T) -> T:
    m, n = A.shape
    G = o_gram(A)
    Gi = o_inverse(G) if n > 1 else T((1, 1), (), (), {((0, 0), ()): sym.div(sym.ONE, G.get((0, 0)))})
    data = {}
    for r in range(n):
        for s in range(m):
            acc = sym.ZERO
            for q in range(n):
                acc = sym.add(acc, sym.mul(Gi.get((r, q)), A.get((s, q))))
            data[((r, s), ())] = acc
    return T((n, m), (), (), data)


def o_dev(A: T) -> T:
    n = A.shape[0]
    tr = sym.ZERO
    for i in range(n):
        tr = sym.add(tr, A.get((i, i)))
    return T((n, n), (), (), {((i, j), ()): sym.add(A.get((i, j)), sym.neg(sym.mul(sym.const(Fraction(1, n)), tr))) if i == j else A.get((i, j)) for i in range(n) for j in range(n)})


def levi(i, j, k):
    return perm_sign((i, j, k)) if len({i, j, k}) == 3 else 0


def o_cross(a: T, b: T) -> T:
    data = {}
    for i in range(3):
        acc = sym.ZERO
        for j in range(3):
            for k in range(3):
                e = levi(i, j, k)
                if e:
                    acc = sym.add(acc, sym.mul(sym.const(e), sym.mul(a.get((j,)), b.get((k,)))))
        data[((i,), ())] = acc
    return T((3,), (), (), data)


def scalar_T(e):
    return T.scalar(e)


def cmp_scalar(rep, rule, where, what, got, want, ctx, real_only=False):
    got = uflsem.as_T(got)
    want = uflsem.as_T(want)
    ok, how, wit = equal_T(got, want, rng=ctx.rng, real_only=real_only, points=24 if ctx.thorough() else 10)
    if ok:
        rep.ok(rule, where, f"{what}: equal ({how})")
        rep.count(f"equal_{how}")
    else:
        rep.violation(rule, where, what, f"{what} differs from its definition ({how}): {wit}", witness=wit)
    return ok


def make_interp(ctx, gdim=3):
    ip = Interp(ctx.prog)
    ip.gdim = gdim

    def _dx(t, ii):
        g = uflsem.grad(t, ip.gdim)
        for i in ii:
            g = g[(Ellipsis, i)]
        return g

    ip._dx = _dx
    ip.class_models.update(
        {
            "Conj": uflsem.conj,
            "Product": lambda a, b: uflsem.as_T(a) * uflsem.as_T(b),
            "Grad": lambda a: uflsem.grad(a, ip.gdim),
        }
    )
    return ip


def run(ctx) -> Report:
    rep = Report("C06", level="proof")
    prog = ctx.prog
    # the memo-key clause first: it needs no interpretation, and what it finds is reported even if a later clause cannot follow the code
    from ..memokey import check_memo_keys, memo_rule  # noqa: F401
    memo_rule(ctx, rep, "C06-key", ['ufl.algorithms.apply_algebra_lowering', 'ufl.compound_expressions'])
    m = prog.module(MOD)
    ip = make_interp(ctx)

    def fn(name):
        return prog.get_function(MOD, name)

    def call(name, *args):
        f = fn(name)
        return f, ip.call_function(f, list(args))

    sizes = [2, 3, 4] + ([5] if ctx.thorough() else [])
    # ---- determinants ------------------------------------------------------
    for n in sizes:
        A = T.symbolic("A", (n, n))
        f, got = call("determinant_expr", A)
        cmp_scalar(rep, "C06-poly/det", f, f"determinant_expr on {n}x{n}", got, o_det(A), ctx)
    A1 = T.symbolic("A", (1, 1))
    f, got = call("determinant_expr", A1)
    cmp_scalar(rep, "C06-poly/det", f, "determinant_expr on 1x1", got, A1.get((0, 0)), ctx)
    s = T.symbolic("a", ())
    f, got = call("determinant_expr", s)
    cmp_scalar(rep, "C06-poly/det", f, "determinant_expr on scalar", got, s, ctx)
    for name, n in (("determinant_expr_2x2", 2), ("determinant_expr_3x3", 3), ("determinant_expr_nxn", 4)):
        A = T.symbolic("A", (n, n))
        f, got = call(name, A)
        cmp_scalar(rep, "C06-poly/det", f, f"{name} on {n}x{n}", got, o_det(A), ctx)
    # codeterminant on arbitrary row / column subsets (minors)
    A = T.symbolic("A", (4, 4))
    combos = list(itertools.combinations(range(4), 3))
    for rows in combos:
        for cols in combos:
            f = fn("codeterminant_expr_nxn")
            got = ip.call_function(f, [A, list(rows), list(cols)])
            M = T((3, 3), (), (), {((a, b), ()): A.get((r, c)) for a, r in enumerate(rows) for b, c in enumerate(cols)})
            cmp_scalar(rep, "C06-poly/codet", f, f"codeterminant_expr_nxn rows={rows} cols={cols}", got, o_det(M), ctx)
    # ---- adjugate / cofactor / inverse -------------------------------------
    for n in (2, 3, 4):
        A = T.symbolic("A", (n, n))
        f, got = call("adj_expr", A)
        cmp_scalar(rep, "C06-poly/adj", f, f"adj_expr on {n}x{n}", got, o_adj(A), ctx)
        f, got2 = call("cofactor_expr", A)
        cmp_scalar(rep, "C06-poly/cofactor", f, f"cofactor_expr on {n}x{n}", got2, o_cofactor(A), ctx)
        cmp_scalar(rep, "C06-poly/adj=cofT", f, f"adj_expr == cofactor_expr^T on {n}x{n}", uflsem.as_T(got), uflsem.as_T(got2).T, ctx)
        f, got = call("inverse_expr", A)
        cmp_scalar(rep, "C06-poly/inverse", f, f"inverse_expr on {n}x{n}", got, o_inverse(A), ctx)
        for nm in (f"adj_expr_{n}x{n}", f"cofactor_expr_{n}x{n}"):
            f, got = call(nm, A)
            cmp_scalar(rep, "C06-poly/named", f, f"{nm}", got, o_adj(A) if nm.startswith("adj") else o_cofactor(A), ctx)
    f, got = call("inverse_expr", A1)
    cmp_scalar(rep, "C06-poly/inverse", f, "inverse_expr on 1x1", got, T((1, 1), (), (), {((0, 0), ()): sym.div(sym.ONE, A1.get((0, 0)))}), ctx)
    f, got = call("inverse_expr", s)
    cmp_scalar(rep, "C06-poly/inverse", f, "inverse_expr on scalar", got, T.scalar(sym.div(sym.ONE, s.get())), ctx)
    # dimension dispatch must reject what it has no table for (either raises or is right)
    for name, n in (("adj_expr", 5), ("cofactor_expr", 5), ("deviatoric_expr", 4)):
        A = T.symbolic("A", (n, n))
        f = fn(name)
        try:
            got = ip.call_function(f, [A])
        except LiftRaise as e:
            rep.ok("C06-poly/unsupported-dim", f, f"{name} on {n}x{n} raises: {e.what[:60]}")
        else:
            want = {"adj_expr": o_adj, "cofactor_expr": o_cofactor, "deviatoric_expr": o_dev}[name](A)
            cmp_scalar(rep, "C06-poly/unsupported-dim", f, f"{name} on {n}x{n}", got, want, ctx)
    for name in ("adj_expr", "cofactor_expr", "deviatoric_expr"):
        A = T.symbolic("A", (2, 3))
        f = fn(name)
        try:
            ip.call_function(f, [A])
            rep.violation("C06-poly/nonsquare", f, name, f"{name} accepts a non-square 2x3 matrix without raising")
        except LiftRaise:
            rep.ok("C06-poly/nonsquare", f, f"{name} rejects 2x3")
    # ---- deviatoric ---------------------------------------------------------
    for n in (2, 3):
        A = T.symbolic("A", (n, n))
        f, got = call("deviatoric_expr", A)
        cmp_scalar(rep, "C06-poly/dev", f, f"deviatoric_expr on {n}x{n}", got, o_dev(A), ctx)
    # ---- cross --------------------------------------------------------------
    a, b = T.symbolic("a", (3,)), T.symbolic("b", (3,))
    f, got = call("cross_expr", a, b)
    cmp_scalar(rep, "C06-poly/cross", f, "cross_expr", got, o_cross(a, b), ctx)
    # ---- pseudo determinant / inverse ----------------------------------------
    rect = [(2, 1), (3, 1), (3, 2), (4, 2), (4, 3)] + ([(5, 2), (4, 1)] if ctx.thorough() else [])
    for mm, nn in rect:
        A = T.symbolic("A", (mm, nn))
        f, got = call("determinant_expr", A)
        cmp_scalar(rep, "C06-poly/pdet", f, f"determinant_expr (pseudo) on {mm}x{nn}", got, o_pseudo_det(A), ctx)
        f, got = call("pseudo_determinant_expr", A)
        cmp_scalar(rep, "C06-poly/pdet", f, f"pseudo_determinant_expr on {mm}x{nn}", got, o_pseudo_det(A), ctx)
        if (mm, nn) in ((2, 1), (3, 1), (3, 2), (4, 2)):
            f, got = call("inverse_expr", A)
            cmp_scalar(rep, "C06-poly/pinv", f, f"inverse_expr (pseudo) on {mm}x{nn}", got, o_pseudo_inverse(A), ctx)
    A = T.symbolic("A", (3, 2))
    f, got = call("generic_pseudo_determinant_expr", A)
    cmp_scalar(rep, "C06-poly/pdet", f, "generic_pseudo_determinant_expr on 3x2", got, o_pseudo_det(A), ctx)
    f, got = call("generic_pseudo_inverse_expr", A)
    cmp_scalar(rep, "C06-poly/pinv", f, "generic_pseudo_inverse_expr on 3x2", got, o_pseudo_inverse(A), ctx)

    # ---- LowerCompoundAlgebra handlers ----------------------------------------
    lca = prog.get_class("ufl.algorithms.apply_algebra_lowering.LowerCompoundAlgebra")
    tab = ctx.disp.mf_table(lca)
    ctx.crosscheck_dispatch({"LowerCompoundAlgebra"})
    selfobj = object()

    def handler(tname):
        h = tab.get(tname)
        if h is None:
            raise AnalysisError(f"LowerCompoundAlgebra has no handler for {tname}")
        return h

    def lower(tname, *ops, gdim=3):
        h = handler(tname)
        ip.gdim = gdim
        return h, ip.call_function(h.func, [None, None] + list(ops))

    # T-EXH: every compound operator type has its own lowering
    # Grad / ReferenceGrad are the primitives the lowering targets; ReferenceDiv / ReferenceCurl are
    # reference-frame operators that only appear after this pass (reviewed exemptions).
    primitives = {"Grad", "ReferenceGrad", "ReferenceDiv", "ReferenceCurl"}
    compound = [
        t
        for t in ctx.tm.concrete()
        if t.cls.is_subclass_of("CompoundTensorOperator") or (t.cls.is_subclass_of("CompoundDerivative") and t.name not in primitives)
    ]
    if len(compound) < 17:
        raise AnalysisError(f"only {len(compound)} compound operator types found (confirmed: 17)")
    for t in compound:
        h = tab.get(t.name)
        if h is None or h.func.name in ("reuse_if_untouched", "undefined"):
            rep.violation("C06-table", lca, t.name, f"compound operator {t.name} is not lowered by LowerCompoundAlgebra (resolves to {h.func.name if h else None})")
        else:
            rep.ok("C06-table", h.func, f"{t.name} -> {h.func.qualname}")

    def ein(tname, what, got, want):
        cmp_scalar(rep, "C06-ein/" + tname, handler(tname).func, what, got, want, ctx)

    for n in (2, 3):
        A = T.symbolic("A", (n, n))
        i, j = Idx(), Idx()
        h, got = lower("Trace", A)
        ein("Trace", f"trace {n}x{n}", got, uflsem.index_sum(A[i, j] * uflsem.identity(n)[i, j], None) if False else sum((A.get((k, k)) for k in range(n)), sym.ZERO))
        h, got = lower("Transposed", A)
        ein("Transposed", f"transposed {n}x{n}", got, A.T)
        h, got = lower("Skew", A)
        ein("Skew", f"skew {n}x{n}", got, (A - A.T) / 2)
        h, got = lower("Sym", A)
        ein("Sym", f"sym {n}x{n}", got, (A + A.T) / 2)
        for tname, oracle in (("Determinant", lambda A: T.scalar(o_det(A))), ("Cofactor", o_cofactor), ("Inverse", o_inverse), ("Deviatoric", o_dev)):
            h, got = lower(tname, A)
            cmp_scalar(rep, "C06-wire/" + tname, h.func, f"{tname} handler on {n}x{n}", got, oracle(A), ctx)
    # non square transposed
    A = T.symbolic("A", (2, 3))
    h, got = lower("Transposed", A)
    ein("Transposed", "transposed 2x3", got, A.T)
    # cross / perp
    a, b = T.symbolic("a", (3,)), T.symbolic("b", (3,))
    h, got = lower("Cross", a, b)
    ein("Cross", "cross", got, o_cross(a, b))
    p = T.symbolic("a", (2,))
    h, got = lower("Perp", p)
    ein("Perp", "perp", got, T((2,), (), (), {((0,), ()): sym.neg(p.get((1,))), ((1,), ()): p.get((0,))}))
    # dot: contraction of last axis of a with first of b, no conjugation
    shapes = [((2,), (2,)), ((3, 2), (2,)), ((2,), (2, 3)), ((2, 3), (3, 2)), ((2, 2, 3), (3,))]
    if ctx.thorough():
        shapes += [((2, 3), (3, 2, 2)), ((3,), (3, 2, 2))]
    for sa, sb in shapes:
        a, b = T.symbolic("a", sa), T.symbolic("b", sb)
        h, got = lower("Dot", a, b)
        data = {}
        for ca in itertools.product(*[range(d) for d in sa[:-1]]):
            for cb in itertools.product(*[range(d) for d in sb[1:]]):
                acc = sym.ZERO
                for k in range(sa[-1]):
                    acc = sym.add(acc, sym.mul(a.get(ca + (k,)), b.get((k,) + cb)))
                data[(ca + cb, ())] = acc
        ein("Dot", f"dot {sa}.{sb}", got, T(sa[:-1] + sb[1:], (), (), data))
    # inner: sum a[ii] conj(b[ii]);  outer: conj(a)[ii] b[jj]
    for sh in [(2,), (2, 3), (2, 2, 2)]:
        a, b = T.symbolic("a", sh), T.symbolic("b", sh)
        h, got = lower("Inner", a, b)
        acc = sym.ZERO
        for c in itertools.product(*[range(d) for d in sh]):
            acc = sym.add(acc, sym.mul(a.get(c), sym.conj(b.get(c))))
        ein("Inner", f"inner {sh}", got, T.scalar(acc))
    a, b = T.symbolic("a", (2,)), T.symbolic("b", (3,))
    try:
        lower("Inner", a, b)
        rep.violation("C06-ein/Inner", handler("Inner").func, "inner shape guard", "inner of shapes (2,) and (3,) is not rejected")
    except LiftRaise:
        rep.ok("C06-ein/Inner", handler("Inner").func, "inner rejects non-matching shapes")
    for sa, sb in [((2,), (3,)), ((2, 2), (3,)), ((2,), (2, 3))]:
        a, b = T.symbolic("a", sa), T.symbolic("b", sb)
        h, got = lower("Outer", a, b)
        data = {}
        for ca in itertools.product(*[range(d) for d in sa]):
            for cb in itertools.product(*[range(d) for d in sb]):
                data[(ca + cb, ())] = sym.mul(sym.conj(a.get(ca)), b.get(cb))
        ein("Outer", f"outer {sa}x{sb}", got, T(sa + sb, (), (), data))
    # differential compounds (shared with C03): div, nabla_div, nabla_grad, curl
    from .c03 import check_compound_derivatives

    check_compound_derivatives(ctx, rep, lower, prefix="C06-ein/")

    rep.require_min("C06-poly", 60)
    rep.require_min("C06-ein", 25)
    rep.require_min("C06-wire", 8)
    n_exact = rep.counts.get("equal_exact", 0) + rep.counts.get("equal_identical", 0)
    rep.explanation = (
        "Each closed-form table of ufl/compound_expressions.py and each LowerCompoundAlgebra handler was lifted "
        "from the current source (constant propagation of shapes, unrolling, inlining) to rational functions over Q "
        "in symbolic operand entries and compared entry-wise with the textbook definition computed by the checker. "
        f"{n_exact} comparisons were decided exactly in Q[x] (polynomial identity => all real and complex operand values); "
        f"{rep.counts.get('equal_random', 0)} comparisons involve sqrt atoms with non-identical argument forms and were decided "
        "by random interpretation of the lifted terms. Functions inlined: " + ", ".join(sorted(set(ip.trace)))[:600]
    )
    rep.extra["checker_cmd"] = "./check C06"
    rep.extra["trusted_base"] = ["python ast", "fractions.Fraction", "sa/lift.py (Python subset interpreter over terms)", "sa/uflsem.py (reference semantics of index notation)", "sa/sym.py (polynomial normaliser)", "oracle definitions in sa/rules/c06.py"]
    rep.assumptions = [
        "reference semantics of as_tensor/as_matrix/as_vector/indexing/implicit summation as modelled in sa/uflsem.py",
        "float literals denote exact rationals (1.0/3 == 1/3)",
        "matrix dimensions above 5 (determinant) / 4 (adjugate, cofactor) are rejected or handled by the same recursive code",
    ]
    from ..memokey import memo_rule

    return rep
