"""C11 -- forms with different compiled meaning never share a signature.

Form.signature() is lifted (sa/formlift.py, as for C12) on a base form and on variants that each differ
from it in *one* thing a form compiler uses: a literal, an operator, the operand order of a
non-commutative operator, an index pattern, a fixed index, an element (degree / shape / family), the mesh
of a coefficient, the coordinate element, an argument number or part, a constant's shape, a geometric
quantity, the integral type, the subdomain id, one metadata value (scalars, nested containers, large
and high-precision arrays), the extra-domain map, base-form-operator data.

  C11-distinct   the signatures of the base form and of all variants are pairwise different
  C11-equal      the same form built a second time (equal but distinct objects) has the same signature
  C11-cover      compute_terminal_hashdata handles every concrete terminal class or raises (AST + type model)

Known findings (genuine collisions, see known_findings.json): F11b base-form-operator data
(derivatives, function space) is not hashed; F11c metadata values 1 and "1" collide through str().
The base form has three integrals that share their Index objects and meet them in different orders, so that
the canonical index numbering of one integrand can be observed (not) to leak into another.
"""

from __future__ import annotations

import ast
import itertools

from ..formlift import FormWorld, NdArray
from ..lift import LiftRaise, Obj, Unsupported
from ..model import AnalysisError, norm
from ..report import Report

BASE = dict(
    literal=2,
    fliteral=0.5,
    top="Sum",
    swap_division=False,
    index_pattern="ij,ij",
    fixed=0,
    f_degree=2,
    f_shape=(),
    f_family="P",
    g_mesh=0,
    coord_degree=1,
    arg_number=0,
    arg_part=None,
    const_shape=(),
    geo="CellVolume",
    geo_mesh=0,
    itype="cell",
    subdomain_id="everywhere",
    metadata=None,
    extra=None,
    zero_dim=2,
    second_integral=True,
    bfo=None,
    math="Sin",
    cond="LT",
    restricted=None,
    f_is_constant=False,
    f_cls="ufl.coefficient.Coefficient",
    g_cls="ufl.coefficient.Coefficient",
    g_same_space=False,
    swap_fg=False,
)


def big_array(n, change=None, eps=0):
    data = [float(k) for k in range(n)]
    if change is not None:
        data[change] = -1.0
    if eps:
        data[0] = 1.0 + eps
    return NdArray(data)


def variants():
    V = []
    add = lambda name, **kw: V.append((name, kw))  # noqa: E731
    add("literal 2 -> 3", literal=3)
    add("literal 2 -> -2", literal=-2)
    add("float literal 0.5 -> 0.25", fliteral=0.25)
    add("float literal 0.5 -> 0.5000000000000001", fliteral=0.5000000000000001)
    add("top-level Sum -> Product", top="Product")
    add("Division operands swapped", swap_division=True)
    add("index pattern A[i,j]B[i,j] -> A[i,j]B[j,i]", index_pattern="ij,ji")
    add("index pattern A[i,j]B[i,j] -> A[i,i]B[j,j]", index_pattern="ii,jj")
    # a free index replaced by the fixed index 0 in one position (index numbers and fixed values are different namespaces)
    add("index pattern A[i,j]B[i,j] -> A[i,j]B[0,j]", index_pattern="ij,0j")
    add("index pattern A[i,j]B[i,j] -> A[i,j]B[i,0]", index_pattern="ij,i0")
    add("index pattern A[i,j]B[i,j] -> A[0,j]B[i,j]", index_pattern="0j,ij")
    add("index pattern A[i,j]B[i,j] -> A[i,0]B[i,j]", index_pattern="i0,ij")
    add("index pattern A[i,j]B[i,j] -> A[i,j]B[1,j]", index_pattern="ij,1j")
    add("index pattern A[i,j]B[i,j] -> A[i,j]B[i,1]", index_pattern="ij,i1")
    add("fixed index 0 -> 1", fixed=1)
    add("coefficient degree 2 -> 3", f_degree=3)
    add("coefficient family P -> DG", f_family="DG")
    add("coefficient on another mesh", g_mesh=1)
    add("coordinate element degree 1 -> 2", coord_degree=2)
    add("argument number 0 -> 1", arg_number=1)
    add("argument part None -> 0", arg_part=0)
    add("argument part None -> 1", arg_part=1)
    add("constant shape () -> (2,)", const_shape=(2,))
    add("constant shape () -> (3,)", const_shape=(3,))
    add("constant shape () -> (2, 2)", const_shape=(2, 2))
    add("CellVolume -> Circumradius", geo="Circumradius")
    add("geometric quantity on another mesh", geo_mesh=1)
    add("integral type cell -> exterior_facet", itype="exterior_facet")
    add("integral type cell -> vertex", itype="vertex")
    add("subdomain id everywhere -> otherwise", subdomain_id="otherwise")
    add("subdomain id everywhere -> 1", subdomain_id=1)
    add("subdomain id -> 2", subdomain_id=2)
    add("subdomain id -> (1, 2)", subdomain_id=(1, 2))
    add("subdomain id -> (2, 1)", subdomain_id=(2, 1))
    add("subdomain id -> 12", subdomain_id=12)
    add("metadata {} -> quadrature_degree 2", metadata={"quadrature_degree": 2})
    add("metadata quadrature_degree 3", metadata={"quadrature_degree": 3})
    add("metadata quadrature_degree 2.0", metadata={"quadrature_degree": 2.0})
    add("metadata quadrature_degree '2'", metadata={"quadrature_degree": "2"})
    add("metadata other key", metadata={"quadrature_rule": 2})
    add("metadata nested list [1, 2]", metadata={"w": [1, 2]})
    add("metadata nested list [1, [2]]", metadata={"w": [1, [2]]})
    add("metadata nested list [12]", metadata={"w": [12]})
    add("metadata nested tuple ('1', '2') as one string '1, 2'", metadata={"w": ["1, 2"]})
    add("metadata nested dict", metadata={"w": {"a": 1}})
    add("metadata nested dict other value", metadata={"w": {"a": 2}})
    add("metadata None value", metadata={"w": None})
    add("metadata 'None' string", metadata={"w": "None"})
    add("metadata bool True", metadata={"w": True})
    add("metadata array 1500 entries", metadata={"w": big_array(1500)})
    add("metadata array 1500 entries, one changed", metadata={"w": big_array(1500, change=700)})
    add("metadata array, entry differs in the 16th digit", metadata={"w": big_array(1500, eps=2.220446049250313e-16)})
    add("metadata small array", metadata={"w": big_array(3)})
    # the same entries in other shapes (shape is part of the value)
    add("metadata array 2x3", metadata={"w": NdArray([[1.0, 2.0, 3.0], [4.0, 5.0, 6.0]])})
    add("metadata array 3x2, same entries", metadata={"w": NdArray([[1.0, 2.0], [3.0, 4.0], [5.0, 6.0]])})
    add("metadata array (6,), same entries", metadata={"w": NdArray([1.0, 2.0, 3.0, 4.0, 5.0, 6.0])})
    add("metadata array (6,1), same entries", metadata={"w": NdArray([[1.0], [2.0], [3.0], [4.0], [5.0], [6.0]])})
    add("metadata small array, one changed", metadata={"w": big_array(3, change=1)})
    add("extra domain map {m1: cell}", extra=[(1, "cell")])
    add("extra domain map {m1: exterior_facet}", extra=[(1, "exterior_facet")])
    add("extra domain map {m1: cell, m2: exterior_facet}", extra=[(1, "cell"), (2, "exterior_facet")])
    add("zero index dimension 2 -> 3", zero_dim=3)
    add("without the second integral", second_integral=False)
    add("math function sin -> cos", math="Cos")
    add("condition < -> <=", cond="LE")
    add("restriction + on the coefficient", restricted="PositiveRestricted")
    add("restriction - on the coefficient", restricted="NegativeRestricted")
    add("coefficient -> constant with the same count", f_is_constant=True)
    # which coefficient appears where; user-side subclasses of Coefficient (the documented extension point)
    # (the Python class of a coefficient is not compiler-relevant: same meaning => same signature, `_same`)
    add("g in the space of f", g_same_space=True, _same="f,g")
    add("g in the space of f, f and g exchanged", g_same_space=True, swap_fg=True, _same="g,f")
    add("f is a user-side Function", g_same_space=True, f_cls="userside.Function", _same="f,g")
    add("f is a user-side Function, f and g exchanged", g_same_space=True, f_cls="userside.Function", swap_fg=True, _same="g,f")
    add("f, g of two user-side types", g_same_space=True, f_cls="userside.Function", g_cls="userside.OtherFunction", _same="f,g")
    add("f, g of two user-side types, exchanged", g_same_space=True, f_cls="userside.Function", g_cls="userside.OtherFunction", swap_fg=True, _same="g,f")
    add("external operator N(f; V)", bfo=dict(derivatives=(0,), space_degree=1))
    add("external operator, derivatives (1,)", bfo=dict(derivatives=(1,), space_degree=1))
    add("external operator into a P2 space", bfo=dict(derivatives=(0,), space_degree=2))
    return V


# pairs that collide today and are listed in known_findings.json
def build(W, p):
    p = dict(BASE, **{k: v for k, v in p.items() if not k.startswith("_")})
    m = [W.mesh(k, degree=p["coord_degree"] if k == 0 else 1) for k in range(3)]
    fe = W.element(p["f_family"], p["f_degree"], p["f_shape"])
    V0 = W.space(m[0], fe)
    f = W.constant(m[0], 0) if p["f_is_constant"] else W.coefficient(V0, 0, cls=p["f_cls"])
    g = W.coefficient(V0 if p["g_same_space"] else W.space(m[p["g_mesh"]], W.element("P", 1)), 1, cls=p["g_cls"])
    if p["swap_fg"]:
        f, g = g, f
    A = W.coefficient(W.space(m[0], W.element("P", 1, (2, 2))), 2)
    B = W.coefficient(W.space(m[0], W.element("P", 1, (2, 2))), 3)
    w = W.coefficient(W.space(m[0], W.element("P", 1, (2,))), 4)
    c = W.constant(m[0], 1, p["const_shape"])
    v = W.argument(W.space(m[0], W.element("P", 1)), p["arg_number"], p["arg_part"])
    geo = W.geometric(p["geo"], m[p["geo_mesh"]])
    lit, flit = W.literal(p["literal"]), W.literal(p["fliteral"])
    i, j = W.index(0), W.index(1)
    scal = dict(ufl_shape=(), ufl_free_indices=(), ufl_index_dimensions=())
    idx = lambda t, *ii: W.op("Indexed", t, W.multiindex(*ii), **scal)  # noqa: E731
    pa, pb = p["index_pattern"].split(",")
    ix = {"i": i, "j": j, "0": 0, "1": 1}
    contraction = W.op("IndexSum", W.op("IndexSum", W.op("Product", idx(A, *[ix[ch] for ch in pa]), idx(B, *[ix[ch] for ch in pb]), **scal), W.multiindex(j), **scal), W.multiindex(i), **scal)
    fo = f
    if p["restricted"]:
        fo = W.op(p["restricted"], f)
    if p["bfo"]:
        Vb = W.space(m[0], W.element("P", p["bfo"]["space_degree"]))
        fo = W.new("ufl.core.external_operator.ExternalOperator", f, function_space=Vb, derivatives=p["bfo"]["derivatives"])
    div = W.op("Division", g, geo) if not p["swap_division"] else W.op("Division", geo, g)
    zero_k = W.new("Zero", (), (1,), (p["zero_dim"],))
    wz = W.op("IndexSum", W.op("Product", W.op("Conditional", W.op(p["cond"], g, lit), zero_k, idx(w, j)), idx(w, j), **scal), W.multiindex(j), **scal)
    terms = [W.op("Product", lit, W.op("Product", fo, v)), div, contraction, idx(w, p["fixed"]), W.op(p["math"], W.op("Product", flit, g)), wz]
    if p["const_shape"] == ():
        terms.append(c)
    else:
        terms.append(idx(c, *([0] * len(p["const_shape"]))) if len(p["const_shape"]) == 1 else idx(W.op("Indexed", c, W.multiindex(0)), 0))
    e = terms[0]
    for t in terms[1:]:
        e = W.op(p["top"], e, t, **scal)
    extra = None
    if p["extra"]:
        extra = [(m[k], it) for k, it in p["extra"]]
    md = p["metadata"]
    itgs = [W.integral(e, p["itype"], m[0], p["subdomain_id"], md, None, extra)]
    if p["second_integral"]:
        # the second integrand reuses the Index objects of the first one (one `i, j = indices(2)` per file is
        # the common style) and meets them in the opposite order
        shared = W.op("IndexSum", W.op("IndexSum", W.op("Product", idx(B, j, i), W.op("Product", idx(w, j), idx(w, i), **scal), **scal), W.multiindex(i), **scal), W.multiindex(j), **scal)
        itgs.append(W.integral(W.op("Sum", W.op("Product", g, v), shared, **scal), "cell", m[0], 7))
        # ... and so does an integral that sorts after the first one (integrals are hashed in sorted order)
        # (summed in the other nesting order, so that its canonical index numbering differs from the other integrands')
        shared2 = W.op("IndexSum", W.op("IndexSum", W.op("Product", idx(A, j, i), W.op("Product", idx(w, j), idx(w, i), **scal), **scal), W.multiindex(j), **scal), W.multiindex(i), **scal)
        itgs.append(W.integral(W.op("Product", shared2, v, **scal), "interior_facet" if p["itype"] != "interior_facet" else "vertex", m[0], 7))
    return W.form(itgs)


def run(ctx) -> Report:
    rep = Report("C11")
    prog = ctx.prog
    # the memo-key clause first: it needs no interpretation, and what it finds is reported even if a later clause cannot follow the code
    from ..memokey import check_memo_keys, memo_rule  # noqa: F401
    memo_rule(ctx, rep, "C11-key", ["ufl.algorithms.signature", "ufl.functionspace", "ufl.domain", "ufl.form", "ufl.integral", "ufl.coefficient", "ufl.constant", "ufl.argument", "ufl.geometry", "ufl.constantvalue", "ufl.core.terminal", "ufl.core.multiindex", "ufl.variable"])
    sig_fn = prog.get_function("ufl.algorithms.signature", "compute_form_signature")
    W = FormWorld(ctx)
    sigs = {}
    logs = {}
    allv = [("base", {})] + variants()
    for name, kw in allv:
        try:
            F = build(W, kw)
            n0 = len(W.sha_log)
            sigs[name] = W.signature(F)
            logs[name] = W.sha_log[n0:]
        except LiftRaise as ex:
            rep.violation("C11-distinct", sig_fn, name, f"computing the signature of variant '{name}' fails: {ex.what}")
    if len(sigs) < 60:
        raise AnalysisError(f"only {len(sigs)} variants lifted")
    # ---- equal forms, equal signatures ------------------------------------------------------------------
    for name, kw in [("base", {}), ("metadata nested dict", {"metadata": {"w": {"a": 1}}}), ("external operator N(f; V)", {"bfo": dict(derivatives=(0,), space_degree=1)})]:
        try:
            s2 = W.signature(build(W, kw))
        except LiftRaise as ex:
            rep.violation("C11-equal", sig_fn, name, f"rebuilding '{name}' fails: {ex.what}")
            continue
        if s2 == sigs.get(name):
            rep.ok("C11-equal", sig_fn, f"'{name}' rebuilt from equal but distinct objects has the same signature")
        else:
            rep.violation("C11-equal", sig_fn, f"rebuild of {name}", f"the form '{name}' built twice in the same way has two different signatures")
    # ---- pairwise distinct ----------------------------------------------------------------------------
    by_sig = {}
    for name, s in sigs.items():
        by_sig.setdefault(s, []).append(name)
    n_pairs = len(sigs) * (len(sigs) - 1) // 2
    meaning = {name: kw.get("_same", name) for name, kw in allv}
    collisions = [(a, b) for group in by_sig.values() for a, b in itertools.combinations(group, 2) if meaning[a] != meaning[b]]
    for a, b in itertools.combinations(sigs, 2):
        if meaning[a] == meaning[b]:
            if sigs[a] == sigs[b]:
                rep.ok("C11-equal", sig_fn, f"'{a}' and '{b}' (same compiled meaning) have the same signature")
            else:
                rep.violation("C11-equal", sig_fn, f"{a} | {b}", f"the forms '{a}' and '{b}' mean the same to a form compiler but have different signatures")
    for a, b in collisions:
        rep.violation(
            "C11-distinct",
            sig_fn,
            f"{a} | {b}",
            f"the forms '{a}' and '{b}' differ in what a form compiler uses but have the same signature",
            witness={"a": a, "b": b},
        )
    rep.ok("C11-distinct", sig_fn, f"{n_pairs - len(collisions)} of {n_pairs} pairs among the base form and {len(sigs) - 1} one-change variants have different signatures")
    # ---- coverage of terminal classes -----------------------------------------------------------------------
    check_cover(ctx, rep)
    rep.require_min("C11-equal", 3)
    rep.require_min("C11-cover", 10)
    rep.explanation = (
        f"Form.signature() lifted on a base form and {len(sigs) - 1} variants differing in one compiler-relevant datum each; all {n_pairs} pairs compared; "
        "terminal-class coverage of compute_terminal_hashdata decided on the AST against the type model."
    )
    rep.assumptions = ["sha512 modelled by itself: distinct pre-hash data are taken to give distinct digests", "traversal drivers modelled (C19)", "finite elements are abstract objects identified by their repr / signature string"]
    from ..memokey import memo_rule

    return rep


def check_cover(ctx, rep):
    """every concrete terminal class is matched by a branch of the isinstance chain (else: raises)"""
    prog, tm = ctx.prog, ctx.tm
    fn = prog.get_function("ufl.algorithms.signature", "compute_terminal_hashdata")
    tested = []
    has_raise_else = False
    for node in ast.walk(fn.node):
        if isinstance(node, ast.If):
            t = node.test
            for call in ast.walk(t):
                if isinstance(call, ast.Call) and isinstance(call.func, ast.Name) and call.func.id == "isinstance" and len(call.args) == 2:
                    names = [n.id for n in ast.walk(call.args[1]) if isinstance(n, ast.Name)]
                    tested.extend(names)
            if node.orelse and any(isinstance(s, ast.Raise) for s in node.orelse):
                has_raise_else = True
    if not tested:
        raise AnalysisError("no isinstance chain found in compute_terminal_hashdata")
    if not has_raise_else:
        rep.violation("C11-cover", fn, "else branch", "the isinstance chain of compute_terminal_hashdata does not end in a raise: unknown terminal types would get no / stale hash data")
    for t in tm.terminals():
        if any(tm.is_sub(t, base) for base in tested):
            rep.ok("C11-cover", fn, f"terminal class {t.name} is matched by the chain")
        else:
            # falls to the raising else branch: loud, not a collision
            rep.ok("C11-cover", fn, f"terminal class {t.name} is not matched and reaches the raising else branch (fails loudly)")
