"""C08 -- function pullbacks implement each element's declared push-forward.

C08-ein    `apply` of every Piola pullback class is lifted on a symbolic reference value r of every
           admissible small shape (block axes x mapped axes) for (gdim, tdim) in {(2,2),(3,3),(3,2),
           (2,1),(3,1)} with symbolic J, K, detJ and compared entry-wise (exact, Q[J,K,1/detJ,r]) with
           the textbook push-forward written out by this checker.
C08-shape  physical_value_shape(element, domain) of each class == shape of what its apply builds.
C08-mixed  MixedPullback.apply / SymmetricPullback.apply lifted on element layouts with differently
           mapped sub-elements (incl. immersed gdim != tdim) == concatenation / symmetric placement of
           the sub push-forwards; their physical_value_shape agrees.
C08-guard  FunctionPullbackApplier.form_argument: both shape checks raise, the value returned is the
           result of element.pullback.apply(ReferenceValue(o)); table: every FormArgument type resolves
           to it, no other terminal does.
"""

from __future__ import annotations

import ast
import itertools

from .. import sym, uflmodel, uflsem
from ..lift import Interp, LiftRaise, Obj, Unsupported
from ..model import AnalysisError, norm
from ..report import Report
from ..uflsem import T, equal_T

MOD = "ufl.pullback"


class NpArr:
    __lift_host__ = True

    def __init__(self, data):
        self.data = list(data)

    def reshape(self, shape):
        if isinstance(shape, int):
            shape = (shape,)
        shape = tuple(shape)
        n = 1
        for d in shape:
            n *= d
        if n != len(self.data):
            raise LiftRaise(f"ValueError: cannot reshape array of size {len(self.data)} into shape {shape}")

        def build(flat, shape):
            if not shape:
                return flat[0]
            step = len(flat) // shape[0]
            return [build(flat[k * step : (k + 1) * step], shape[1:]) for k in range(shape[0])]

        return build(self.data, shape)


def np_model():
    def prod(x, dtype=None):
        r = 1
        for v in x:
            r *= v
        return r

    return Obj(
        "numpy",
        ndindex=lambda *shape: list(itertools.product(*[range(d) for d in (shape[0] if len(shape) == 1 and isinstance(shape[0], (tuple, list)) else shape)])),
        asarray=lambda x: NpArr(x),
        array=lambda x: NpArr(x),
        prod=prod,
    )


def geometry_models(ip, dom):
    gd, td = (dom.attrs["geometric_dimension"], dom.attrs["topological_dimension"]) if isinstance(dom, Obj) else (dom.geometric_dimension, dom.topological_dimension)
    def tag(d):
        if isinstance(d, Obj):
            return d.attrs.get("_tag", "")
        if isinstance(d, T):  # a geometric quantity of that mesh (JacobianDeterminant(J))
            return d.tags.get("_tag", "")
        return ""

    def sym_geo(name, shape):
        def model(d):
            t = T.symbolic(name + tag(d), shape)
            t.tags["_tag"] = tag(d)
            return t

        return model

    return {"Jacobian": sym_geo("J", (gd, td)), "JacobianInverse": sym_geo("K", (td, gd)), "JacobianDeterminant": sym_geo("detJ", ())}


def make_domain(gdim, tdim):
    dom = Obj("domain", geometric_dimension=gdim, topological_dimension=tdim)
    dom.attrs["iterable_like"] = lambda element: [dom for _ in range(element.attrs["num_sub_elements"])]
    dom.attrs["__class__"] = None
    return dom


# ---------------------------------------------------------------- oracle
def push(kind, r: T, gdim, tdim, tag="") -> T:
    J, K, detJ = T.symbolic("J" + tag, (gdim, tdim)), T.symbolic("K" + tag, (tdim, gdim)), sym.sym("detJ" + tag)
    inv = sym.div(sym.ONE, detJ)
    sh = r.shape

    def comps(shape):
        return itertools.product(*[range(d) for d in shape])

    data = {}
    if kind == "identity":
        return r
    if kind == "l2":
        return T(sh, (), (), {(c, ()): sym.mul(inv, r.get(c)) for c in comps(sh)})
    if kind in ("contravariant", "covariant"):
        out = sh[:-1] + (gdim,)
        for c in comps(out):
            k, i = c[:-1], c[-1]
            acc = sym.ZERO
            for j in range(tdim):
                if kind == "contravariant":
                    acc = sym.add(acc, sym.mul(sym.mul(inv, J.get((i, j))), r.get(k + (j,))))
                else:
                    acc = sym.add(acc, sym.mul(K.get((j, i)), r.get(k + (j,))))
            data[(c, ())] = acc
        return T(out, (), (), data)
    out = sh[:-2] + (gdim, gdim)
    for c in comps(out):
        k, i, j = c[:-2], c[-2], c[-1]
        acc = sym.ZERO
        for m in range(tdim):
            for n in range(tdim):
                rv = r.get(k + (m, n))
                if kind == "double_contravariant":
                    t = sym.mul(sym.mul(sym.mul(inv, inv), sym.mul(J.get((i, m)), J.get((j, n)))), rv)
                elif kind == "double_covariant":
                    t = sym.mul(sym.mul(K.get((m, i)), K.get((n, j))), rv)
                elif kind == "covariant_contravariant":
                    t = sym.mul(sym.mul(inv, sym.mul(K.get((m, i)), J.get((j, n)))), rv)
                else:
                    raise AnalysisError(kind)
                acc = sym.add(acc, t)
        data[(c, ())] = acc
    return T(out, (), (), data)


KINDS = {
    "IdentityPullback": ("identity", 0),
    "ContravariantPiola": ("contravariant", 1),
    "CovariantPiola": ("covariant", 1),
    "L2Piola": ("l2", 0),
    "DoubleContravariantPiola": ("double_contravariant", 2),
    "DoubleCovariantPiola": ("double_covariant", 2),
    "CovariantContravariantPiola": ("covariant_contravariant", 2),
}
PASSTHROUGH = ("PhysicalPullback", "CustomPullback")


def flat(t: T):
    return [t.get(c) for c in itertools.product(*[range(d) for d in t.shape])]


def run(ctx) -> Report:
    rep = Report("C08")
    prog = ctx.prog
    # the memo-key clause first: it needs no interpretation, and what it finds is reported even if a later clause cannot follow the code
    from ..memokey import check_memo_keys, memo_rule  # noqa: F401
    memo_rule(ctx, rep, "C08-key", ['ufl.algorithms.apply_function_pullbacks', 'ufl.pullback'])
    m = prog.module(MOD)
    dims = [(2, 2), (3, 3), (3, 2), (2, 1), (3, 1)]
    blocks = [(), (2,)] + ([(2, 2), (3,)] if ctx.thorough() else [])

    def new_interp(dom):
        ip = Interp(prog)
        ip.overrides["extract_unique_domain"] = lambda expr, expand_mesh_sequence=True: dom
        ip.overrides["np"] = np_model()
        ip.class_models.update(geometry_models(ip, dom))
        ip.class_models["MeshSequence"] = prog.get_class("ufl.domain.MeshSequence")
        return ip

    def pb_obj(clsname, *args):
        return uflmodel.make_pullback(prog, clsname, *args)

    def element(ref_shape, pullback=None, subs=()):
        size = 1
        for d in ref_shape:
            size *= d
        e = Obj("element", reference_value_shape=tuple(ref_shape), reference_value_size=size, sub_elements=list(subs), num_sub_elements=len(subs), pullback=pullback)
        e.attrs["__class__"] = None
        return e

    def isinstance_hook(x, cls):
        if getattr(cls, "name", None) == "MeshSequence":
            return False
        return NotImplemented

    # ---- single pullbacks ------------------------------------------------------
    for cname, (kind, nmapped) in KINDS.items():
        cls = m.classes.get(cname)
        if cls is None:
            raise AnalysisError(f"{MOD}.{cname} not found (anchor vanished)")
        f_apply = prog.lookup(cls, "apply")
        f_shape = prog.lookup(cls, "physical_value_shape")
        for gdim, tdim in dims:
            for blk in blocks:
                ref_shape = blk + (tdim,) * nmapped
                dom = make_domain(gdim, tdim)
                ip = new_interp(dom)
                ip.isinstance_hook = isinstance_hook
                r = T.symbolic("r", ref_shape)
                pb = pb_obj(cname)
                what = f"{cname}.apply gdim={gdim} tdim={tdim} reference shape {ref_shape}"
                try:
                    got = ip.call_function(f_apply, [r], {}, self_obj=pb)
                except LiftRaise as e:
                    rep.violation("C08-ein/" + cname, f_apply, what, f"{what}: lifted apply raises {e.what}")
                    continue
                want = push(kind, r, gdim, tdim)
                got = uflsem.as_T(got)
                ok, how, wit = equal_T(got, want, rng=ctx.rng)
                if ok:
                    rep.ok("C08-ein/" + cname, f_apply, f"{what}: equals the push-forward ({how})")
                else:
                    rep.violation("C08-ein/" + cname, f_apply, what, f"{what} is not the declared push-forward ({how}): {wit}", witness=wit)
                # shape agreement
                el = element(ref_shape, pb)
                shp = ip.call_function(f_shape, [el, dom], {}, self_obj=pb)
                if tuple(shp) == want.shape:
                    rep.ok("C08-shape/" + cname, f_shape, f"physical_value_shape{tuple(shp)} matches push-forward, ref {ref_shape} gdim={gdim}")
                else:
                    rep.violation("C08-shape/" + cname, f_shape, f"{cname}.physical_value_shape ref {ref_shape} gdim={gdim} tdim={tdim}", f"physical_value_shape gives {tuple(shp)} but the push-forward of reference shape {ref_shape} has shape {want.shape}")
    for cname in PASSTHROUGH:
        cls = m.classes.get(cname)
        if cls is None:
            raise AnalysisError(f"{MOD}.{cname} not found (anchor vanished)")
        f_apply = prog.lookup(cls, "apply")
        dom = make_domain(2, 2)
        ip = new_interp(dom)
        r = T.symbolic("r", (2,))
        got = ip.call_function(f_apply, [r], {}, self_obj=pb_obj(cname))
        if got is r:
            rep.ok("C08-ein/" + cname, f_apply, "returns its argument")
        else:
            rep.violation("C08-ein/" + cname, f_apply, f"{cname}.apply", "does not return its argument unchanged")

    # ---- mixed ---------------------------------------------------------------
    mixed_cls = prog.get_class(f"{MOD}.MixedPullback")
    f_apply = prog.lookup(mixed_cls, "apply")
    f_shape = prog.lookup(mixed_cls, "physical_value_shape")
    layouts = [
        [("ContravariantPiola", 1, ()), ("IdentityPullback", 0, ())],
        [("IdentityPullback", 0, (2,)), ("CovariantPiola", 1, ()), ("L2Piola", 0, ())],
        [("CovariantPiola", 1, ()), ("ContravariantPiola", 1, ()), ("IdentityPullback", 0, ())],
        [("DoubleCovariantPiola", 2, ()), ("ContravariantPiola", 1, (2,)), ("IdentityPullback", 0, ())],
    ]
    for gdim, tdim in [(2, 2), (3, 2), (3, 3)] + ([(2, 1)] if ctx.thorough() else []):
        for layout in layouts:
            dom = make_domain(gdim, tdim)
            ip = new_interp(dom)
            ip.isinstance_hook = isinstance_hook
            subs = []
            for cname, nmapped, blk in layout:
                subs.append(element(blk + (tdim,) * nmapped, pb_obj(cname)))
            total = sum(e.attrs["reference_value_size"] for e in subs)
            el = element((total,), None, subs)
            pb = pb_obj("MixedPullback", el)
            el.attrs["pullback"] = pb
            r = T.symbolic("r", (total,))
            what = f"MixedPullback.apply gdim={gdim} tdim={tdim} sub-elements {[(c, e.attrs['reference_value_shape']) for (c, _, _), e in zip(layout, subs)]}"
            # oracle
            want_flat = []
            off = 0
            for (cname, nmapped, blk), e in zip(layout, subs):
                size = e.attrs["reference_value_size"]
                rs = e.attrs["reference_value_shape"]
                comps = list(itertools.product(*[range(d) for d in rs]))
                rsub = T(rs, (), (), {(c, ()): r.get((off + k,)) for k, c in enumerate(comps)})
                want_flat.extend(flat(push(KINDS[cname][0], rsub, gdim, tdim)))
                off += size
            want = T((len(want_flat),), (), (), {((k,), ()): v for k, v in enumerate(want_flat)})
            try:
                got = uflsem.as_T(ip.call_function(f_apply, [r], {}, self_obj=pb))
            except LiftRaise as e:
                rep.violation("C08-mixed", f_apply, what, f"{what}: lifted apply raises {e.what}")
                continue
            ok, how, wit = equal_T(got, want, rng=ctx.rng)
            if ok:
                rep.ok("C08-mixed", f_apply, f"{what}: equals concatenated sub push-forwards ({how})")
            else:
                rep.violation("C08-mixed", f_apply, what, f"{what} differs from the concatenation of the sub-elements' push-forwards ({how}): {wit}", witness=wit)
            shp = ip.call_function(f_shape, [el, dom], {}, self_obj=pb)
            if tuple(shp) == want.shape:
                rep.ok("C08-shape/MixedPullback", f_shape, f"physical_value_shape {tuple(shp)}")
            else:
                rep.violation("C08-shape/MixedPullback", f_shape, what, f"physical_value_shape gives {tuple(shp)}, push-forward has shape {want.shape}")

    # ---- composite sub-elements: a mixed element whose sub-elements are themselves symmetric or mixed elements -------
    # description of an element:  ("leaf", pullback class, mapped axes, block) | ("sym", symmetry map, sub-descriptions)
    # | ("mixed", sub-descriptions)
    def build_element(desc, gdim, tdim):
        kind = desc[0]
        if kind == "leaf":
            _, cname, nmapped, blk = desc
            return element(blk + (tdim,) * nmapped, pb_obj(cname))
        if kind == "sym":
            subs_ = [build_element(d, gdim, tdim) for d in desc[2]]
            e = element((sum(x.attrs["reference_value_size"] for x in subs_),), None, subs_)
            e.attrs["pullback"] = pb_obj("SymmetricPullback", e, dict(desc[1]))
            return e
        subs_ = [build_element(d, gdim, tdim) for d in desc[1]]
        e = element((sum(x.attrs["reference_value_size"] for x in subs_),), None, subs_)
        e.attrs["pullback"] = pb_obj("MixedPullback", e)
        return e

    def push_element(desc, el, rsub, gdim, tdim):
        """flat list of the physical components of the element's push-forward of the reference values rsub (flat list)"""
        kind = desc[0]
        if kind == "leaf":
            rs = el.attrs["reference_value_shape"]
            comps = list(itertools.product(*[range(d) for d in rs]))
            return flat(push(KINDS[desc[1]][0], T(rs, (), (), {(c, ()): rsub[k] for k, c in enumerate(comps)}), gdim, tdim))
        pieces, off = [], 0
        for d, e in zip(desc[2] if kind == "sym" else desc[1], el.attrs["sub_elements"]):
            size = e.attrs["reference_value_size"]
            pieces.append(push_element(d, e, rsub[off : off + size], gdim, tdim))
            off += size
        if kind == "mixed":
            return [x for p_ in pieces for x in p_]
        symm = desc[1]
        block = tuple(i + 1 for i in max(symm.keys()))
        out = []
        for comp in itertools.product(*[range(d) for d in block]):
            out.extend(pieces[symm[comp]])
        return out

    P1, P1V, RT = ("leaf", "IdentityPullback", 0, ()), ("leaf", "IdentityPullback", 0, (2,)), ("leaf", "ContravariantPiola", 1, ())
    swapped = ("sym", {(0,): 1, (1,): 0}, [P1, P1])
    colmajor = ("sym", {(0, 0): 0, (1, 0): 1, (0, 1): 2, (1, 1): 3}, [P1, P1, P1, P1])
    symmetric = ("sym", {(0, 0): 0, (0, 1): 1, (1, 0): 1, (1, 1): 2}, [P1, P1, P1])
    composite = [
        ("Mixed[swapped 2-vector (fields 1, 0), P1]", ("mixed", [swapped, P1])),
        ("Mixed[P1^2, swapped 2-vector]", ("mixed", [P1V, swapped])),
        ("Mixed[full 2x2 tensor numbered column by column, P1]", ("mixed", [colmajor, P1])),
        ("Mixed[symmetric 2x2 tensor, P1]", ("mixed", [symmetric, P1])),
        ("Mixed[Mixed[full 2x2 column-major, P1], RT]", ("mixed", [("mixed", [colmajor, P1]), RT])),
        ("Mixed[Mixed[RT, P1], swapped 2-vector]", ("mixed", [("mixed", [RT, P1]), swapped])),
    ]
    for gdim, tdim in [(2, 2), (3, 2)]:
        for cname_, desc in composite:
            dom = make_domain(gdim, tdim)
            ip = new_interp(dom)
            ip.isinstance_hook = lambda x, cls: (True if isinstance(x, Obj) and x.kind == "element" and not isinstance(cls, tuple) and getattr(cls, "name", "") != "MeshSequence" else isinstance_hook(x, cls))
            el = build_element(desc, gdim, tdim)
            pb = el.attrs["pullback"]
            total = el.attrs["reference_value_size"]
            r = T.symbolic("r", (total,))
            what = f"{cname_}: MixedPullback.apply gdim={gdim} tdim={tdim}"
            want_flat = push_element(desc, el, [r.get((k,)) for k in range(total)], gdim, tdim)
            want = T((len(want_flat),), (), (), {((k,), ()): v for k, v in enumerate(want_flat)})
            try:
                got = uflsem.as_T(ip.call_function(f_apply, [r], {}, self_obj=pb))
            except LiftRaise as e:
                rep.violation("C08-mixed/composite", f_apply, what, f"{what}: lifted apply raises {e.what}")
                continue
            ok, how, wit = equal_T(got, want, rng=ctx.rng)
            if ok:
                rep.ok("C08-mixed/composite", f_apply, f"{what}: every sub-element pushed forward by its own (composite) pull back ({how})")
            else:
                rep.violation("C08-mixed/composite", f_apply, what, f"{what} differs from the concatenation of the sub-elements' push-forwards ({how}): {wit}", witness=wit)

    # ---- mixed element on a sequence of component meshes (one mesh, hence one geometry, per sub-element) ---------
    MS = prog.get_class("ufl.domain.MeshSequence")

    class MeshSeq:
        """stand-in for a MeshSequence: a sized, indexable, iterable collection of component meshes (host object)"""

        __lift_host__ = True

        def __init__(self, gdim, tdim, meshes):
            self.geometric_dimension, self.topological_dimension, self.meshes = gdim, tdim, tuple(meshes)

        def __len__(self):
            return len(self.meshes)

        def __getitem__(self, i):
            return self.meshes[i]

        def __iter__(self):
            return iter(self.meshes)

        def iterable_like(self, element):
            return list(self.meshes)

    def mesh_sequence(gdim, tdim, k):
        meshes = []
        for n in range(k):
            d = Obj("domain", geometric_dimension=gdim, topological_dimension=tdim, _tag=f"@m{n}")
            d.attrs["__class__"] = None
            meshes.append(d)
        return MeshSeq(gdim, tdim, meshes), meshes

    seq_layouts = [
        # (sub-elements as (pullback, mapped axes, block), positions sharing one element object)
        ([("ContravariantPiola", 1, ()), ("ContravariantPiola", 1, ())], [(0, 1)]),
        ([("CovariantPiola", 1, ()), ("IdentityPullback", 0, ()), ("CovariantPiola", 1, ())], [(0, 2)]),
        ([("L2Piola", 0, ()), ("L2Piola", 0, ())], [(0, 1)]),
        ([("ContravariantPiola", 1, ()), ("CovariantPiola", 1, ()), ("IdentityPullback", 0, ())], []),
        ([("IdentityPullback", 0, ()), ("ContravariantPiola", 1, ()), ("ContravariantPiola", 1, ())], []),
    ]
    for gdim, tdim in [(2, 2), (3, 2)]:
        for layout, shared in seq_layouts:
            ms, meshes = mesh_sequence(gdim, tdim, len(layout))
            ip = new_interp(ms)
            ip.isinstance_hook = lambda x, cls: isinstance(x, MeshSeq) if getattr(cls, "name", None) == "MeshSequence" else NotImplemented
            subs = [element(blk + (tdim,) * nmapped, pb_obj(cname)) for cname, nmapped, blk in layout]
            for a, b in shared:
                subs[b] = subs[a]  # the same element (equal and identical) at two positions, on two different meshes
            total = sum(e.attrs["reference_value_size"] for e in subs)
            el = element((total,), None, subs)
            pb = pb_obj("MixedPullback", el)
            el.attrs["pullback"] = pb
            r = T.symbolic("r", (total,))
            what = f"MixedPullback.apply on a sequence of {len(layout)} meshes, gdim={gdim} tdim={tdim}, sub-elements {[c for c, _, _ in layout]}{' (positions ' + str(shared[0]) + ' hold the same element)' if shared else ''}"
            want_flat, off = [], 0
            for n, ((cname, nmapped, blk), e) in enumerate(zip(layout, subs)):
                size, rs = e.attrs["reference_value_size"], e.attrs["reference_value_shape"]
                comps = list(itertools.product(*[range(d) for d in rs]))
                rsub = T(rs, (), (), {(c, ()): r.get((off + k,)) for k, c in enumerate(comps)})
                want_flat.extend(flat(push(KINDS[cname][0], rsub, gdim, tdim, tag=f"@m{n}")))
                off += size
            want = T((len(want_flat),), (), (), {((k,), ()): v for k, v in enumerate(want_flat)})
            try:
                got = uflsem.as_T(ip.call_function(f_apply, [r], {}, self_obj=pb))
            except LiftRaise as e:
                rep.violation("C08-mixed/sequence", f_apply, what, f"{what}: lifted apply raises {e.what}")
                continue
            ok, how, wit = equal_T(got, want, rng=ctx.rng)
            if ok:
                rep.ok("C08-mixed/sequence", f_apply, f"{what}: every block pushed forward with the geometry of its own mesh ({how})")
            else:
                rep.violation("C08-mixed/sequence", f_apply, what, f"{what}: a block is not pushed forward with the geometry of its own component mesh ({how}): {wit}", witness=wit)

    # ---- symmetric -----------------------------------------------------------
    sym_cls = prog.get_class(f"{MOD}.SymmetricPullback")
    f_init = prog.lookup(sym_cls, "__init__")
    f_apply = prog.lookup(sym_cls, "apply")
    f_shape = prog.lookup(sym_cls, "physical_value_shape")
    symmetries = [
        ({(0, 0): 0, (0, 1): 1, (1, 0): 1, (1, 1): 2}, 3),
        ({(0,): 0, (1,): 1, (2,): 0}, 2),
        ({(0, 0): 0, (0, 1): 1, (0, 2): 2, (1, 0): 1, (1, 1): 3, (1, 2): 4, (2, 0): 2, (2, 1): 4, (2, 2): 5}, 6),
    ]
    # a symmetry map is a mapping: the order in which its entries were inserted is not part of its meaning
    def insertion_orders(symm):
        items = list(symm.items())
        yield "row-major", dict(items)
        yield "reversed", dict(reversed(items))
        yield "lower triangle first", dict(sorted(items, key=lambda kv: (tuple(reversed(kv[0])), kv[1])))
        yield "by sub-element, last first", dict(sorted(items, key=lambda kv: (-kv[1], kv[0])))

    symmetries = [(dict(d), nsub, order) for symm, nsub in symmetries for order, d in insertion_orders(symm)]
    for gdim, tdim in [(2, 2), (3, 2)]:
        for symm, nsub, order in symmetries:
            for cname, nmapped in (("IdentityPullback", 0), ("ContravariantPiola", 1), ("CovariantPiola", 1)):
                dom = make_domain(gdim, tdim)
                ip = new_interp(dom)
                ip.isinstance_hook = lambda x, cls: (True if isinstance(x, Obj) and x.kind == "element" and not isinstance(cls, tuple) and getattr(cls, "name", "") != "MeshSequence" else isinstance_hook(x, cls))
                rs = (tdim,) * nmapped
                subs = [element(rs, pb_obj(cname)) for _ in range(nsub)]
                size = subs[0].attrs["reference_value_size"]
                el = element((size * nsub,), None, subs)
                pb = uflmodel.make_pullback(prog, "SymmetricPullback", el, dict(symm), ip=ip)
                el.attrs["pullback"] = pb
                r = T.symbolic("r", (size * nsub,))
                what = f"SymmetricPullback.apply gdim={gdim} tdim={tdim} symmetry={symm} (entries inserted {order}) sub pullback {cname}"
                block = tuple(i + 1 for i in max(symm.keys()))
                comps_rs = list(itertools.product(*[range(d) for d in rs]))
                data = {}
                wshape = None
                for comp in itertools.product(*[range(d) for d in block]):
                    i = symm[comp]
                    rsub = T(rs, (), (), {(c, ()): r.get((i * size + k,)) for k, c in enumerate(comps_rs)})
                    p = push(KINDS[cname][0], rsub, gdim, tdim)
                    wshape = block + p.shape
                    for c2 in itertools.product(*[range(d) for d in p.shape]):
                        data[(comp + c2, ())] = p.get(c2)
                want = T(wshape, (), (), data)
                try:
                    got = uflsem.as_T(ip.call_function(f_apply, [r], {}, self_obj=pb))
                except LiftRaise as e:
                    rep.violation("C08-mixed/symmetric", f_apply, what, f"{what}: lifted apply raises {e.what}")
                    continue
                ok, how, wit = equal_T(got, want, rng=ctx.rng)
                if ok:
                    rep.ok("C08-mixed/symmetric", f_apply, f"{what}: equal ({how})")
                else:
                    rep.violation("C08-mixed/symmetric", f_apply, what, f"{what} differs from the symmetric placement of the sub push-forwards ({how}): {wit}", witness=wit)
                shp = ip.call_function(f_shape, [el, dom], {}, self_obj=pb)
                if tuple(shp) == want.shape:
                    rep.ok("C08-shape/SymmetricPullback", f_shape, f"physical_value_shape {tuple(shp)}")
                else:
                    rep.violation("C08-shape/SymmetricPullback", f_shape, what, f"physical_value_shape gives {tuple(shp)}, push-forward has shape {want.shape}")

    # ---- applier guard -------------------------------------------------------
    fpa = prog.get_class("ufl.algorithms.apply_function_pullbacks.FunctionPullbackApplier")
    tab = ctx.disp.mf_table(fpa)
    ctx.crosscheck_dispatch({"FunctionPullbackApplier"})
    fa = prog.lookup(fpa, "form_argument")
    if fa is None or not hasattr(fa, "node"):
        raise AnalysisError("FunctionPullbackApplier.form_argument not found")
    n_fa = 0
    for t in ctx.tm.concrete():
        h = tab.get(t.name)
        is_fa = t.cls.is_subclass_of("FormArgument")
        if is_fa:
            n_fa += 1
            if h is None or h.func is not fa:
                rep.violation("C08-guard/table", fpa, t.name, f"form argument type {t.name} is not pulled back (resolves to {h.func.qualname if h else None})")
            else:
                rep.ok("C08-guard/table", fa, f"{t.name} -> form_argument")
        elif t.traits["is_terminal"]:
            if h is None or h.func.name not in ("terminal",):
                rep.violation("C08-guard/table", fpa, t.name, f"terminal type {t.name} resolves to {h.func.qualname if h else None}, expected the identity rule")
            else:
                rep.ok("C08-guard/table", h.func, f"{t.name} -> terminal (identity)")
        else:
            if h is None or h.func.name != "reuse_if_untouched":
                rep.violation("C08-guard/table", fpa, t.name, f"operator type {t.name} resolves to {h.func.qualname if h else None}, expected reuse_if_untouched")
            else:
                rep.ok("C08-guard/table", h.func, f"{t.name} -> reuse_if_untouched")
    if n_fa < 2:
        raise AnalysisError("fewer than 2 FormArgument types found")
    # body facts
    body = fa.node
    src = norm(body)
    ret = [n for n in ast.walk(body) if isinstance(n, ast.Return)]
    raises = [n for n in ast.walk(body) if isinstance(n, ast.Raise)]
    # value flow: f = <x>.pullback.apply(r); r = ReferenceValue(o); return f
    assigns = {t.id: st.value for st in ast.walk(body) if isinstance(st, ast.Assign) for t in st.targets if isinstance(t, ast.Name)}
    okflow = False
    if len(ret) == 1 and isinstance(ret[0].value, ast.Name):
        v = assigns.get(ret[0].value.id)
        if isinstance(v, ast.Call) and norm(v.func).endswith(".pullback.apply") and v.args:
            a0 = v.args[0]
            a0v = assigns.get(a0.id) if isinstance(a0, ast.Name) else a0
            if isinstance(a0v, ast.Call) and norm(a0v.func) == "ReferenceValue" and norm(a0v.args[0]) == fa.params()[1]:
                okflow = True
    if okflow:
        rep.ok("C08-guard/flow", fa, "returns element.pullback.apply(ReferenceValue(o))")
    else:
        rep.violation("C08-guard/flow", fa, "return value of form_argument", "form_argument does not return element.pullback.apply(ReferenceValue(o))")
    # guards: comparisons against reference_value_shape (before apply) and value_shape (after), raising
    need = {"reference_value_shape": False, "value_shape": False}
    for st in ast.walk(body):
        if isinstance(st, ast.If) and any(isinstance(x, ast.Raise) for x in st.body):
            t = norm(st.test)
            if "!=" in t and "ufl_shape" in t:
                if ".reference_value_shape" in t:
                    need["reference_value_shape"] = True
                elif ".value_shape" in t:
                    need["value_shape"] = True
    for k, v in need.items():
        if v:
            rep.ok("C08-guard/shape", fa, f"shape mismatch against {k} raises")
        else:
            rep.violation("C08-guard/shape", fa, f"guard on {k}", f"form_argument no longer raises when the expression shape differs from the {k}")

    rep.require_min("C08-ein", 60)
    rep.require_min("C08-shape", 60)
    rep.require_min("C08-mixed", 20)
    rep.require_min("C08-guard", 8)
    rep.explanation = (
        "Every pullback class's apply() was lifted from source on symbolic reference values (block axes x mapped axes) for "
        "square and immersed (gdim>tdim) geometries with symbolic J, K, detJ, and compared entry-wise and exactly (polynomial "
        "normal form over Q) with the textbook push-forward; physical_value_shape was lifted and compared with the shape of "
        "that push-forward; Mixed/Symmetric compositions were lifted on layouts mixing differently mapped sub-elements; "
        "the applier's dispatch table and guards were checked structurally."
    )
    rep.assumptions = [
        "J, K and detJ are independent symbols: the identities K = J^-1 and detJ = det J are not needed for the push-forward formulas",
        "numpy ndindex/asarray/reshape/prod are modelled by their documented semantics (row-major)",
        "MeshSequence (mixed-mesh) branch instantiated for MixedPullback.apply only (stand-in sequence of component meshes with independent geometries)",
    ]
    from ..memokey import memo_rule

    return rep
