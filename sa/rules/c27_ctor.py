"""C27-ctor: constructors never modify their operands.

Python runs `__init__` on whatever `__new__` returns if that is an instance of the class being constructed - with the
arguments of the *outer* call.  A simplifying `__new__` that returns an existing node of its own class (`abs(abs(f))`,
`sym(sym(A))`, `Sum(Sum(f, g), 0)`, an identity action returning an inner Action ...) therefore re-initialises that node
unless `__init__` is safe to run again.  The object protocol of the form-level world (sa/formlift.py: `__new__`, then
`__init__` on the result iff it is an instance of the class) reproduces this, so the clause is decided by
interpretation:

  for every expression class K of the package with its own `__new__` and one or two operands, K is applied - from
  source - to operands that are themselves results of K and of its sibling classes (K(K(x)), K(K2(x)), K(K(x), 0),
  K(0, K(x)), K(K(x), 1), K(K(x), K(x))) over scalar, vector and matrix terminals; every object that existed before
  the call (the operands, their operands ...) must have exactly the structure it had before (class, scalar
  attributes, operands by identity), and no operand may end up containing itself.
"""

from __future__ import annotations

import itertools

from ..formlift import FormWorld
from ..lift import LiftRaise, Obj, Unsupported
from ..model import AnalysisError
from .c13 import exact


def structure(W, o, seen=None, depth=0):
    """identity-aware structure: operands are listed by identity, so a node that now contains itself, or whose operand
    was exchanged for an equal copy, differs"""
    seen = {} if seen is None else seen
    if isinstance(o, Obj):
        if id(o) in seen:
            return ("ref", seen[id(o)])
        seen[id(o)] = len(seen)
        k = W.ip.obj_class(o)
        ops = o.attrs.get("ufl_operands")
        return (k.name if k else o.kind, tuple((id(x), structure(W, x, seen, depth + 1)) for x in ops) if isinstance(ops, (tuple, list)) and depth < 10 else None)
    return repr(o)[:40]


def cyclic(o, stack=None):
    stack = stack or []
    if not isinstance(o, Obj):
        return False
    if any(o is s for s in stack):
        return True
    ops = o.attrs.get("ufl_operands")
    if not isinstance(ops, (tuple, list)):
        return False
    return any(cyclic(x, stack + [o]) for x in ops)


def run_ctor(ctx, rep):
    prog = ctx.prog
    W = FormWorld(ctx)
    ip = W.ip
    m = W.mesh(0)
    scal = W.coefficient(W.space(m, W.element("P", 1)), 0)
    scal2 = W.coefficient(W.space(m, W.element("P", 1)), 1)
    vec = W.coefficient(W.space(m, W.element("P", 1, (2,))), 2)
    mat = W.coefficient(W.space(m, W.element("P", 1, (2, 2))), 3)
    bases = {"f (scalar)": scal, "u (vector)": vec, "A (matrix)": mat}
    zero, one = W.new("Zero"), W.literal(1)

    # expression classes with their own __new__ taking one or two operands (from the AST)
    unary, binary = [], []
    for c in prog.all_classes():
        if getattr(c.module, "path", "").startswith("<") or not c.is_subclass_of("Expr"):
            continue
        new = c.methods.get("__new__")
        if new is None:
            continue
        a = new.node.args
        n = len(a.posonlyargs) + len(a.args) - 1
        if a.vararg is None and not a.kwonlyargs and n == 1:
            unary.append(c)
        elif a.vararg is None and not a.kwonlyargs and n == 2 and c.name not in ("Indexed", "IndexSum", "ComponentTensor", "VariableDerivative"):
            binary.append(c)
    if len(unary) < 30 or len(binary) < 8:
        raise AnalysisError(f"constructor discovery: {len(unary)} unary / {len(binary)} binary expression classes with __new__ (confirmed: 40 / 10)")

    def build(K, *ops):
        try:
            return ip.call(K, list(ops), {}, None, None)
        except (LiftRaise, Unsupported):
            return None
        except RecursionError:
            return "recursion"

    n_calls = 0
    n_returned_existing = 0
    bad = {}

    def check(K, ops, what, watch):
        nonlocal n_calls, n_returned_existing
        before = [(o, structure(W, o)) for o in watch]
        r = build(K, *ops)
        if r is None:
            return None
        n_calls += 1
        where = prog.lookup(K, "__new__")
        if r == "recursion":
            bad.setdefault((K.name, "recursion"), (where, what, f"{what} does not terminate (an operand contains itself)"))
            return None
        if any(r is o for o, _ in before):
            n_returned_existing += 1
        for (o, s0), nm in zip(before, [w_[1] if isinstance(w_, tuple) else "" for w_ in watch] or [""] * len(before)):
            if cyclic(o):
                bad.setdefault((K.name, "cyclic"), (where, what, f"{what}: afterwards an operand of the call contains itself - {K.name}.__new__ returned an existing {ip.obj_class(o).name if ip.obj_class(o) else 'node'} and Python ran {K.name}.__init__ on it again with the outer arguments"))
                return r
            if structure(W, o) != s0:
                bad.setdefault((K.name, "changed"), (where, what, f"{what}: an object that existed before the call ({ip.obj_class(o).name if ip.obj_class(o) else 'node'}) has other operands afterwards: the constructor modified its input"))
                return r
        return r

    siblings = [c for c in unary if c.name in ("Abs", "Conj", "Real", "Imag", "Transposed", "Sym", "Skew", "Deviatoric", "Trace", "Sqrt", "PositiveRestricted")]
    for K in unary:
        for bname, b in bases.items():
            x1 = build(K, b)
            if not isinstance(x1, Obj):
                continue
            check(K, [x1], f"{K.name}({K.name}({bname}))", [x1, b])
            for K2 in siblings:
                if K2 is K:
                    continue
                y = build(K2, b)
                if isinstance(y, Obj):
                    check(K, [y], f"{K.name}({K2.name}({bname}))", [y, b])
                    z = build(K2, x1) if isinstance(x1, Obj) else None
                    if isinstance(z, Obj):
                        check(K, [z], f"{K.name}({K2.name}({K.name}({bname})))", [z, x1, b])
    for K in binary:
        for (n1, b1), (n2, b2) in itertools.product(bases.items(), repeat=2):
            x1 = build(K, b1, b2)
            if not isinstance(x1, Obj):
                continue
            for ops, what in (([x1, zero], f"{K.name}({K.name}({n1}, {n2}), 0)"), ([zero, x1], f"{K.name}(0, {K.name}({n1}, {n2}))"), ([x1, one], f"{K.name}({K.name}({n1}, {n2}), 1)"), ([one, x1], f"{K.name}(1, {K.name}({n1}, {n2}))"), ([x1, x1], f"{K.name}(x, x), x = {K.name}({n1}, {n2})"), ([x1, scal2], f"{K.name}({K.name}({n1}, {n2}), g)")):
                check(K, ops, what, [x1, b1, b2])
    for (kname, kind), (where, what, why) in bad.items():
        rep.violation("C27-ctor", where, what, why)
    if not bad:
        rep.ok("C27-ctor", prog.get_class("ufl.core.operator.Operator"), f"{n_calls} constructor calls over {len(unary)} unary and {len(binary)} binary expression classes applied to their own and their siblings' results ({n_returned_existing} returned an existing operand): every pre-existing object keeps its structure")
    if n_calls < 300:
        raise AnalysisError(f"only {n_calls} nested constructor calls interpreted")
    return n_calls
