"""C01 -- form preprocessing preserves the meaning of every integral.

The individual integrand passes are decided by their own properties (C06 algebra lowering, C02-C04
derivatives, C08 pullbacks, C07 geometry lowering, C09 Jacobian cancellation, C10 component tensors,
C23 complex nodes, C15 grouping, C17 restrictions, C14 arity).  What is specific to C01 is the pipeline
that composes them and the integral scaling:

C01-scale   compute_integrand_scaling_factor is lifted for every declared integral type x topological
            dimension 0..3 and compared with the change-of-variables factor of the integration entity:
            entity dimension d = tdim - codim(type); d > 0: |det| of the entity Jacobian (cell: abs(detJ),
            facet: detFJ, on interior facets restricted to '+', ridge: detRJ) times the quadrature weight,
            d = 0: 1 (point evaluation), d < 0: rejected; run-time quadrature types: the weight only; the
            degree reported is the estimated degree of the lowered determinant.  Every integral type of
            ufl.measure is handled.
C01-apply   apply_integral_scaling lifted on integrals with plain and coordinate-derivative integrands and all
            int / tuple combinations of estimated degrees: the new integrand is scale * integrand (inside every
            nested CoordinateDerivative, once), the degrees add, everything else of the integral is kept and
            the input metadata is not written.
C01-pipe    compute_form_data + preprocess_form are lifted with every pass replaced by a recording stub, for all
            2^9 combinations of the boolean options: the trace of passes must satisfy the pipeline contract
            (each option switches exactly the pass it names; algebra lowering precedes the first derivative
            expansion; every pass that can introduce derivative nodes or un-lowered geometry is followed by
            apply_derivatives / the matching lowering before integral data are built; component tensors are
            removed right before Jacobian cancellation; the Jacobian family is preserved by the lowering calls
            before the cancellation - and only then - and lowered after it with the caller's preserve set;
            complex nodes are removed iff not complex_mode, the comparison check runs iff complex_mode; the
            options given to FormData are the caller's).
C01-checks  every normal exit of FormData.__init__ has run the element, facet-geometry and arity checks.
C01-compose compute_form_data interpreted from source together with all integrand passes it calls, on symbolic
            cell integrands over an affine triangle with symbolic vertices, for the combinations of the integrand-level
            options: exact equality of meanings (times |detJ|*weight under scaling) and the form each option promises
            (sa/rules/c01_compose.py, sa/pipeworld.py).
"""

from __future__ import annotations

import ast
import itertools

from .. import sym, uflmodel, uflsem
from ..flow import call_pred, every_exit_passes, validation_functions
from ..lift import Interp, LiftRaise, Obj, Unsupported
from ..model import AnalysisError, norm
from ..report import Report
from ..uflmodel import terminal
from ..uflsem import T, as_T, equal_T

CFD = "ufl.algorithms.compute_form_data"
AIS = "ufl.algorithms.apply_integral_scaling"

# codimension of the integration entity, by integral type prefix (ufl/measure.py groups the types this way)
CODIM = [("cell", 0), ("exterior_facet", 1), ("interior_facet", 1), ("ridge", 2)]
DET_OF_CODIM = {0: "JacobianDeterminant", 1: "FacetJacobianDeterminant", 2: "RidgeJacobianDeterminant"}


def scaling_world(prog, tdim):
    ip = uflmodel.install(Interp(prog))
    dom = Obj("domain", topological_dimension=tdim, geometric_dimension=max(tdim, 1))
    dom.attrs["__class__"] = None
    made = {}

    def geo(name):
        def ctor(d):
            if d is not dom:
                raise Unsupported("geometry of another domain")
            t = terminal(name, (), name)
            made[name] = t
            return t

        return ctor

    for n in ("JacobianDeterminant", "FacetJacobianDeterminant", "RidgeJacobianDeterminant", "QuadratureWeight"):
        ip.class_models[n] = geo(n)
    ip.overrides["apply_geometry_lowering"] = lambda e, *a, **k: e
    ip.overrides["estimate_total_polynomial_degree"] = lambda e, *a, **k: ("degree of", as_T(e).tags.get("ufl_class"))
    ip.overrides["abs"] = lambda v: uflsem.t_fn("abs", v) if isinstance(v, T) else abs(v)
    ip.call_value = lambda t, args, kwargs: uflmodel.restrict(t, args[0])
    return ip, dom, made


def integral_types(prog):
    m = prog.module("ufl.measure")
    for st in m.tree.body:
        if isinstance(st, ast.Assign) and any(isinstance(t, ast.Name) and t.id == "_integral_types" for t in st.targets):
            names = [ast.literal_eval(e.elts[0]) for e in st.value.elts]
            break
    else:
        raise AnalysisError("ufl.measure._integral_types not found")

    def tup(name):
        for st in m.tree.body:
            if isinstance(st, ast.Assign) and any(isinstance(t, ast.Name) and t.id == name for t in st.targets):
                return tuple(ast.literal_eval(st.value))
        raise AnalysisError(f"ufl.measure.{name} not found")

    return names, tup("custom_integral_types"), tup("point_integral_types")


def check_scale(ctx, rep):
    prog = ctx.prog
    fn = prog.get_function(AIS, "compute_integrand_scaling_factor")
    names, custom, point = integral_types(prog)
    if len(names) < 10:
        raise AnalysisError("fewer than 10 integral types declared")
    for itype in names:
        for tdim in (0, 1, 2, 3):
            ip, dom, made = scaling_world(prog, tdim)
            itg = Obj("integral", ufl_domain=lambda: dom, integral_type=lambda: itype)
            itg.attrs["__class__"] = None
            what = f"{itype} integral, tdim {tdim}"
            # ---- oracle
            w = terminal("QuadratureWeight", (), "QuadratureWeight")
            codim = next((c for p, c in CODIM if itype == p or itype.startswith(p)), None)
            if itype in custom:
                want, want_deg, kind = w, 0, "weight only (run-time quadrature carries the volume)"
            elif itype in point:
                want, want_deg, kind = as_T(1), 0, "point evaluation"
            elif codim is None:
                raise AnalysisError(f"integral type {itype} is in none of the groups of ufl/measure.py")
            else:
                d = tdim - codim
                if d > 0:
                    det = terminal(DET_OF_CODIM[codim], (), DET_OF_CODIM[codim])
                    if codim == 0:
                        det = uflsem.t_fn("abs", det)
                    if itype.startswith("interior_facet"):
                        det = uflmodel.restrict(det, "+")
                    want, want_deg, kind = uflsem.t_mul(det, w), ("degree of", DET_OF_CODIM[codim]), f"{d}-dimensional entity: |{DET_OF_CODIM[codim]}| * weight"
                elif d == 0:
                    want, want_deg, kind = as_T(1), 0, "0-dimensional entity: no scaling"
                else:
                    want, want_deg, kind = None, None, "entity of negative dimension"
            try:
                scale, degree = ip.call_function(fn, [itg], {})
            except LiftRaise as e:
                if want is None or tdim == 0 and codim:
                    rep.ok("C01-scale", fn, f"{what}: rejected ({kind})")
                else:
                    rep.violation("C01-scale", fn, what, f"{what}: raises {e.what[:100]}; expected {kind}")
                continue
            if want is None:
                # a facet / ridge integral on a cell without such entities: the library may return 1 (nothing to scale)
                ok, _, _ = equal_T(as_T(scale), as_T(1), rng=ctx.rng)
                (rep.ok if ok else rep.violation)(*(("C01-scale", fn, f"{what}: no such entity, factor 1") if ok else ("C01-scale", fn, what, f"{what}: entity of negative dimension but the factor is {as_T(scale)!r}")))
                continue
            ok, how, wit = equal_T(as_T(scale), as_T(want), rng=ctx.rng, real_only=True)
            if not ok:
                rep.violation("C01-scale", fn, what, f"{what}: scaling factor is not the change-of-variables factor ({kind}): {wit}", witness=wit)
                continue
            if degree != want_deg:
                rep.violation("C01-scale", fn, what + " (degree)", f"{what}: reports scaling degree {degree!r}, expected {want_deg!r}")
                continue
            rep.ok("C01-scale", fn, f"{what}: {kind}; degree {want_deg}")


def check_apply(ctx, rep):
    from ..ctorlift import CtorHarness
    from ..uflmodel import node

    prog = ctx.prog
    fn = prog.get_function(AIS, "apply_integral_scaling")
    n = 0
    for cur, deg in itertools.product((None, 2, (2, 1)), (0, 3, (1, 2))):
        for nest in (0, 1, 2):
            H = CtorHarness(ctx)
            ip = H.ip
            s = terminal("scale", (), "Coefficient")
            ip.overrides["compute_integrand_scaling_factor"] = lambda integral: (s, deg)
            f = terminal("f", (), "Coefficient")
            cd_args = [terminal(f"cd{k}", (), "Coefficient") for k in range(3)]

            def CD(a, b, c, d):
                # an opaque linear operator: its meaning is the symbol cd(<meaning of the operand>)
                return node(T.scalar(sym.fn("cd", as_T(a).get())), "CoordinateDerivative", (a, b, c, d))

            ip.class_models["CoordinateDerivative"] = CD
            integrand = f
            for _ in range(nest):
                integrand = CD(integrand, *cd_args)
            md_in = {"quadrature_rule": "default"}
            if cur is not None:
                md_in["estimated_polynomial_degree"] = cur
            md_before = dict(md_in)
            rec = {}

            def reconstruct(**kw):
                rec.update(kw)
                return Obj("new integral")

            Integral = prog.get_class("ufl.integral.Integral")
            itg = Obj("Integral", __class__=Integral, integrand=lambda: integrand, metadata=lambda: md_in, reconstruct=reconstruct)
            what = f"apply_integral_scaling(degree {cur!r} + {deg!r}, {nest} coordinate derivative(s))"
            try:
                ip.call_function(fn, [itg], {})
            except LiftRaise as e:
                rep.violation("C01-apply", fn, what, f"{what}: raises {e.what[:100]}")
                continue
            n += 1
            bad = None
            if set(rec) != {"integrand", "metadata"}:
                bad = f"reconstructs with {sorted(rec)} (only integrand and metadata may change)"
            else:
                e = as_T(rec["integrand"])
                want = uflsem.t_mul(s, f)
                for _ in range(nest):
                    want = T.scalar(sym.fn("cd", want.get()))
                depth = 0
                x = e
                while x.tags.get("ufl_class") == "CoordinateDerivative":
                    if tuple(x.tags["ufl_operands"][1:]) != tuple(cd_args):
                        bad = "coordinate-derivative operands changed"
                    x = x.tags["ufl_operands"][0]
                    depth += 1
                if not bad and not equal_T(e, want, rng=ctx.rng)[0]:
                    bad = f"the new integrand is not the scaled integrand inside all {nest} coordinate derivative(s): the factor must be differentiated with the integrand"
                want_deg = deg if cur is None else (tuple(a + b for a, b in zip(cur, deg)) if isinstance(cur, tuple) and isinstance(deg, tuple) else tuple(a + deg for a in cur) if isinstance(cur, tuple) else tuple(cur + b for b in deg) if isinstance(deg, tuple) else cur + deg)
                got = rec["metadata"].get("estimated_polynomial_degree")
                if not bad and got != want_deg:
                    bad = f"estimated degree {got!r}, expected {want_deg!r}"
                if not bad and {k: v for k, v in rec["metadata"].items() if k != "estimated_polynomial_degree"} != {k: v for k, v in md_before.items() if k != "estimated_polynomial_degree"}:
                    bad = "other metadata entries changed"
                if not bad and md_in != md_before:
                    bad = "the metadata dict of the input integral was written"
            if bad:
                rep.violation("C01-apply", fn, what, f"{what}: {bad}")
            else:
                rep.ok("C01-apply", fn, f"{what}: scale applied once inside the derivatives, degrees add, input untouched")
    return n


# ------------------------------------------------------------------------------------------- pipeline
FLAGS = ["do_apply_function_pullbacks", "do_apply_integral_scaling", "do_apply_geometry_lowering", "do_cancel_jacobian_products", "do_estimate_degrees", "do_remove_component_tensors", "complex_mode", "do_append_everywhere_integrals", "do_replace_functions"]
PASSES = ["do_comparison_check", "apply_algebra_lowering", "remove_complex_nodes", "apply_derivatives", "group_form_integrals", "attach_estimated_degrees", "apply_function_pullbacks", "apply_integral_scaling", "apply_geometry_lowering", "remove_component_tensors", "cancel_jacobian_products", "apply_coordinate_derivatives", "build_integral_data", "FormData"]
JFAMILY = {"Jacobian", "JacobianInverse", "JacobianDeterminant"}


def pipeline_trace(ctx, flags, user_preserve=("CellVolume",)):
    prog = ctx.prog
    ip = Interp(prog)
    trace = []

    def stub(name):
        def f(form, *a, **k):
            trace.append((name, a, k))
            o = Obj(f"form after {name}", integrals=lambda: ("integrals",))
            o.attrs["__class__"] = None
            return o

        return f

    for p in PASSES:
        ip.overrides[p] = stub(p)
    for n in JFAMILY | set(user_preserve):
        ip.overrides[n] = n
    orig = Obj("original form", ufl_domains=lambda: ("domains",), integrals=lambda: ())
    orig.attrs["__class__"] = None
    fn = prog.get_function(CFD, "compute_form_data")
    kwargs = dict(flags)
    kwargs["preserve_geometry_types"] = tuple(user_preserve)
    out = ip.call_function(fn, [orig], kwargs)
    return trace, out, orig


def check_pipe(ctx, rep):
    prog = ctx.prog
    fn = prog.get_function(CFD, "compute_form_data")
    n = 0
    problems = {}
    user = ("CellVolume",)
    for bits in itertools.product((False, True), repeat=len(FLAGS)):
        flags = dict(zip(FLAGS, bits))
        try:
            trace, out, orig = pipeline_trace(ctx, flags, user)
        except LiftRaise as e:
            problems.setdefault(f"raises {e.what[:80]}", flags)
            continue
        n += 1
        names = [t[0] for t in trace]

        def bad(msg):
            problems.setdefault(msg, dict(flags))

        # options switch exactly the pass they name
        for flag, p in (("do_apply_function_pullbacks", "apply_function_pullbacks"), ("do_apply_integral_scaling", "apply_integral_scaling"), ("do_apply_geometry_lowering", "apply_geometry_lowering"), ("do_estimate_degrees", "attach_estimated_degrees"), ("complex_mode", "do_comparison_check")):
            if (p in names) != flags[flag]:
                bad(f"{p} runs {'although' if p in names else 'not although'} {flag}={flags[flag]}")
        if ("cancel_jacobian_products" in names) != (flags["do_cancel_jacobian_products"] and flags["do_apply_geometry_lowering"]):
            bad("cancel_jacobian_products does not run exactly under do_cancel_jacobian_products (with geometry lowering)")
        n_rm = names.count("remove_complex_nodes")
        if flags["complex_mode"] and n_rm:
            bad("complex nodes are removed in complex mode")
        if not flags["complex_mode"] and (n_rm < 2 or names.index("remove_complex_nodes") > names.index("apply_derivatives") or "remove_complex_nodes" not in names[names.index("apply_coordinate_derivatives") :]):
            bad("real mode: complex nodes must be removed after algebra lowering (before the first derivative expansion) and again after the last pass that can introduce them")
        # every call of the always-on passes
        for p in ("apply_algebra_lowering", "group_form_integrals", "apply_coordinate_derivatives", "build_integral_data", "FormData"):
            if names.count(p) != 1:
                bad(f"{p} runs {names.count(p)} times")
        if names and names[-1] != "FormData" or names[-2:-1] != ["build_integral_data"]:
            bad("the pipeline does not end with build_integral_data -> FormData")
        if "apply_algebra_lowering" in names and "apply_derivatives" in names and names.index("apply_algebra_lowering") > names.index("apply_derivatives"):
            bad("derivatives are expanded before compound tensor algebra is lowered")
        if names.index("group_form_integrals") < names.index("apply_derivatives"):
            bad("integrals are grouped before the first derivative expansion")
        # the form flows through: every pass receives the result of the previous one
        prev = orig
        for k, (name, a, kw) in enumerate(trace):
            pass
        # derivative-introducing passes are followed by apply_derivatives; lowering after the last derivative pass
        last_intro = max([k for k, nm in enumerate(names) if nm in ("apply_function_pullbacks", "apply_geometry_lowering", "apply_algebra_lowering", "cancel_jacobian_products")], default=-1)
        if "apply_derivatives" not in names[last_intro + 1 :]:
            bad(f"{names[last_intro]} is not followed by apply_derivatives: derivative nodes it introduces stay unexpanded")
        if flags["do_apply_geometry_lowering"]:
            last_d = max(k for k, nm in enumerate(names) if nm == "apply_derivatives")
            # geometry introduced by the last-but-one derivative expansion must have been lowered
            ds = [k for k, nm in enumerate(names) if nm == "apply_derivatives"]
            if len(ds) >= 2 and "apply_geometry_lowering" not in names[ds[-2] + 1 : last_d] and (flags["do_apply_function_pullbacks"] or True):
                if not any(nm == "apply_geometry_lowering" for nm in names[ds[1] :]):
                    bad("Jacobian inverses introduced by derivative expansion are not lowered")
        # Jacobian cancellation: component tensors removed right before; J family preserved before, lowered after
        glow = [(k, a, kw) for k, (nm, a, kw) in enumerate(trace) if nm == "apply_geometry_lowering"]

        def preserved(a, kw):
            v = a[0] if a else kw.get("preserve_types", ())
            return set(v)

        if "cancel_jacobian_products" in names:
            kc = names.index("cancel_jacobian_products")
            if names[kc - 1] != "remove_component_tensors":
                bad("component tensors are not removed right before cancel_jacobian_products")
            before = [g for g in glow if g[0] < kc]
            after = [g for g in glow if g[0] > kc]
            if not before or any(not JFAMILY <= preserved(a, kw) for _, a, kw in before):
                bad("geometry lowering before the Jacobian cancellation does not preserve Jacobian, JacobianInverse and JacobianDeterminant")
            if any(not set(user) <= preserved(a, kw) for _, a, kw in glow):
                bad("a geometry lowering call drops the caller's preserve_geometry_types")
            if not after or any(preserved(a, kw) != set(user) for _, a, kw in after):
                bad("after the cancellation the preserved Jacobian quantities are not lowered with the caller's preserve set")
            if "apply_derivatives" not in names[after[-1][0] :] if after else True:
                bad("no derivative expansion after the final geometry lowering")
        else:
            if any(preserved(a, kw) != set(user) for _, a, kw in glow):
                bad("geometry lowering preserves other types than the caller's preserve_geometry_types although no Jacobian cancellation is requested")
        n_rct = names.count("remove_component_tensors")
        want_rct = (1 if "cancel_jacobian_products" in names else 0) + (1 if flags["do_remove_component_tensors"] else 0)
        if n_rct != want_rct:
            bad(f"remove_component_tensors runs {n_rct} times, expected {want_rct}")
        if flags["do_remove_component_tensors"] and names[-3] != "remove_component_tensors":
            bad("do_remove_component_tensors: component tensors are not removed as the last integrand pass")
        # degree estimation before pullbacks / scaling / lowering (the estimate is attached to the metadata and later increased by the scaling degree)
        if "attach_estimated_degrees" in names:
            ka = names.index("attach_estimated_degrees")
            for p in ("apply_function_pullbacks", "apply_integral_scaling", "apply_geometry_lowering"):
                if p in names and names.index(p) < ka:
                    bad(f"degrees are estimated after {p}")
        # options handed on
        g = next(t for t in trace if t[0] == "group_form_integrals")
        if g[2].get("do_append_everywhere_integrals", g[1][1] if len(g[1]) > 1 else None) != flags["do_append_everywhere_integrals"]:
            bad("do_append_everywhere_integrals is not passed to group_form_integrals")
        fd = trace[-1]
        if fd[0] == "FormData":
            kw = fd[2]
            if kw.get("complex_mode") != flags["complex_mode"] or kw.get("do_replace_functions") != flags["do_replace_functions"]:
                bad("FormData does not receive the caller's complex_mode / do_replace_functions")
    for msg, flags in problems.items():
        on = [k for k, v in flags.items() if v]
        rep.violation("C01-pipe", fn, msg, f"compute_form_data with options {on or 'all off'}: {msg}")
    if not problems:
        rep.ok("C01-pipe", fn, f"pipeline contract holds for all {n} combinations of {len(FLAGS)} boolean options")
    if n < 2 ** len(FLAGS):
        if not problems:
            raise AnalysisError(f"only {n} option combinations lifted")
    return n


def check_formdata(ctx, rep):
    prog = ctx.prog
    fd = prog.get_class("ufl.algorithms.formdata.FormData")
    init = prog.lookup(fd, "__init__")
    # the module's validation functions (found by shape: they return nothing and raise, or call the public arity checker)
    checks = validation_functions(prog, "ufl.algorithms.formdata")
    if len(checks) < 3 or not any(c for _, c in checks.values()):
        raise AnalysisError(f"validation functions of ufl.algorithms.formdata: {sorted(checks)} (confirmed: element check, facet-geometry check, arity check)")
    for chk, (cfi, is_arity) in checks.items():
        if every_exit_passes(init.node, call_pred(chk)):
            rep.ok("C01-checks", init, f"every normal exit of FormData.__init__ has called {chk}")
        else:
            rep.violation("C01-checks", init, chk, f"FormData.__init__ can return without having called {chk}")
        if not is_arity:
            continue
        # the arity check receives the form's own arguments and the complex_mode flag
        for n in ast.walk(init.node):
            if isinstance(n, ast.Call) and norm(n.func) == chk:
                txt = [norm(a) for a in n.args] + [f"{k.arg}={norm(k.value)}" for k in n.keywords]
                if any("original_form.arguments()" in t for t in txt) and any(t.endswith("complex_mode") for t in txt):
                    rep.ok("C01-checks", (init, n), "arity check runs on the original form's arguments with the caller's complex_mode")
                else:
                    rep.violation("C01-checks", (init, n), norm(n), f"arity check called with {txt}")


def run(ctx) -> Report:
    rep = Report("C01")
    # the memo-key clause first: it needs no interpretation, and what it finds is reported even if a later clause cannot follow the code
    from ..memokey import check_memo_keys, memo_rule  # noqa: F401
    memo_rule(ctx, rep, "C01-key", [CFD, AIS, "ufl.algorithms.formdata", "ufl.algorithms.apply_coefficient_split"])
    check_scale(ctx, rep)
    n_apply = check_apply(ctx, rep)
    n_pipe = check_pipe(ctx, rep)
    check_formdata(ctx, rep)
    from .c01_compose import compose

    n_comp = compose(ctx, rep)
    from ..memokey import memo_rule

    rep.require_min("C01-scale", 50)
    rep.require_min("C01-apply", 20)
    rep.require_min("C01-pipe", 1)
    rep.require_min("C01-checks", 4)
    rep.counts.update(option_combinations=n_pipe, scaling_cases=n_apply, composed_cases=n_comp)
    rep.explanation = (
        "compute_integrand_scaling_factor lifted for every declared integral type x tdim 0..3 against the change-of-variables factor of "
        "the integration entity; apply_integral_scaling lifted (nested coordinate derivatives, degree arithmetic, input metadata untouched); "
        f"compute_form_data/preprocess_form lifted with recording stubs for all {n_pipe} option combinations and the pass trace checked against "
        "the pipeline contract; FormData's final checks are on every exit; the integrand pipeline composed from the lifted passes on "
        f"{n_comp} symbolic integrand x option cases."
    )
    rep.assumptions = [
        "the individual passes are value preserving (their own properties C02-C10, C15, C17, C23); C01 decides their composition order, options and the scaling",
        "FormData's coefficient renumbering / splitting and MeshSequence paths are not lifted",
    ]
    return rep
