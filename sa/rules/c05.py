"""C05 -- operators build expressions with the mathematically intended value.

The constructors of the expression language are *lifted from source* (sa/ctorlift.py) on structured
symbolic operands and the meaning of what they build is compared with the meaning of the operation that
was requested (reference semantics of index notation, sa/uflsem.py):

C05-algebra   Sum / Product / Division / Power / Abs / Conj / Real / Imag `__new__` on all pairs of a
              scalar universe (literals 0, 1, 2, -1, 0.5, zeros with free indices, symbols with and without
              (shared) free indices): zero / one folding, constant folding, operand reordering.
C05-indexed   Indexed(A, ii) incl. every `_simplify_indexed` (Sum, IndexSum, ListTensor, ComponentTensor,
              Conditional, Zero ...) for fixed / free / mixed multi-indices, also indices that the operand
              already binds.
C05-getitem   A[key] (exproperators._getitem + create_slice_indices) with slices, Ellipsis, fixed, free and
              repeated indices.
C05-indexsum  IndexSum constructor (zero folding, factoring out of products).
C05-comptensor ComponentTensor constructor and as_tensor(expr, indices).
C05-listtensor ListTensor constructor on rows generated as every way of slicing / indexing / transposing a
              tensor row by row (the sub-tensor reconstruction shortcuts), nested lists via as_tensor/as_vector/
              as_matrix.
C05-tensoralgebra Outer / Inner / Dot constructors on operands that both carry free indices of different extents, in
              either order of index creation, and on zeros with free indices.
C05-mult      a*b (exproperators._mult): scalar*scalar with repeated indices, scalar*tensor, matrix*vector,
              matrix*matrix; +, -, /, **, unary -, abs through the Expr operators.
C05-declared  every node built from source declares (ufl_shape, ufl_free_indices, ufl_index_dimensions)
              equal to those of its meaning.
"""

from __future__ import annotations

import itertools
from fractions import Fraction

from .. import uflmodel, uflsem
from ..ctorlift import CtorHarness
from ..lift import LiftRaise, Unsupported
from ..model import AnalysisError
from ..report import Report
from ..uflmodel import MI, new_index, terminal
from ..uflsem import SemError, T, as_T, equal_T


def describe(x):
    if isinstance(x, T):
        return x.tags.get("desc") or x.name or f"{x.tags.get('ufl_class', 'value')}{x.shape}"
    return repr(x)


def named(t, desc):
    t.tags["desc"] = desc
    return t


class World:
    """operands (reference-built nodes) used by all clauses"""

    def __init__(self):
        um = uflmodel
        self.f = terminal("f", (), "Coefficient")
        self.g = terminal("g", (), "Coefficient")
        self.u = terminal("u", (2,), "Coefficient")
        self.v = terminal("v", (2,), "Coefficient")
        self.w = terminal("w", (3,), "Coefficient")
        self.A = terminal("A", (2, 2), "Coefficient")
        self.B = terminal("B", (2, 3), "Coefficient")
        self.C = terminal("C", (3, 2), "Coefficient")
        self.R = terminal("R", (2, 3, 2), "Coefficient")
        self.Q = terminal("Q", (2, 2, 2, 2), "Coefficient")
        for n in "f g u v w A B C R Q".split():
            getattr(self, n).tags["desc"] = n
        self.i, self.j, self.k, self.l = (new_index() for _ in range(4))
        self.cm, _ = um.base_models()

    def idx(self, A, *key):
        r = uflmodel.m_indexed(A, MI(key))
        return named(r, f"{describe(A)}[{','.join(str(k) for k in key)}]")

    def scalars(self):
        um = uflmodel
        i, j = self.i, self.j
        S = [
            named(um.m_scalar(0), "0"),
            named(um.m_scalar(1), "1"),
            named(um.m_scalar(2), "2"),
            named(um.m_scalar(-1), "-1"),
            named(um.m_scalar(Fraction(1, 2)), "0.5"),
            named(um.m_zero((), (i.id,), (2,)), "Zero[i]"),
            named(um.m_zero((), (i.id, j.id), (2, 3)), "Zero[i,j]"),
            self.f,
            self.g,
            self.idx(self.u, i),
            self.idx(self.v, i),
            self.idx(self.v, j),
            self.idx(self.u, 0),
            self.idx(self.B, i, j),
            named(um.m_product(self.f, self.g), "f*g"),
            named(um.m_product(self.idx(self.u, i), self.g), "u[i]*g"),
            # operands that are themselves results of the constructors under test (nested simplifications)
            named(um.m_power(self.f, um.m_scalar(2)), "f**2"),
            named(um.m_power(self.f, um.m_scalar(Fraction(1, 2))), "f**0.5"),
            named(um.m_power(self.f, um.m_scalar(-1)), "f**-1"),
            named(um.m_division(self.f, self.g), "f/g"),
            named(um.m_sum(self.f, um.m_scalar(1)), "f+1"),
            named(um.m_unary("Abs", "abs")(self.f), "abs(f)"),
            named(um.m_scalar(3), "3"),
            named(um.m_scalar(Fraction(3, 2)), "1.5"),
        ]
        return S

    def tensors(self):
        """tensor-valued nodes of many construction kinds"""
        um = uflmodel
        i, j, k = (new_index() for _ in range(3))
        u, v, w, A, B, C, R, f, g = self.u, self.v, self.w, self.A, self.B, self.C, self.R, self.f, self.g
        out = [u, A, B, R]
        out.append(named(um.m_zero((2, 3)), "Zero(2,3)"))
        out.append(named(um.m_zero((2,), (self.l.id,), (3,)), "Zero(2,)[l]"))
        out.append(named(um.m_sum(u, v), "u+v"))
        out.append(named(um.m_sum(B, um.m_component_tensor(um.m_indexed(C, MI((j, i))), MI((i, j)))), "B+C^T"))
        out.append(named(um.m_list_tensor(um.m_product(f, g), um.m_indexed(u, MI((1,)))), "[f*g,u[1]]"))
        out.append(named(um.m_list_tensor(u, v, um.m_sum(u, v)), "[u,v,u+v]"))
        out.append(named(um.m_component_tensor(um.m_indexed(B, MI((i, j))), MI((j, i))), "as_tensor(B[i,j],(j,i))"))
        i2, j2 = new_index(), new_index()
        out.append(named(um.m_component_tensor(um.m_product(um.m_indexed(B, MI((i2, j2))), um.m_indexed(w, MI((j2,)))), MI((i2,))), "as_tensor(B[i,j]*w[j],(i,)) (j free)"))
        i3, j3 = new_index(), new_index()
        row = um.m_component_tensor(um.m_product(um.m_indexed(u, MI((i3,))), um.m_indexed(B, MI((i3, j3)))), MI((j3,)))
        out.append(named(um.m_index_sum(row, MI((i3,))), "sum_i as_tensor(u[i]*B[i,j],(j,))"))
        i5, j5 = new_index(), new_index()
        row = um.m_component_tensor(um.m_product(um.m_indexed(u, MI((i5,))), um.m_indexed(A, MI((i5, j5)))), MI((j5,)))
        out.append(named(um.m_index_sum(row, MI((i5,))), "sum_i as_tensor(u[i]*A[i,j],(j,))"))
        i6, j6 = new_index(), new_index()
        out.append(named(um.m_component_tensor(um.m_index_sum(um.m_product(um.m_indexed(A, MI((i6, j6))), um.m_indexed(u, MI((j6,)))), MI((j6,))), MI((i6,))), "as_tensor(sum_j A[i,j]*u[j],(i,))"))
        c = um.m_rel("<")(f, g)
        out.append(named(um.m_conditional(c, u, v), "conditional(f<g,u,v)"))
        i4 = new_index()
        out.append(named(um.m_component_tensor(um.m_indexed(R, MI((i4, 1, self.k))), MI((i4,))), "as_tensor(R[i,1,k],(i,)) (k free)"))
        # a list tensor whose rows have a free index, indexed by another index: component tensors binding either one or both
        i7, k7 = new_index(), new_index()
        L = um.m_list_tensor(um.m_indexed(u, MI((i7,))), um.m_indexed(v, MI((i7,))))
        Lk = um.m_indexed(L, MI((k7,)))
        out.append(named(um.m_component_tensor(Lk, MI((i7,))), "as_tensor([u[i],v[i]][k],(i,)) (k free)"))
        out.append(named(um.m_component_tensor(Lk, MI((k7,))), "as_tensor([u[i],v[i]][k],(k,)) (i free)"))
        out.append(named(um.m_component_tensor(Lk, MI((i7, k7))), "as_tensor([u[i],v[i]][k],(i,k))"))
        out.append(named(um.m_component_tensor(Lk, MI((k7, i7))), "as_tensor([u[i],v[i]][k],(k,i))"))
        return out


def keys_for(t: T, W: World, with_slices=False):
    """index tuples for a tensor of t.shape: fixed / free / mixed / repeated / indices already free in t"""
    sh = t.shape
    r = len(sh)
    pool = [W.i, W.j, W.k, W.l]
    free_in_t = list(t.fi)
    out = []
    fixed = tuple(0 for _ in sh)
    fixed1 = tuple(d - 1 for d in sh)
    out += [fixed, fixed1]
    fresh = [p for p in pool if p not in free_in_t]
    if len(fresh) >= r:
        out.append(tuple(fresh[:r]))
        if r >= 2:
            out.append(tuple(reversed(fresh[:r])))
            out.append((0,) + tuple(fresh[: r - 1]))
            out.append(tuple(fresh[: r - 1]) + (fixed1[-1],))
            # repeated index where the dimensions agree
            for a, b in itertools.combinations(range(r), 2):
                if sh[a] == sh[b]:
                    key = list(fresh[:r])
                    key[b] = key[a]
                    out.append(tuple(key))
                    break
    # an index that is already free in the operand (implicit contraction / capture candidates)
    for fi_, d in zip(t.fi, t.fid):
        for ax in range(r):
            if sh[ax] == d:
                key = [fresh[n] if n < len(fresh) else 0 for n in range(r)]
                key[ax] = fi_
                out.append(tuple(key))
                break
    # an index that is *bound* somewhere inside the operand (summation / component-tensor index): users
    # routinely reuse one Index object in several scopes, so indexing with it must not capture
    for b, d in bound_indices(t):
        for ax in range(r):
            if sh[ax] == d:
                key = [fresh[n] if n < len(fresh) else 0 for n in range(r)]
                key = [x if x is not b else 0 for x in key]
                key[ax] = b
                out.append(tuple(key))
                break
    if with_slices and r >= 1:
        out.append((slice(None),) * r)
        out.append((Ellipsis,))
        out.append((0, Ellipsis))
        out.append((Ellipsis, 0))
        if r >= 2:
            out.append((slice(None), 0) + (slice(None),) * (r - 2))
            out.append((fresh[0], slice(None)) + (0,) * (r - 2))
            out.append((slice(None), fresh[0]) + (slice(None),) * (r - 2))
            out.append((Ellipsis, fresh[0]))
            out.append((fresh[0], Ellipsis))
        if r >= 3:
            out.append((0, slice(None), fresh[0]))
            out.append((fresh[0], Ellipsis, fresh[0]) if sh[0] == sh[-1] else (0, Ellipsis, 0))
    seen, res = set(), []
    for k in out:
        kk = tuple(id(x) if not isinstance(x, (int, slice, type(Ellipsis))) else repr(x) for x in k)
        if kk not in seen:
            seen.add(kk)
            res.append(k)
    return res


def bound_indices(t, seen=None, out=None):
    """(Idx, dimension) for every index bound by an IndexSum / ComponentTensor inside t"""
    out = [] if out is None else out
    seen = set() if seen is None else seen
    if not isinstance(t, T) or id(t) in seen:
        return out
    seen.add(id(t))
    ops = t.tags.get("ufl_operands", ())
    cn = t.tags.get("ufl_class")
    if cn in ("IndexSum", "ComponentTensor") and len(ops) == 2 and isinstance(ops[0], T):
        m = ops[0].fimap()
        for ix in ops[1]:
            if ix in m and all(ix is not o for o, _ in out):
                out.append((ix, m[ix]))
    for o in ops:
        bound_indices(o, seen, out)
    return out


def key_text(key):
    def one(k):
        if k is Ellipsis:
            return "..."
        if isinstance(k, slice):
            return ":"
        return str(k)

    return ",".join(one(k) for k in key)


def stable_names(text):
    """index ids depend on how many indices were created before: name them by order of appearance"""
    import re

    names = {}

    def sub(m):
        return names.setdefault(m.group(0), "ijklmnopqrst"[len(names) % 12] + ("'" * (len(names) // 12)))

    return re.sub(r"\bi\d+\b", sub, text)


class Runner:
    def __init__(self, ctx, rep):
        self.ctx = ctx
        self.rep = rep
        self.H = CtorHarness(ctx)
        self.n = {}
        self.expected_raise = 0

    def where(self, cls_or_fn):
        prog = self.ctx.prog
        if isinstance(cls_or_fn, tuple):
            return prog.get_function(*cls_or_fn)
        K = self.H.klass(cls_or_fn)
        return prog.lookup(K, "__new__") or K

    def check(self, rule, where, what, build, expect):
        """build(): lifted construction; expect(): reference meaning (SemError/LiftRaise => ill-formed request)"""
        what = stable_names(what)
        rep = self.rep
        H = self.H
        try:
            want = expect()
            want_err = None
        except (SemError, LiftRaise, ZeroDivisionError) as e:
            want, want_err = None, e
        n_mis = len(H.mismatches)
        try:
            got = build()
        except LiftRaise as e:
            if want_err is not None:
                rep.ok(rule, where, f"{what}: ill-formed request rejected")
                self.expected_raise += 1
            else:
                rep.violation(rule, where, what, f"{what}: construction raises {e.what[:160]} although the operation is well defined")
            return
        for cname, attr, g, w, ops in H.mismatches[n_mis:]:
            rep.violation("C05-declared", self.where(cname), f"{cname}.{attr} in {what}", f"{what}: the {cname} node built for it declares {attr} = {g}, its meaning has {w}")
        if len(H.mismatches) == n_mis:
            self.n["declared_ok"] = self.n.get("declared_ok", 0) + 1
        if want_err is not None:
            # the reference rejects the request (e.g. an index repeated three times); what the library does
            # with an ill-formed request is not part of the property
            rep.info(rule, where, f"{what}: ill-formed for the reference semantics ({want_err}); accepted by the source")
            return
        try:
            got = as_T(got) if not isinstance(got, uflmodel.Cnd) else got
        except Exception:
            rep.violation(rule, where, what, f"{what}: constructor returned a non-expression {got!r}")
            return
        ok, how, wit = equal_T(got, as_T(want), rng=self.ctx.rng, real_only=True, points=6)
        if ok:
            rep.ok(rule, where, f"{what}: shape, free indices and value as requested ({how})")
        else:
            rep.violation(rule, where, what, f"{what}: the expression built differs from the requested operation ({how}): {wit}", witness=wit)


def run(ctx) -> Report:
    rep = Report("C05")
    # the memo-key clause first: it needs no interpretation, and what it finds is reported even if a later clause cannot follow the code
    from ..memokey import check_memo_keys, memo_rule  # noqa: F401
    memo_rule(ctx, rep, "C05-key", ["ufl.algebra", "ufl.indexed", "ufl.indexsum", "ufl.tensors", "ufl.exproperators", "ufl.index_combination_utils"])
    W = World()
    R = Runner(ctx, rep)
    H = R.H
    ref = H.ref
    um = uflmodel

    # ---------------------------------------------------------------- algebra
    S = W.scalars()
    for cname in ("Sum", "Product", "Division", "Power"):
        where = R.where(cname)
        for a, b in itertools.product(S, S):
            what = f"{cname}({describe(a)}, {describe(b)})"
            R.check("C05-algebra", where, what, lambda: H.construct(cname, (a, b)), lambda: ref[cname](a, b))
    for cname in ("Abs", "Conj", "Real", "Imag"):
        where = R.where(cname)
        for a in S + W.tensors()[:3]:
            what = f"{cname}({describe(a)})"
            R.check("C05-algebra", where, what, lambda: H.construct(cname, (a,)), lambda: ref[cname](a))
    # ---------------------------------------------------------------- Indexed / getitem
    TT = W.tensors()
    wi = R.where("Indexed")
    wg = R.where(("ufl.exproperators", "_getitem"))
    for t in TT:
        for key in keys_for(t, W):
            what = f"Indexed({describe(t)}, ({key_text(key)}))"
            R.check("C05-indexed", wi, what, lambda: H.construct("Indexed", (t, MI(key))), lambda: uflsem.t_index(t, key, repeated="share"))
        for key in keys_for(t, W, with_slices=True):
            what = f"{describe(t)}[{key_text(key)}]"
            R.check("C05-getitem", wg, what, lambda: H.getitem(t, key if len(key) != 1 else key[0]), lambda: uflsem.t_index(t, key, repeated="sum"))
    # ---------------------------------------------------------------- tensor algebra constructors
    # Outer / Inner / Dot on operands that both carry a free index - of different extents, created in either order - and
    # on zeros with free indices (zero folding keeps shape, indices and extents)
    p_, q_ = new_index(), new_index()
    for first, second in ((W.i, W.j), (W.j, W.i)):
        # `first` belongs to the left operand; in the second round the left operand's index is the younger one
        left = named(um.m_component_tensor(um.m_indexed(W.B, MI((p_, first))), MI((p_,))), f"B[:,{first}]")
        right = named(um.m_component_tensor(um.m_indexed(W.A, MI((q_, second))), MI((q_,))), f"A[:,{second}]")
        zl = named(um.m_zero((2,), (first.id,), (3,)), f"Zero(2)[{first}:3]")
        zr = named(um.m_zero((2,), (second.id,), (2,)), f"Zero(2)[{second}:2]")
        for cname in ("Outer", "Inner", "Dot"):
            wt = R.where(cname)
            for a, b in ((left, right), (right, left), (zl, right), (left, zr), (zl, zr), (W.u, right), (left, W.v)):
                what = f"{cname}({describe(a)}, {describe(b)})"
                R.check("C05-tensoralgebra", wt, what, lambda: H.construct(cname, (a, b)), lambda: ref[cname](a, b))
    # ---------------------------------------------------------------- IndexSum
    ws = R.where("IndexSum")
    i, j = W.i, W.j
    summands = [s for s in S if s.fi] + [named(um.m_product(W.idx(W.u, i), W.idx(W.v, i)), "u[i]*v[i]"), named(um.m_product(W.f, W.idx(W.B, i, j)), "f*B[i,j]"), named(um.m_product(W.idx(W.B, i, j), W.idx(W.u, i)), "B[i,j]*u[i]")]
    summands += [t for t in TT if t.fi]
    for s in summands:
        for ix in s.fi:
            what = f"IndexSum({describe(s)}, {ix})"
            R.check("C05-indexsum", ws, what, lambda: H.construct("IndexSum", (s, MI((ix,)))), lambda: uflsem.index_sum(s, ix))
    # ---------------------------------------------------------------- ComponentTensor / as_tensor
    wc = R.where("ComponentTensor")
    wat = R.where(("ufl.tensors", "as_tensor"))
    for s in [x for x in S + summands if isinstance(x, T) and x.shape == () and x.fi]:
        for n in range(1, len(s.fi) + 1):
            for ii in itertools.permutations(s.fi, n):
                what = f"ComponentTensor({describe(s)}, ({key_text(ii)}))"
                R.check("C05-comptensor", wc, what, lambda: H.construct("ComponentTensor", (s, MI(ii))), lambda: uflsem.as_tensor(s, ii))
                what = f"as_tensor({describe(s)}, ({key_text(ii)}))"
                R.check("C05-comptensor", wat, what, lambda: H.call("ufl.tensors", "as_tensor", s, tuple(ii)), lambda: uflsem.as_tensor(s, ii))
    # ---------------------------------------------------------------- ListTensor: row-wise rebuilds of a tensor
    wl = R.where("ListTensor")
    n_rows = 0
    for V in (W.A, W.B, W.R, W.Q):
        r = len(V.shape)
        # every row pattern: V[k, p1..p_{r-1}] with each p fixed (0 or last) or a free index, bound by a
        # component tensor over a (possibly permuted, possibly partial) selection of the free ones
        fresh = [new_index() for _ in range(r - 1)]
        options = []
        for ax in range(1, r):
            options.append([fresh[ax - 1], 0, V.shape[ax] - 1])
        for pat in itertools.product(*options):
            frees = [p for p in pat if not isinstance(p, int)]
            bound_choices = set()
            for n in range(0, len(frees) + 1):
                for sel in itertools.permutations(frees, n):
                    bound_choices.add(sel)
            for bound in sorted(bound_choices, key=lambda b: [x.id for x in b]):
                for order in ("in order", "reversed rows"):
                    rows = []
                    ks = list(range(V.shape[0]))
                    if order == "reversed rows":
                        ks.reverse()
                    for k_ in ks:
                        e = um.m_indexed(V, MI((k_,) + tuple(pat)))
                        if bound:
                            e = um.m_component_tensor(e, MI(bound))
                        rows.append(e)
                    what = f"ListTensor(rows {describe(V)}[k,{key_text(pat)}] bound by ({key_text(bound)}), k {order})"
                    n_rows += 1
                    R.check("C05-listtensor", wl, what, lambda: H.construct("ListTensor", tuple(rows)), lambda: ref["ListTensor"](*rows))
        # column-wise: [V[j.., 0], V[j.., 1], ...] with j free / fixed
        if r >= 2:
            pre_opts = [[new_index(), 0] for _ in range(r - 1)]
            for pre in itertools.product(*pre_opts):
                for order in ("in order", "reversed"):
                    cols = list(range(V.shape[-1]))
                    if order == "reversed":
                        cols.reverse()
                    rows = [um.m_indexed(V, MI(tuple(pre) + (c_,))) for c_ in cols]
                    what = f"ListTensor(entries {describe(V)}[{key_text(pre)},c], c {order})"
                    R.check("C05-listtensor", wl, what, lambda: H.construct("ListTensor", tuple(rows)), lambda: ref["ListTensor"](*rows))
                # one column short: must not collapse to V[...]
                if V.shape[-1] > 2:
                    rows = [um.m_indexed(V, MI(tuple(pre) + (c_,))) for c_ in range(V.shape[-1] - 1)]
                    what = f"ListTensor(entries {describe(V)}[{key_text(pre)},c], c < {V.shape[-1] - 1})"
                    R.check("C05-listtensor", wl, what, lambda: H.construct("ListTensor", tuple(rows)), lambda: ref["ListTensor"](*rows))
    # zeros and mixed rows, nested lists through the user-level functions
    z2 = um.m_zero((2,))
    R.check("C05-listtensor", wl, "ListTensor(Zero(2,), Zero(2,))", lambda: H.construct("ListTensor", (z2, um.m_zero((2,)))), lambda: ref["ListTensor"](z2, z2))
    R.check("C05-listtensor", wl, "ListTensor(u, Zero(2,))", lambda: H.construct("ListTensor", (W.u, z2)), lambda: ref["ListTensor"](W.u, z2))
    zi = um.m_zero((), (W.i.id,), (2,))
    R.check("C05-listtensor", wl, "ListTensor(Zero[i], Zero[i])", lambda: H.construct("ListTensor", (zi, um.m_zero((), (W.i.id,), (2,)))), lambda: ref["ListTensor"](zi, zi))
    ui = W.idx(W.u, W.i)
    R.check("C05-listtensor", wl, "ListTensor(u[i], Zero[i])", lambda: H.construct("ListTensor", (ui, zi)), lambda: ref["ListTensor"](ui, zi))
    for fname in ("as_tensor", "as_vector", "as_matrix"):
        wf = R.where(("ufl.tensors", fname))
        if fname != "as_matrix":
            R.check("C05-listtensor", wf, f"{fname}([f, 1, u[0]])", lambda: H.call("ufl.tensors", fname, [W.f, 1, W.idx(W.u, 0)]), lambda: T.from_nested([W.f, as_T(1), W.idx(W.u, 0)]))
        if fname != "as_vector":
            R.check("C05-listtensor", wf, f"{fname}([[f, 0], [u[0], g]])", lambda: H.call("ufl.tensors", fname, [[W.f, 0], [W.idx(W.u, 0), W.g]]), lambda: T.from_nested([[W.f, as_T(0)], [W.idx(W.u, 0), W.g]]))
    # ---------------------------------------------------------------- products and the other Expr operators
    wm = R.where(("ufl.exproperators", "_mult"))
    i, j, k = W.i, W.j, W.k
    prod_cases = [
        ("f*g", W.f, W.g),
        ("u[i]*v[i]", W.idx(W.u, i), W.idx(W.v, i)),
        ("u[i]*v[j]", W.idx(W.u, i), W.idx(W.v, j)),
        ("B[i,j]*(C[j,k]*u[k])", W.idx(W.B, i, j), um.m_index_sum(um.m_product(W.idx(W.C, j, k), W.idx(W.u, k)), MI((k,)))),
        ("f*u", W.f, W.u),
        ("u*f", W.u, W.f),
        ("v[i]*B[i,:]-like: u[i]*A", W.idx(W.u, i), W.A),
        ("2*B", um.m_scalar(2), W.B),
        ("0*B", um.m_scalar(0), W.B),
        ("Zero[i]*u", um.m_zero((), (i.id,), (2,)), W.u),
        ("A*u (matrix-vector)", W.A, W.u),
        ("B*w", W.B, W.w),
        ("A*B (matrix-matrix)", W.A, W.B),
        ("B*C", W.B, W.C),
        ("Zero(2,3)*C", um.m_zero((2, 3)), W.C),
        ("u*v (vector*vector: invalid)", W.u, W.v),
        ("A*R (invalid ranks)", W.A, W.R),
    ]

    def ref_mult(a, b):
        a, b = as_T(a), as_T(b)
        ra, rb = len(a.shape), len(b.shape)
        if ra == 0 or rb == 0:
            return uflsem.t_mul(a, b, repeated=True)
        if ra == 2 and rb in (1, 2):
            if set(a.fi) & set(b.fi):
                raise SemError("repeated indices in a non-scalar product")
            ii = tuple(new_index() for _ in range(ra - 1))
            jj = tuple(new_index() for _ in range(rb - 1))
            kk = new_index()
            p = uflsem.t_mul(uflsem.t_index(a, ii + (kk,)), uflsem.t_index(b, (kk,) + jj), repeated=True)
            return uflsem.as_tensor(p, ii + jj)
        raise SemError("invalid ranks in product")

    for desc, a, b in prod_cases:
        R.check("C05-mult", wm, f"{desc}", lambda: H.ip.binop(__import__("ast").Mult, a, b), lambda: ref_mult(a, b))
    import ast as _ast

    sc = um.m_scalar
    # the reference constructors enforce the language's well-formedness rules (equal shapes and free indices for
    # sums, true-scalar divisor / power operands)
    ops = [(_ast.Add, "+", lambda a, b: um.m_sum(sc(a), sc(b))), (_ast.Sub, "-", lambda a, b: um.m_sum(sc(a), uflsem.t_neg(as_T(sc(b))))), (_ast.Div, "/", lambda a, b: um.m_division(sc(a), sc(b))), (_ast.Pow, "**", lambda a, b: um.m_power(sc(a), sc(b)))]
    small = [W.f, W.g, um.m_scalar(2), um.m_scalar(0), W.idx(W.u, i), W.u, um.m_zero((2,)), 3, Fraction(1, 2)]
    for op, sym_, rf in ops:
        wo = R.where(("ufl.exproperators", {"+": "_add", "-": "_sub", "/": "_div", "**": "_pow"}[sym_]))
        for a, b in itertools.product(small, small):
            if not isinstance(a, T) and not isinstance(b, T):
                continue
            what = f"{describe(a)} {sym_} {describe(b)}"
            R.check("C05-mult", wo, what, lambda: H.ip.binop(op, a, b), lambda: rf(a, b))
    wn = R.where(("ufl.exproperators", "_neg"))
    for a in [W.f, W.u, W.idx(W.u, i), um.m_scalar(2), um.m_zero((2,))]:
        R.check("C05-mult", wn, f"-{describe(a)}", lambda: H.ip.unop_hook(_ast.USub, a, None), lambda: uflsem.t_neg(as_T(a)))
    # ---------------------------------------------------------------- bookkeeping
    rep.counts["fresh nodes built from source"] = sum(H.built.values())
    rep.counts["per class"] = dict(sorted(H.built.items()))
    rep.counts["ill-formed requests rejected"] = R.expected_raise
    rep.counts["row-wise list tensor patterns"] = n_rows
    rep.require_min("C05-algebra", 2000)
    rep.require_min("C05-indexed", 60)
    rep.require_min("C05-getitem", 120)
    rep.require_min("C05-indexsum", 15)
    rep.require_min("C05-comptensor", 30)
    rep.require_min("C05-listtensor", 200)
    rep.require_min("C05-mult", 100)
    if sum(H.built.values()) < 500:
        raise AnalysisError("fewer than 500 nodes were built from source: the lifting went vacuous")
    from ..memokey import memo_rule

    rep.explanation = (
        "The constructors of the expression language (__new__/__init__/_simplify_indexed of Sum, Product, Division, Power, Abs, Conj, "
        "Real, Imag, Indexed, IndexSum, ComponentTensor, ListTensor, the Expr operators of exproperators.py, as_tensor/as_vector/"
        "as_matrix) were interpreted from source on structured symbolic operands; each result's shape, free indices and value were "
        "compared with the reference meaning of the requested operation, and every node built declares the shape and indices of its meaning."
    )
    rep.assumptions = ["reference semantics of index notation in sa/uflsem.py", "operand universe is finite (dims 2,3; ranks <= 4); sorting of operands is decided by C29"]
    return rep
