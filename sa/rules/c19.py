"""C19 -- DAG traversal and mapping visit every distinct node correctly (structural clauses).

C19-visit  corealg/traversal.py: in the `unique_*` traversals an operand is pushed only under a
           `not in visited` test and marked visited no later than its yield; post-order variants
           push (dep, operands-of-dep), null the dependency slot and `break`, and yield only in the
           `for ... else` branch (all dependencies done) or at a cut-off type; each yield is followed by
           the pop of that frame.
C19-map    corealg/map_dag.py: operand results are read from vcache[u] for u in v.ufl_operands; the
           value stored in vcache[v] is the (optionally compressed) handler result; cut-off handlers
           are called without operands exactly when the traversal cut off; cache hits skip recomputation.
C19-mro    MultiFunction / Transformer resolve a handler by walking classobject.mro() in order and stop
           at the first hit.
C19-key    DAGTraverser.__call__ memoises on (node, all keyword arguments) - shared MEMO-KEY rule with
           the lossy-projection clause.
C19-exh    T-EXH over all algorithm classes: every concrete type resolves to some handler.
C19-mro/cache  the per-class handler table must be found under the exact algorithm class: a dict keyed by the
           class, or the class's own namespace - not attribute lookup, which follows the MRO (shared with C20).
C19-equiv  the traversal generators, map_expr_dags and DAGTraverser.__call__ (with its postorder decorators) are
           interpreted from source on every rooted DAG shape with <= 4 (quick) / 5 (thorough) nodes and operand counts
           0..2 - shared sub-expressions, repeated operands, diamonds - with every subset of node kinds as cut-off
           types, and compared with their recursive definitions: tree traversals visit every tree occurrence in
           pre-/post-order; unique traversals every distinct node once with parent-before-child /
           children-before-parent; cut-off variants on the truncated DAG; shared `visited` sets; map_expr_dags
           = recursive application of the handlers, each distinct node handled once per call, several roots,
           caller-supplied caches, compress on/off; DAGTraverser: one process call per distinct (node, kwargs).
"""

from __future__ import annotations

import ast

from ..flow import guard_texts
from ..memokey import check_memo_keys
from ..model import AnalysisError, norm
from ..report import Report

TR = "ufl.corealg.traversal"


def find(fn, pred):
    return [n for n in ast.walk(fn) if pred(n)]


def run(ctx) -> Report:
    rep = Report("C19")
    prog = ctx.prog
    m = prog.module(TR)
    names = ["pre_traversal", "post_traversal", "cutoff_post_traversal", "unique_pre_traversal", "unique_post_traversal", "cutoff_unique_post_traversal"]
    for nm in names:
        if nm not in m.functions:
            raise AnalysisError(f"{TR}.{nm} not found (anchor vanished)")
    for nm in names:
        fi = m.functions[nm]
        fn = fi.node
        unique = "unique" in nm
        post = "post" in nm
        cutoff = "cutoff" in nm
        pushes = find(fn, lambda n: isinstance(n, ast.Call) and norm(n.func) == "lifo.append")
        yields = find(fn, lambda n: isinstance(n, ast.Yield))
        if not pushes or not yields:
            rep.violation("C19-visit", fi, nm, f"{nm}: no push / yield found")
            continue
        for p in pushes:
            g = guard_texts(fn, p)
            arg = p.args[0]
            pushed = arg.elts[0] if isinstance(arg, ast.Tuple) else arg
            pn = norm(pushed)
            if unique:
                if any(t.replace(" ", "") == f"{pn}notinvisited" for t in g):
                    rep.ok("C19-visit/guard", (fi, p), f"{nm}: push of {pn} guarded by `{pn} not in visited`")
                else:
                    rep.violation("C19-visit/guard", (fi, p), norm(p), f"{nm}: `{pn}` is pushed without a dominating `{pn} not in visited` test (guards: {g}): shared subexpressions are visited more than once")
            if post:
                if isinstance(arg, ast.Tuple) and len(arg.elts) == 2 and f"{pn}.ufl_operands" in norm(arg.elts[1]):
                    rep.ok("C19-visit/frame", (fi, p), f"{nm}: frame ({pn}, operands of {pn})")
                else:
                    rep.violation("C19-visit/frame", (fi, p), norm(p), f"{nm}: pushed frame is not (node, that node's operands)")
                if any(t.replace(" ", "") == f"{pn}isnotNone" for t in g):
                    rep.ok("C19-visit/slot", (fi, p), f"{nm}: dependency slot tested for None")
                else:
                    rep.violation("C19-visit/slot", (fi, p), norm(p), f"{nm}: dependency is pushed without checking that its slot has not been consumed")
        if unique and not post:
            # marked when pushed (pre-order)
            adds = find(fn, lambda n: isinstance(n, ast.Call) and norm(n.func) == "visited.add")
            if len(adds) >= 2:
                rep.ok("C19-visit/mark", fi, f"{nm}: root and pushed operands are marked visited")
            else:
                rep.violation("C19-visit/mark", fi, nm, f"{nm}: visited.add occurs {len(adds)} times (root and every pushed operand must be marked)")
        if post:
            # nulling + break in the for body; yields only in for-else or under the cutoff test
            fors = find(fn, lambda n: isinstance(n, ast.For))
            inner = [f for f in fors if "enumerate(deps)" in norm(f.iter)]
            if not inner:
                rep.violation("C19-visit/post", fi, nm, f"{nm}: dependency loop not found")
                continue
            f0 = inner[0]
            body_txt = norm(f0.body)
            if "deps[i] = None" in body_txt and any(isinstance(n, ast.Break) for n in ast.walk(f0)):
                rep.ok("C19-visit/post", (fi, f0), f"{nm}: consumed dependency is nulled and the loop breaks to descend")
            else:
                rep.violation("C19-visit/post", (fi, f0), "dependency loop", f"{nm}: the dependency loop does not null the slot and break")
            for y in yields:
                in_else = any(y is n or any(y is k for k in ast.walk(n)) for n in f0.orelse)
                g = guard_texts(fn, y)
                at_cut = any("cutofftypes[expr._ufl_typecode_]" in t and not t.startswith("not") for t in g)
                if in_else or (cutoff and at_cut):
                    rep.ok("C19-visit/yield", (fi, y), f"{nm}: yield only after all dependencies ({'for-else' if in_else else 'cut-off'})")
                else:
                    rep.violation("C19-visit/yield", (fi, y), "yield expr", f"{nm}: a node is yielded outside the for-else (dependencies may not have been yielded yet)")
            # every yield is followed by lifo.pop() (and visited.add for unique) in the same block
            for blk in [f0.orelse] + [st.body for st in ast.walk(fn) if isinstance(st, ast.If)]:
                txt = [norm(s) for s in blk]
                if "yield expr" in txt:
                    k = txt.index("yield expr")
                    rest = txt[k + 1 :]
                    if "lifo.pop()" not in rest:
                        rep.violation("C19-visit/pop", (fi, blk[k]), "yield expr", f"{nm}: frame is not popped after its node is yielded")
                    elif unique and "visited.add(expr)" not in rest:
                        rep.violation("C19-visit/mark", (fi, blk[k]), "yield expr", f"{nm}: node is not marked visited when yielded")
                    else:
                        rep.ok("C19-visit/pop", (fi, blk[k]), f"{nm}: yield; {'mark; ' if unique else ''}pop")
    # ---------------------------------------------------------------- map_dag
    md = prog.get_function("ufl.corealg.map_dag", "map_expr_dags")
    fn = md.node
    src = norm(fn)
    calls = find(fn, lambda n: isinstance(n, ast.Call) and norm(n.func) == "handlers[v._ufl_typecode_]")
    if len(calls) != 2:
        rep.violation("C19-map", md, "handler calls", f"expected the cut-off and the post-order handler call, found {len(calls)}")
    for c in calls:
        g = guard_texts(fn, c)
        cut = [t for t in g if "cutoff_types[v._ufl_typecode_]" in t]
        if len(c.args) == 1:
            if cut and not cut[0].startswith("not"):
                rep.ok("C19-map/cutoff", (md, c), "handler called without operands exactly under cutoff_types[typecode]")
            else:
                rep.violation("C19-map/cutoff", (md, c), norm(c), "a handler is called without processed operands outside the cut-off branch")
        else:
            star = [a for a in c.args if isinstance(a, ast.Starred)]
            ok = bool(star) and norm(star[0].value).replace(" ", "") == "(vcache[u]foruinv.ufl_operands)" and norm(c.args[0]) == "v"
            if ok and cut and cut[0].startswith("not"):
                rep.ok("C19-map/operands", (md, c), "post-order handler receives vcache[u] for u in v.ufl_operands, in order")
            else:
                rep.violation("C19-map/operands", (md, c), norm(c), "the post-order handler call does not pass the cached results of v's operands in operand order")
    stores = find(fn, lambda n: isinstance(n, ast.Assign) and norm(n.targets[0]) == "vcache[v]")
    if len(stores) == 1 and norm(stores[0].value) == "r":
        rep.ok("C19-map/store", (md, stores[0]), "vcache[v] = r (after optional compression)")
    else:
        rep.violation("C19-map/store", md, "vcache[v] = ...", "the result cache is not filled with the handler result of v")
    hits = find(fn, lambda n: isinstance(n, ast.If) and norm(n.test) == "v in vcache" and any(isinstance(x, ast.Continue) for x in n.body))
    (rep.ok("C19-map/hit", (md, hits[0]), "cache hit skips recomputation") if hits else rep.violation("C19-map/hit", md, "if v in vcache: continue", "cache hits are not skipped on `v in vcache`"))
    rets = [st for st in fn.body if isinstance(st, ast.Return)]
    if rets and norm(rets[-1].value).replace(" ", "") == "[vcache[expression]forexpressioninexpressions]":
        rep.ok("C19-map/return", (md, rets[-1]), "returns vcache[expression] per root")
    else:
        rep.violation("C19-map/return", md, "return", "map_expr_dags does not return the cached result of each root expression")
    trav = find(fn, lambda n: isinstance(n, ast.Call) and norm(n.func) in ("cutoff_unique_post_traversal", "unique_post_traversal"))
    shared = all("visited" in [norm(a) for a in c.args] for c in trav)
    if len(trav) == 2 and shared:
        rep.ok("C19-map/traversal", md, "unique post-order traversals sharing one visited set; cut-off variant gets cutoff_types")
    else:
        rep.violation("C19-map/traversal", md, "traversal selection", "map_expr_dags does not use the unique post-order traversals with a shared visited set")
    cut_call = [c for c in trav if norm(c.func) == "cutoff_unique_post_traversal"]
    if cut_call and "cutoff_types" not in [norm(a) for a in cut_call[0].args]:
        rep.violation("C19-map/traversal", md, norm(cut_call[0]), "the cut-off traversal is not given the same cutoff_types table that selects the handler call form")
    # compression
    comp = find(fn, lambda n: isinstance(n, ast.If) and norm(n.test) == "compress")
    ctxt = norm(comp[0]) if comp else ""
    if "rcache.get(r)" in ctxt and "rcache[r] = r" in ctxt and "r = r2" in ctxt:
        rep.ok("C19-map/compress", (md, comp[0]), "compression replaces r by an equal cached object only")
    else:
        rep.violation("C19-map/compress", md, "compress branch", "compression does not look r up by equality and reuse the cached equal object")
    # ---------------------------------------------------------------- mro
    for qual in ("ufl.corealg.multifunction.MultiFunction", "ufl.algorithms.transformer.Transformer"):
        cls = prog.get_class(qual)
        init = cls.methods["__init__"]
        loops = find(init.node, lambda n: isinstance(n, ast.For) and norm(n.iter) == "classobject.mro()")
        if not loops:
            rep.violation("C19-mro", init, "for c in classobject.mro()", f"{cls.name}: handler resolution does not walk classobject.mro()")
            continue
        lp = loops[0]
        brk = [n for n in ast.walk(lp) if isinstance(n, ast.Break)]
        hit_ifs = [n for n in ast.walk(lp) if isinstance(n, ast.If) and any(isinstance(x, ast.Break) for x in n.body)]
        ok = bool(brk) and hit_ifs and ("hasattr(self, handler_name)" in norm(hit_ifs[0].test) or norm(hit_ifs[0].test) == "function")
        if ok:
            rep.ok("C19-mro", (init, lp), f"{cls.name}: first class in mro() order that provides a handler wins (break)")
        else:
            rep.violation("C19-mro", (init, lp), "mro loop", f"{cls.name}: the mro loop does not stop at the first class providing a handler")
    check_memo_keys(ctx, rep, "C19-key", ["ufl.corealg.dag_traverser"], only_functions={"DAGTraverser.__call__"})
    # every memo of the traversal machinery (drivers, decorators, transformer base classes): a memo that is not owned by
    # the algorithm object (closure variable of a decorator, module-level table) does not store what depends on the object
    from ..memokey import positive_control

    positive_control(ctx)
    check_memo_keys(ctx, rep, "C19-key", ["ufl.corealg.multifunction", "ufl.corealg.map_dag", "ufl.corealg.dag_traverser", "ufl.algorithms.transformer"], min_sites=3, owner_only=True)
    # T-EXH over all algorithm classes
    groups = ctx.disp.algorithm_classes()
    ctx.crosscheck_dispatch()
    nalg = 0
    for base, classes in groups.items():
        for alg in classes:
            nalg += 1
            tab = ctx.disp.table(alg)
            missing = [t.name for t in ctx.tm.concrete() if tab.get(t.name) is None]
            if missing:
                rep.violation("C19-exh", alg, f"{alg.name}: {missing[:5]}", f"{alg.name} resolves no handler for {len(missing)} concrete types, e.g. {missing[:5]}")
            else:
                rep.ok("C19-exh", alg, f"{alg.name}: all {len(ctx.tm.concrete())} concrete types resolve to a handler")
    if nalg < 35:
        raise AnalysisError(f"only {nalg} algorithm classes found (confirmed: 40)")
    rep.require_min("C19-visit", 25)
    rep.require_min("C19-map", 7)
    rep.require_min("C19-mro", 2)
    rep.require_min("C19-key", 1)
    rep.require_min("C19-exh", 35)
    rep.explanation = (
        "Structural necessary conditions of the traversal/mapping contract, decided on the AST: visited-set discipline and "
        "post-order yield placement in the six traversals, operand/result cache wiring and cut-off consistency in map_expr_dags, "
        "first-hit MRO resolution, memo key completeness and injectivity in DAGTraverser.__call__, handler exhaustiveness of "
        f"all {nalg} algorithm classes (cross-checked against the live dispatch tables)."
    )
    rep.assumptions = ["does not decide equivalence with the recursive definition (that needs the traversals' loop invariants); the clauses are necessary conditions"]
    # the handler table must be the one of the exact algorithm class (shared rule with C20)
    from .c20 import cache_key_rule, handler_cache_sites

    hs = handler_cache_sites(prog)
    if len(hs) < 2:
        raise AnalysisError(f"found {len(hs)} class-level handler caches, expected MultiFunction and Transformer")
    for cls, cname, init, fetches, kind in hs:
        for fetch in fetches:
            cache_key_rule(prog, rep, "C19-mro/cache", cls, cname, init, fetch, kind)
    # ---- the real drivers interpreted on generated DAGs (sa/rules/c19_equiv.py) -------------------------------
    from .c19_equiv import run_equiv

    run_equiv(ctx, rep)
    return rep
