"""C19 -- DAG traversal and mapping visit every distinct node correctly.

C19-equiv  the traversal generators, map_expr_dags and DAGTraverser.__call__ (with its postorder decorators) are
           interpreted from source on every rooted DAG shape with <= 4 (quick) / 5 (thorough) nodes and operand counts
           0..2 - shared sub-expressions, repeated operands, diamonds - with every subset of node kinds as cut-off
           types, and compared with their recursive definitions: tree traversals visit every tree occurrence in
           pre-/post-order; unique traversals every distinct node once with parent-before-child /
           children-before-parent; cut-off variants on the truncated DAG; shared `visited` sets; map_expr_dags
           = recursive application of the handlers, each distinct node handled once per call, several roots,
           caller-supplied caches, compress on/off; DAGTraverser: one process call per distinct (node, kwargs)
           (sa/rules/c19_equiv.py).
C19-mro    MultiFunction.__init__ and Transformer.__init__ interpreted from source in a model type registry (a small
           forest shaped like the UFL hierarchy, including types with two UFL bases) on user-side algorithm classes
           (handlers on the class, on a base class, aliased, cut-off): the handler table equals the definition - the
           first handler, along the type's own mro(), that the algorithm object provides - for every class, in every
           instantiation order of subclasses / siblings, with the cut-off / visit-order flags that the handler's
           parameters imply (sa/rules/c19_dispatch.py; the same interpretation decides C20-late).
C19-mro/cache  the per-class handler table must be found under the exact algorithm class: a dict keyed by the
           class, or the class's own namespace - not attribute lookup, which follows the MRO (shared with C20).
C19-key    DAGTraverser.__call__ memoises on (node, all keyword arguments) - shared MEMO-KEY rule with the
           lossy-projection clause; every memo of the traversal machinery is owned by the algorithm object or
           stores nothing computed from it.
C19-exh    T-EXH over all algorithm classes: every concrete type resolves to some handler.

Earlier versions decided the traversals and map_expr_dags through AST facts about their loops (C19-visit, C19-map, a
textual C19-mro).  Those clauses named local variables and statement shapes of today's source and would have fired
on behaviour-preserving edits; they were removed when C19-equiv and C19-mro made them redundant.
"""

from __future__ import annotations

import ast

from ..memokey import check_memo_keys
from ..model import AnalysisError, norm
from ..report import Report

TR = "ufl.corealg.traversal"


def find(fn, pred):
    return [n for n in ast.walk(fn) if pred(n)]


def run(ctx) -> Report:
    rep = Report("C19")
    prog = ctx.prog
    from .c19_dispatch import run_dispatch

    run_dispatch(ctx, rep, rules=("C19-mro",))
    check_memo_keys(ctx, rep, "C19-key", ["ufl.corealg.dag_traverser"], only_functions={"DAGTraverser.__call__"})
    # every memo of the traversal machinery (drivers, decorators, transformer base classes): a memo that is not owned by
    # the algorithm object (closure variable of a decorator, module-level table) does not store what depends on the object
    from ..memokey import positive_control

    positive_control(ctx)
    check_memo_keys(ctx, rep, "C19-key", ["ufl.corealg.multifunction", "ufl.corealg.map_dag", "ufl.corealg.dag_traverser", "ufl.algorithms.transformer"], min_sites=3, owner_only=True)
    # T-EXH over all algorithm classes
    groups = ctx.disp.algorithm_classes()
    ctx.crosscheck_dispatch()
    nalg = 0
    for base, classes in groups.items():
        for alg in classes:
            nalg += 1
            tab = ctx.disp.table(alg)
            missing = [t.name for t in ctx.tm.concrete() if tab.get(t.name) is None]
            if missing:
                rep.violation("C19-exh", alg, f"{alg.name}: {missing[:5]}", f"{alg.name} resolves no handler for {len(missing)} concrete types, e.g. {missing[:5]}")
            else:
                rep.ok("C19-exh", alg, f"{alg.name}: all {len(ctx.tm.concrete())} concrete types resolve to a handler")
    if nalg < 35:
        raise AnalysisError(f"only {nalg} algorithm classes found (confirmed: 40)")
    rep.require_min("C19-mro", 10)
    rep.require_min("C19-key", 1)
    rep.require_min("C19-exh", 35)
    rep.explanation = (
        "The six traversal generators, map_expr_dags and DAGTraverser.__call__ interpreted from source on every rooted DAG shape up to the "
        "bound and compared with their recursive definitions; handler resolution of MultiFunction / Transformer interpreted in a model type "
        "registry and compared with first-provided-handler-along-the-type's-mro; memo ownership and key completeness of the traversal "
        f"machinery; handler exhaustiveness of all {nalg} algorithm classes (cross-checked against the live dispatch tables)."
    )
    rep.assumptions = ["DAG shapes up to 4 (quick) / 5 (thorough) nodes with at most two operands per node; the model type registry of sa/rules/c19_dispatch.py"]
    # the handler table must be the one of the exact algorithm class (shared rule with C20)
    from .c20 import cache_key_rule, handler_cache_sites

    hs = handler_cache_sites(prog)
    if len(hs) < 2:
        rep.info("C19-mro/cache", "ufl", f"{len(hs)} class-level handler caches of the known shape (a class-level dict read in __init__); C19-mro decides by interpretation")
    for cls, cname, init, fetches, kind in hs:
        for fetch in fetches:
            cache_key_rule(prog, rep, "C19-mro/cache", cls, cname, init, fetch, kind)
    # ---- the real drivers interpreted on generated DAGs (sa/rules/c19_equiv.py) -------------------------------
    from .c19_equiv import run_equiv

    run_equiv(ctx, rep)
    return rep
