"""C19-mro / C20-late: handler resolution of MultiFunction and Transformer interpreted from source in a model
type registry.

`MultiFunction.__init__` and `Transformer.__init__` build, per algorithm class, the table  typecode -> handler.
They are interpreted from source with

    Expr._ufl_all_classes_   a list of type stand-ins (typecode, handler name, mro() = the chain of stand-ins up
                             to the root) - a small forest shaped like the UFL hierarchy (root `expr`, `terminal`,
                             `operator`, two levels below each, a type without its own handler name's handler ...)
    the algorithm object     an instance of a user-side algorithm class from a virtual module (handlers on the class,
                             on a base class, as class attributes aliasing a base-class handler; cut-off handlers)
    signature / getfullargspec  answered from the handler's own parameter list

and the table that comes out is compared with the definition: the handler of type t is the first one, walking t's
own mro(), whose name the algorithm object provides; a handler with only (self, o) is a cut-off / pre-order handler.

  C19-mro        the table equals that definition for every (algorithm class, type) of the model - including after
                 another algorithm class (a subclass, a sibling) was instantiated before (per-class caches must be
                 keyed by the exact class) and for two instances of one class.
  C20-late       after a type is appended to the registry, a *new instance of an already used class* dispatches the new
                 type to the handler the definition gives (and every old type as before), whatever the new type's
                 kind (operator / terminal / a type whose own handler the class provides).
"""

from __future__ import annotations

from ..lift import Interp, LiftRaise, Obj, Unsupported
from ..model import AnalysisError

USER = '''
from ufl.corealg.multifunction import MultiFunction
from ufl.algorithms.transformer import Transformer


class AlgBase(MultiFunction):
    def __init__(self):
        MultiFunction.__init__(self)

    def expr(self, o, *ops):
        return ("AlgBase.expr", o)

    def terminal(self, o):
        return ("AlgBase.terminal", o)

    def sum(self, o, a, b):
        return ("AlgBase.sum", o)

    def coefficient_derivative(self, o, *ops):
        return ("AlgBase.coefficient_derivative", o)


class AlgSub(AlgBase):
    def operator(self, o):
        return ("AlgSub.operator (cut-off)", o)

    def coefficient(self, o):
        return ("AlgSub.coefficient", o)

    product = AlgBase.sum


class AlgSibling(AlgBase):
    def terminal(self, o):
        return ("AlgSibling.terminal", o)

    def late(self, o, *ops):
        return ("AlgSibling.late", o)

    def coordinate_derivative(self, o):
        return ("AlgSibling.coordinate_derivative", o)


class TrBase(Transformer):
    def __init__(self):
        Transformer.__init__(self)

    def expr(self, o, *ops):
        return ("TrBase.expr", o)

    def terminal(self, o):
        return ("TrBase.terminal", o)


class TrSub(TrBase):
    def sum(self, o, a, b):
        return ("TrSub.sum", o)

    def operator(self, o):
        return ("TrSub.operator (pre-order)", o)

    def late(self, o):
        return ("TrSub.late", o)

    def coordinate_derivative(self, o, *ops):
        return ("TrSub.coordinate_derivative", o)

    def derivative(self, o):
        return ("TrSub.derivative", o)
'''

# the model hierarchy: name -> parent
TYPES = [
    ("expr", None),
    ("terminal", "expr"),
    ("operator", "expr"),
    ("form_argument", "terminal"),
    ("coefficient", "form_argument"),
    ("argument", "form_argument"),
    ("geometric_quantity", "terminal"),
    ("sum", "operator"),
    ("product", "operator"),
    ("math_function", "operator"),
    ("sin", "math_function"),
    # several UFL bases: a handler reachable only through the second base
    ("derivative", "operator"),
    ("coefficient_derivative", "derivative"),
    ("coordinate_derivative", "coefficient_derivative"),
    ("base_form_derivative", "coefficient_derivative"),
    ("base_form_coordinate_derivative", ("base_form_derivative", "coordinate_derivative")),
]
LATE = [("late", "operator"), ("late_terminal", "terminal"), ("cosine", "math_function"), ("late_form", "expr")]
# abstract types of the model (as declared by the type decorator); `late_form` stands for a concrete type that is not an
# Expr (a BaseForm subclass): the decorator leaves the inherited `_ufl_is_abstract_ = True` on it
ABSTRACT = {"expr", "terminal", "operator", "form_argument", "math_function", "derivative", "late_form"}


class Registry:
    def __init__(self):
        self.types = {}
        self.all = []  # the live list object (appended to in place, like Expr._ufl_all_classes_)
        self.names = set()  # live set of handler names
        self.uflt = Obj("UFLType", _ufl_handler_name_="ufl_type", _ufl_all_classes_=self.all, _ufl_all_handler_names_=self.names, _ufl_num_typecodes_=0)
        self.uflt.attrs["__class__"] = None
        self.expr = Obj("Expr", _ufl_all_classes_=self.all, _ufl_all_handler_names_=self.names, _ufl_num_typecodes_=0)
        self.expr.attrs["__class__"] = None
        for n, p in TYPES:
            self.add(n, p)

    def add(self, name, parent):
        parents = () if parent is None else ((parent,) if isinstance(parent, str) else tuple(parent))
        t = Obj("type:" + name, _ufl_handler_name_=name, _ufl_typecode_=len(self.all), __name__=name, _name=name, _parents=parents, _ufl_is_abstract_=name in ABSTRACT, _ufl_class_=None)
        t.attrs["__class__"] = None
        t.attrs["mro"] = lambda t=t: self.chain(t)
        t.attrs["__bases__"] = tuple(self.types[p] for p in parents)
        t.attrs["_ufl_class_"] = t
        self.types[name] = t
        self.all.append(t)
        self.names.add(name)
        t.attrs["__mro__"] = tuple(self.chain(t))
        for o in (self.uflt, self.expr):
            o.attrs["_ufl_num_typecodes_"] = len(self.all)
        return t

    def chain(self, t):
        """C3 linearisation, as Python computes type.mro()"""
        parents = [self.types[p] for p in t.attrs["_parents"]]
        seqs = [self.chain(p) for p in parents] + [list(parents)]
        out = [t]
        while any(seqs):
            seqs = [s_ for s_ in seqs if s_]
            for s_ in seqs:
                head = s_[0]
                if not any(head in other[1:] for other in seqs):
                    break
            else:
                raise AnalysisError("inconsistent model hierarchy")
            out.append(head)
            seqs = [[x for x in s_ if x is not head] for s_ in seqs]
        return out


def run_dispatch(ctx, rep, rules=("C19-mro", "C20-late")):
    prog = ctx.prog
    real = rep

    class Filtered:
        """only the requested clauses are recorded in this property's report"""

        def ok(self, rule, *a, **k):
            if rule.split("/")[0] in rules:
                real.ok(rule, *a, **k)

        def violation(self, rule, *a, **k):
            if rule.split("/")[0] in rules:
                real.violation(rule, *a, **k)

    rep = Filtered()
    name = "verif_c19_userside"
    if name not in prog.modules:
        prog.add_virtual_module(name, USER)
    mod = prog.module(name)
    mf_init = prog.lookup(prog.get_class("ufl.corealg.multifunction.MultiFunction"), "__init__")
    tr_init = prog.lookup(prog.get_class("ufl.algorithms.transformer.Transformer"), "__init__")

    def provided(cls, hname):
        return prog.lookup(cls, hname)

    def definition(cls, reg, t):
        for c in reg.chain(t):
            h = provided(cls, c.attrs["_ufl_handler_name_"])
            if h is not None:
                return c.attrs["_ufl_handler_name_"], h
        return None, None

    def nparams(fn):
        a = fn.node.args
        return len(a.posonlyargs) + len(a.args), a.vararg is not None

    def world():
        reg = Registry()
        ip = Interp(prog)
        ip.instantiable = {"AlgBase", "AlgSub", "AlgSibling", "TrBase", "TrSub", "MultiFunction", "Transformer"}
        ip.overrides["Expr"] = reg.expr
        ip.overrides["UFLType"] = reg.uflt
        prev_type = ip.overrides.get("type")

        def m_type(x):
            if isinstance(x, Obj) and x.kind.startswith("type:"):
                return reg.uflt
            if prev_type is not None:
                return prev_type(x)
            return ip.obj_class(x)

        ip.overrides["type"] = m_type

        def bound_params(f):
            # a bound method of the algorithm object: parameters without self
            fn = getattr(f, "func", None) or getattr(f, "fi", None) or f
            node = getattr(fn, "node", None)
            if node is None:
                raise Unsupported(f"signature of {f!r}")
            a = node.args
            return len(a.posonlyargs) + len(a.args) - 1, a.vararg is not None

        def signature(f):
            n, var = bound_params(f)
            return Obj("signature", parameters=list(range(n + (1 if var else 0))))

        def getfullargspec(f):
            n, var = bound_params(f)
            return (["self"] + [f"a{k}" for k in range(n)], "ops" if var else None)

        def has(o, n):
            if isinstance(o, Obj):
                if n in o.attrs:
                    return True
                k = ip.obj_class(o)
                return k is not None and prog.lookup(k, n) is not None
            return hasattr(o, n)

        def m_getattr(o, n, *default):
            if has(o, n):
                return ip.getattr(o, n, None, mod)
            if default:
                return default[0]
            raise LiftRaise(f"AttributeError: {n}")

        ip.overrides["hasattr"] = has
        ip.overrides["getattr"] = m_getattr
        ip.overrides["signature"] = signature
        ip.overrides["inspect"] = Obj("inspect", getfullargspec=getfullargspec, signature=signature)
        return reg, ip

    def table_of(ip, obj, kind):
        hs = obj.attrs.get("_handlers")
        if hs is None:
            raise AnalysisError("the algorithm object has no _handlers table after __init__ (anchor vanished)")
        out = []
        for h in hs:
            f = h[0] if kind == "Transformer" and isinstance(h, tuple) else h
            flag = h[1] if kind == "Transformer" and isinstance(h, tuple) else None
            out.append((f, flag))
        return out

    def fn_of(bound):
        for a in ("func", "fi", "closure"):
            v = getattr(bound, a, None)
            if v is not None:
                return getattr(v, "node", None) or getattr(getattr(v, "fi", None), "node", None)
        return getattr(bound, "node", None)

    def check_table(tag, ip, reg, cls, obj, kind, rule):
        init = mf_init if kind == "MultiFunction" else tr_init
        tab = table_of(ip, obj, kind)
        if len(tab) != len(reg.all):
            rep.violation(rule, init, f"{tag}: table size", f"{tag}: the handler table of {cls.name} has {len(tab)} entries for {len(reg.all)} registered types")
            return False
        ok = True
        for t in reg.all:
            tc = t.attrs["_ufl_typecode_"]
            hname, want = definition(cls, reg, t)
            got, flag = tab[tc]
            got_node = fn_of(got)
            if want is None or got_node is not want.node:
                ok = False
                rep.violation(rule, init, f"{tag}: {cls.name} / {t.attrs['_name']}", f"{tag}: type {t.attrs['_name']} (mro {[c.attrs['_name'] for c in reg.chain(t)]}) is dispatched by {cls.name} to {getattr(got_node, 'name', got)!r} at line {getattr(got_node, 'lineno', '?')}; the first handler along the type's mro that the class provides is `{hname}` ({want.qualname if want else None})")
                continue
            n, var = nparams(want)
            if kind == "Transformer":
                want_post = (n + (1 if var else 0)) > 2
                if flag is not want_post:
                    ok = False
                    rep.violation(rule, init, f"{tag}: {cls.name} / {t.attrs['_name']} visit order", f"{tag}: handler {want.qualname} takes {'its transformed operands' if want_post else 'only the node'} but is registered as {'post' if flag else 'pre'}-order")
            else:
                cut = obj.attrs.get("_is_cutoff_type")
                want_cut = (n == 2 and not var)
                if cut is None or bool(cut[tc]) is not want_cut:
                    ok = False
                    rep.violation(rule, init, f"{tag}: {cls.name} / {t.attrs['_name']} cut-off", f"{tag}: handler {want.qualname} {'is' if want_cut else 'is not'} a cut-off handler (parameters: {n}{' + *ops' if var else ''}) but the table says {None if cut is None else bool(cut[tc])}")
        return ok

    n = 0
    for kind, seqs in (
        ("MultiFunction", [("AlgBase",), ("AlgSub",), ("AlgBase", "AlgSub"), ("AlgSub", "AlgBase"), ("AlgSub", "AlgSibling", "AlgBase"), ("AlgSibling", "AlgSibling")]),
        ("Transformer", [("TrBase",), ("TrSub",), ("TrBase", "TrSub"), ("TrSub", "TrBase"), ("TrSub", "TrSub")]),
    ):
        for seq in seqs:
            reg, ip = world()
            good = True
            for k, cname in enumerate(seq):
                cls = mod.classes[cname]
                try:
                    obj = ip.instantiate(cls, [], {})
                except LiftRaise as ex:
                    rep.violation("C19-mro", mf_init if kind == "MultiFunction" else tr_init, f"{cname}()", f"instantiating {cname} raises {ex.what[:120]}")
                    good = False
                    break
                good &= check_table(f"instantiation order {' -> '.join(seq)}, object {k + 1}", ip, reg, cls, obj, kind, "C19-mro")
                n += 1
            if good:
                rep.ok("C19-mro", mf_init if kind == "MultiFunction" else tr_init, f"{kind}: {' -> '.join(seq)}: every type dispatched to the first handler along its own mro that the class provides; cut-off / visit order from the handler's parameters")
            # late registration: new types appended to the live registry, then new instances of the used classes
            for lname, lparent in LATE:
                reg.add(lname, lparent)
                good2 = True
                for cname in dict.fromkeys(seq):
                    cls = mod.classes[cname]
                    try:
                        obj = ip.instantiate(cls, [], {})
                    except LiftRaise as ex:
                        rep.violation("C20-late", mf_init if kind == "MultiFunction" else tr_init, f"{cname}() after registering {lname}", f"instantiating {cname} after the type {lname} was registered raises {ex.what[:120]}")
                        good2 = False
                        continue
                    good2 &= check_table(f"after {' -> '.join(seq)}, type `{lname}` (a {lparent}) registered, new {cname}()", ip, reg, cls, obj, kind, "C20-late")
                    n += 1
                if good2:
                    rep.ok("C20-late", mf_init if kind == "MultiFunction" else tr_init, f"{kind}: classes {sorted(set(seq))} used, then type `{lname}` registered: new instances dispatch it (and all older types) by the definition")
    if n < 60:
        raise AnalysisError(f"only {n} handler tables interpreted")
    return n
