"""C02 -- Gateaux derivatives are the true directional derivatives (rule-table soundness).

C02-table   for each of the derivative rulesets x every concrete Expr type: a handler is resolved
            (T-EXH), its operand arity matches the type (T-ARITY), and a handler that returns an
            unconditional zero is only resolved for terminals or for the reviewed exemptions.
C02-calc    every operator rule of GenericDerivativeRuleset / GateauxDerivativeRuleset for which the
            checker has a reference model is lifted on symbolic operands (scalar and with free
            indices, variable shapes (), (2,), (2,2)) and compared with the formal derivative D(o) of
            the node it is registered for:  rule(o, D(operands)) == D(o).
C02-coef    GateauxDerivativeRuleset terminal rules: d w / d w [v] = v, other coefficients 0 unless a
            coefficient-derivative relation is given (then (df/dw):v), arguments and geometry 0;
            Grad rule: grad^n(w) -> grad^n(v), component variations placed at the right component.
C02-key     every dict-memo in the derivative dispatchers is keyed by everything its value is
            built from (shared rule MEMO-KEY).
C02-pair    formoperators._handle_derivative_arguments lifted (with the constructors lifted as in C05): the
            direction paired with each coefficient is the tensor carrying the given argument(s) in exactly the
            requested fixed component(s) and zero elsewhere (shapes of rank 1..3, single components, tuples of
            components, whole coefficients, several coefficients returned in count order).
C02-compose apply_derivatives interpreted from source (dispatcher + the rulesets it instantiates + lifted constructors)
            on whole integrands with Gateaux derivative nodes - products, powers, quotients, sin/exp/sqrt, gradients,
            contractions, several coefficients at once, independent integrands, nested second derivatives - in the
            symbolic world of sa/pipeworld.py: the result means d/dtau F(w + tau v) at 0 as computed by the calculus
            oracle on the integrand's meaning; no derivative node remains (sa/rules/c02_compose.py).
"""

from __future__ import annotations

import ast
import itertools

from .. import adlift, sym, uflmodel, uflsem
from ..adlift import DT, Deriv
from ..lift import Interp, LiftRaise, Obj, Unsupported
from ..memokey import check_memo_keys
from ..model import AnalysisError, docstring_stripped_body, norm
from ..passlift import node_operands
from ..report import Report
from ..uflmodel import MI, new_index, node, terminal
from ..uflsem import T, as_T, equal_T

MOD = "ufl.algorithms.apply_derivatives"
RULESETS = [
    "GenericDerivativeRuleset",
    "GradRuleset",
    "ReferenceGradRuleset",
    "VariableRuleset",
    "GateauxDerivativeRuleset",
    "BaseFormOperatorDerivativeRuleset",
    "CoordinateDerivativeRuleset",
]

# non-terminal types that may resolve to an unconditional zero, with the reason
ZERO_EXEMPT = {
    ("GradRuleset", "CellAvg"): "spatial gradient of a cell-wise constant",
    ("GradRuleset", "FacetAvg"): "spatial gradient of a facet-wise constant",
    ("ReferenceGradRuleset", "CellAvg"): "reference gradient of a cell-wise constant",
    ("ReferenceGradRuleset", "FacetAvg"): "reference gradient of a facet-wise constant",
    ("VariableRuleset", "CellAvg"): "upstream defines the pointwise partial derivative of a non-local average as zero",
    ("VariableRuleset", "FacetAvg"): "upstream defines the pointwise partial derivative of a non-local average as zero",
    ("VariableRuleset", "ReferenceGrad"): "derivative of a reference gradient of a terminal w.r.t. a variable is zero",
}


# instances on which the rule raises on the unchanged tree, with the reviewed reason
RAISES_TODAY = {
    ("Abs", "free indices i,j"): "sign() is built from conditions, which require true scalars: raising is the documented safe outcome",
}


def classify_handler(fi):
    body = docstring_stripped_body(fi.node)
    if len(body) == 1:
        st = body[0]
        if isinstance(st, ast.Raise):
            return "RAISE"
        if isinstance(st, ast.Return) and isinstance(st.value, ast.Call):
            f = norm(st.value.func)
            if f in ("self.override", "self.unexpected"):
                return "RAISE"
            if f in ("self.independent_terminal", "self.independent_operator"):
                return "ZERO"
            if f == "self.non_differentiable_terminal":
                return "IDENT"
            if f == "Zero":
                return "ZERO"
    return "RULE"


def check_tables(ctx, rep, prefix, rulesets):
    prog, tm, disp = ctx.prog, ctx.tm, ctx.disp
    ctx.crosscheck_dispatch(set(rulesets))
    for rs in rulesets:
        cls = prog.get_class(f"{MOD}.{rs}")
        tab = disp.dt_table(cls)
        for t in tm.concrete():
            h = tab.get(t.name)
            if h is None:
                rep.violation(f"{prefix}-table/exh", cls, f"{rs}[{t.name}]", f"{rs} resolves no handler for type {t.name}")
                continue
            kind = classify_handler(h.func)
            nops = tm.operand_count(t)
            # arity
            if h.kind == "postorder":
                ps = h.operand_params()
                if ps is not None and isinstance(nops, int) and len(ps) != nops:
                    rep.violation(f"{prefix}-table/arity", h.func, f"{rs}[{t.name}] -> {h.func.qualname}({', '.join(h.func.params())})", f"post-order rule registered for {t.name} takes {len(ps)} processed operands but {t.name} has {nops}")
                    continue
            elif h.kind == "postorder_only_children":
                ps = h.operand_params()
                if ps is not None and len(ps) != len(h.children):
                    rep.violation(f"{prefix}-table/arity", h.func, f"{rs}[{t.name}] children={h.children}", f"postorder_only_children({list(h.children)}) feeds {len(h.children)} operands into {len(ps)} parameters")
                    continue
                if isinstance(nops, int) and h.children and max(h.children) >= nops:
                    rep.violation(f"{prefix}-table/arity", h.func, f"{rs}[{t.name}] children={h.children}", f"child index {max(h.children)} out of range for {t.name} with {nops} operands")
                    continue
            if kind == "ZERO" and not t.traits["is_terminal"] and (rs, t.name) not in ZERO_EXEMPT:
                rep.violation(f"{prefix}-table/zero", h.func, f"{rs}[{t.name}] -> unconditional zero", f"{rs} differentiates the operator {t.name} (whose value depends on its operands) to an unconditional zero")
                continue
            if kind == "IDENT" and t.name not in ("Label", "MultiIndex"):
                rep.violation(f"{prefix}-table/ident", h.func, f"{rs}[{t.name}] -> returned undifferentiated", f"{rs} returns {t.name} undifferentiated")
                continue
            rep.ok(f"{prefix}-table", h.func, f"{rs}[{t.name}] -> {h.func.qualname}@{h.func.line} [{kind}, {h.kind}]")


# ----------------------------------------------------------------- lifting harness
class Harness:
    def __init__(self, ctx, ruleset_name, var_shape=(), extra_self=None, gdim=2, tdim=2):
        self.ctx = ctx
        self.prog = ctx.prog
        self.cls = self.prog.get_class(f"{MOD}.{ruleset_name}")
        self.tab = ctx.disp.dt_table(self.cls)
        self.var_shape = tuple(var_shape)
        self.ip = uflmodel.install(Interp(self.prog), gdim=gdim, tdim=tdim)
        self.dmap = {}
        self.selfobj = Obj("ruleset:" + ruleset_name, __class__=self.cls, _var_shape=self.var_shape)
        self.selfobj.attrs["__call__"] = self._self_call
        if extra_self:
            self.selfobj.attrs.update(extra_self)
        ip = self.ip

        def isinstance_hook(x, cls_):
            if isinstance(x, MI):
                return getattr(cls_, "name", None) == "MultiIndex"
            if isinstance(x, uflmodel.Cnd):
                return getattr(cls_, "name", None) in ("Condition", "Expr")
            if isinstance(x, T) and "ufl_class" not in x.tags and hasattr(cls_, "name"):
                if cls_.name == "Zero":
                    return x.is_zero_literal
                return cls_.name == "Expr"
            return NotImplemented

        ip.isinstance_hook = isinstance_hook
        ip.call_value = lambda t, args, kwargs: uflmodel.restrict(t, args[0])

    def init_from_source(self, *args, **kwargs):
        """run the class's own __init__ (interpreted) on the object the rules are invoked with: whatever private state
        the rules read is the state the constructor sets up, under whatever names"""
        init = self.prog.lookup(self.cls, "__init__")
        if init is None:
            raise AnalysisError(f"{self.cls.name} has no __init__")
        self.ip.call_function(init, list(args), dict(kwargs), self_obj=self.selfobj)
        self.selfobj.attrs["__call__"] = self._self_call
        return self

    def init_gateaux(self, ws, vs, relations=()):
        """GateauxDerivativeRuleset(ExprList(*ws), ExprList(*vs), ExprMapping(*relations))"""
        box = lambda kind, xs: node(T.scalar(sym.ZERO), kind, tuple(xs))  # noqa: E731
        return self.init_from_source(box("ExprList", ws), box("ExprList", vs), box("ExprMapping", [x for pair in relations for x in pair]))

    def _self_call(self, x):
        if isinstance(x, MI):
            return x
        if id(x) in self.dmap:
            return self.dmap[id(x)]
        raise Unsupported("self(<operand>) on an operand without a registered derivative")

    def handler(self, tname):
        h = self.tab.get(tname)
        if h is None:
            raise AnalysisError(f"no handler for {tname}")
        return h

    def invoke(self, h, o, processed):
        """Call handler h on node o the way DAGTraverser.__call__ would, given the processed operands:
        post-order handlers receive them as arguments, pre-order handlers obtain them through self(operand)."""
        processed = list(processed)
        ops = node_operands(o)
        pairs = []
        if len(ops) == len(processed):
            pairs = list(zip(ops, processed))
        elif h.kind == "postorder_only_children" and len(processed) == len(h.children):
            pairs = [(ops[i], r) for i, r in zip(h.children, processed) if i < len(ops)]
        for op, r in pairs:
            if r is not None and not isinstance(op, MI):
                self.dmap.setdefault(id(op), r)
        if h.kind == "postorder":
            args = [o] + processed
        elif h.kind == "postorder_only_children":
            args = [o] + (processed if len(processed) == len(h.children) else [processed[i] for i in h.children])
        else:
            args = [o]
        return self.ip.call_function(h.func, args, {}, self_obj=self.selfobj)

    def apply(self, tname, o, processed):
        h = self.handler(tname)
        return h, self.invoke(h, o, processed)


def cmp(rep, rule, h, what, got, want, ctx, real_only=False):
    got, want = as_T(got), as_T(want)
    ok, how, wit = equal_T(got, want, rng=ctx.rng, real_only=real_only, points=16 if ctx.thorough() else 8)
    if ok:
        rep.ok(rule, h.func, f"{what}: equals the formal derivative ({how})")
        rep.count(f"equal_{how}")
    else:
        rep.violation(rule, h.func, what, f"derivative rule for {what} is not the derivative of the node it is registered for ({how}): {wit}", witness=wit)


def operand_sets(var_shape):
    """(description, f, g) operand pairs: true scalars, and scalars with free indices."""
    f, g = terminal("f"), terminal("g")
    yield "true scalars", f, g, False
    F, G = terminal("F", (2,)), terminal("G", (3,))
    i, j = new_index(), new_index()
    yield "free indices i,j", uflmodel.m_indexed(F, MI((i,))), uflmodel.m_indexed(G, MI((j,))), True


def calc_instances(ctx, rep, ruleset="GateauxDerivativeRuleset", prefix="C02", var_shapes=((), (2,))):
    cm, _ov = uflmodel.base_models()
    unary_math = ["Sqrt", "Exp", "Ln", "Cos", "Sin", "Tan", "Cosh", "Sinh", "Tanh", "Acos", "Asin", "Atan", "Erf"]
    lifted_types = set()
    for vs in var_shapes:
        H = Harness(ctx, ruleset, vs)
        cm = H.ip.class_models
        rule = f"{prefix}-calc"

        def run(tname, o, processed, what, real_only=False, sym_rule=None):
            lifted_types.add(tname)
            try:
                h, got = H.apply(tname, o, processed)
            except LiftRaise as e:
                if (tname, what) in RAISES_TODAY:
                    rep.ok(rule + "/" + tname, H.handler(tname).func, f"{tname} [{what}; variable shape {vs}]: raises ({e.what[:60]}) - reviewed: {RAISES_TODAY[(tname, what)]}")
                    rep.count("raises_reviewed")
                else:
                    rep.violation(rule + "/" + tname, H.handler(tname).func, f"{tname} [{what}; variable shape {vs}]", f"rule for {tname} [{what}] raises on a representable input: {e.what}")
                return
            kw = {"sym_rule": sym_rule} if sym_rule else {}
            cmp(rep, rule + "/" + tname, h, f"{tname} [{what}; variable shape {vs}]", got, DT(o, vs, **kw), ctx, real_only)

        for desc, f, g, indexed in operand_sets(vs):
            fp, gp = DT(f, vs), DT(g, vs)
            # binary algebra
            if not indexed:
                run("Sum", cm["Sum"](f, g), [fp, gp], desc)
            else:
                F2 = terminal("F2", (2,))
                i = f.fi[0]
                f2 = uflmodel.m_indexed(F2, MI((i,)))
                run("Sum", cm["Sum"](f, f2), [fp, DT(f2, vs)], "shared free index")
            run("Product", cm["Product"](f, g), [fp, gp], desc)
            if indexed:
                # repeated index: implicit summation inside Product
                F2 = terminal("F2", (2,))
                f2 = uflmodel.m_indexed(F2, MI((f.fi[0],)))
                run("Product", cm["Product"](f, f2), [fp, DT(f2, vs)], "repeated index (implicit sum)")
            g0 = terminal("g")
            run("Division", cm["Division"](f, g0), [fp, DT(g0, vs)], desc + " / true scalar")
            for cls in ("Conj", "Real", "Imag"):
                run(cls, cm[cls](f), [fp], desc)
            run("Abs", cm["Abs"](f), [fp], desc, real_only=True)
            if not indexed:
                run("Power", cm["Power"](f, g), [fp, gp], "f**g, both varying", real_only=True)
                three = uflmodel.m_scalar(3)
                zshape = uflmodel.m_zero(vs)
                run("Power", cm["Power"](f, three), [fp, zshape], "f**3 (constant exponent, zero exponent derivative)")
                half = uflmodel.m_scalar(0.5)
                run("Power", cm["Power"](f, half), [fp, zshape], "f**0.5", real_only=True)
                for cls in unary_math:
                    run(cls, cm[cls](f), [fp], desc, real_only=cls in ("Acos", "Asin", "Ln", "Sqrt"))
                run("Atan2", cm["Atan2"](f, g), [fp, gp], desc, real_only=True)
                for cls in ("BesselJ", "BesselY", "BesselI", "BesselK"):
                    z = uflmodel.m_zero(())
                    run(cls, cm[cls](z, f), [uflmodel.m_zero(vs), fp], "order 0")
                    two = uflmodel.m_scalar(2)
                    run(cls, cm[cls](two, f), [uflmodel.m_zero(vs), fp], "order 2")
                    run(cls, cm[cls](two, f), [None, fp], "order 2, order derivative None")
                run("MinValue", cm["MinValue"](f, g), [fp, gp], desc, real_only=True)
                run("MaxValue", cm["MaxValue"](f, g), [fp, gp], desc, real_only=True)
                c = uflmodel.m_rel("<")(f, g)
                t_, e_ = terminal("t"), terminal("e")
                run("Conditional", cm["Conditional"](c, t_, e_), [DT(t_, vs), DT(e_, vs)], "scalar branches", real_only=True)
                Tt, Te = terminal("Tt", (2,)), terminal("Te", (2,))
                run("Conditional", cm["Conditional"](c, Tt, Te), [DT(Tt, vs), DT(Te, vs)], "vector branches", real_only=True)
                # both branch derivatives literally zero
                zt = uflmodel.m_zero(vs)
                zero_rule = lambda name, k: sym.ZERO if name in ("t", "e") else None  # noqa: E731
                run("Conditional", cm["Conditional"](c, t_, e_), [zt, uflmodel.m_zero(vs)], "constant branches", real_only=True, sym_rule=zero_rule)
            for cls, side in (("PositiveRestricted", "+"), ("NegativeRestricted", "-")):
                run(cls, cm[cls](f), [fp], desc)
        # zero-derivative sweep: each operand in turn is independent of the variable and its derivative arrives as a
        # literal Zero (the state in which the rules' shortcuts `if isinstance(dx, Zero)` are taken)
        a_, b_ = terminal("a"), terminal("b")
        cnd = uflmodel.m_rel("<")(terminal("p"), terminal("q"))
        sweeps = [
            ("Sum", lambda x, y: cm["Sum"](x, y), False),
            ("Product", lambda x, y: cm["Product"](x, y), False),
            ("Division", lambda x, y: cm["Division"](x, y), False),
            ("Power", lambda x, y: cm["Power"](x, y), True),
            ("Atan2", lambda x, y: cm["Atan2"](x, y), True),
            ("MinValue", lambda x, y: cm["MinValue"](x, y), True),
            ("MaxValue", lambda x, y: cm["MaxValue"](x, y), True),
            ("Conditional", lambda x, y: cm["Conditional"](cnd, x, y), True),
        ]
        for tname, build, real in sweeps:
            for z, zname in ((0, "a"), (1, "b")):
                processed = [uflmodel.m_zero(vs) if k == z else DT(x, vs) for k, x in enumerate((a_, b_))]
                zr = lambda name, k, zname=zname: sym.ZERO if name == zname else None  # noqa: E731
                run(tname, build(a_, b_), processed, f"derivative of the {'first' if z == 0 else 'second'} operand is a literal Zero", real_only=real, sym_rule=zr)
        # structural rules
        A = terminal("A", (2, 3))
        Ap = DT(A, vs)
        i, j = new_index(), new_index()
        for key, kd in (((i, j), "free,free"), ((0, j), "fixed,free"), ((1, 2), "fixed,fixed"), ((i,), "partial indexing")):
            o = uflmodel.m_indexed(A, MI(key))
            run("Indexed", o, [Ap, MI(key)], kd)
        zA = uflmodel.m_zero((2, 3) + tuple(vs))
        o = uflmodel.m_indexed(A, MI((i, j)))
        run("Indexed", o, [zA, MI((i, j))], "zero operand derivative", sym_rule=lambda name, k: sym.ZERO if name.startswith("A[") else None)
        Hh = terminal("H", (2, 2))
        k = new_index()
        l = new_index()  # noqa: E741
        hij = uflmodel.m_indexed(Hh, MI((k, l)))
        o = uflmodel.m_index_sum(hij, MI((k,)))
        run("IndexSum", o, [DT(hij, vs), MI((k,))], "sum over first index")
        for order in ((k, l), (l, k)):
            o = uflmodel.m_component_tensor(hij, MI(order))
            run("ComponentTensor", o, [DT(hij, vs), MI(order)], f"binding order {['k,l', 'l,k'][order[0] is l]}")
        o = uflmodel.m_component_tensor(hij, MI((k, l)))
        zfi = uflmodel.m_zero(tuple(vs), tuple(x.id for x in hij.fi), hij.fid)
        run("ComponentTensor", o, [zfi, MI((k, l))], "zero operand derivative", sym_rule=lambda name, k_: sym.ZERO if name.startswith("H[") else None)
        f, g = terminal("f"), terminal("g")
        F, G = terminal("F", (2,)), terminal("G", (2,))
        for ops, dsc in (((f, g), "scalars"), ((F, G), "vectors"), ((f, g, terminal("h")), "three scalars")):
            o = uflmodel.m_list_tensor(*ops)
            for x in ops:
                H.dmap[id(x)] = DT(x, vs)
            run("ListTensor", o, [], dsc)
        e = uflmodel.m_product(f, g)
        lab = Obj("label")
        o = node(e, "Variable", (e, lab))
        H.dmap[id(e)] = DT(e, vs)
        if ruleset != "VariableRuleset":
            run("Variable", o, [], "generic: derivative of the wrapped expression")
        if ruleset == "GateauxDerivativeRuleset":
            for cls, fn in (("CellAvg", "cell_avg"), ("FacetAvg", "facet_avg")):
                o = H.ip.overrides[fn](f)
                run(cls, o, [DT(f, vs)], "commutes with the average")
    return lifted_types


def gateaux_terminals(ctx, rep):
    """C02-coef: terminal rules of GateauxDerivativeRuleset."""
    prog = ctx.prog
    H = Harness(ctx, "GateauxDerivativeRuleset", ())
    rule = "C02-coef"

    class _IP:
        """call_function that turns a raise of the lifted rule into a violation"""

        def call_function(self, func, args, kw, self_obj=None):
            try:
                return H.ip.call_function(func, args, kw, self_obj=self_obj)
            except LiftRaise as e:
                rep.violation(rule + "/raises", func, f"{func.qualname}({', '.join(str(a.name) for a in args)})", f"Gateaux terminal rule raises on a representable input: {e.what}")
                return T.scalar(sym.sym("<raised>"))

    ip = _IP()
    for wshape in ((), (2,)):
        w = terminal("w", wshape, "Coefficient")
        u = terminal("u", wshape, "Coefficient")
        q = terminal("q", (), "Coefficient")
        v = terminal("v", wshape, "Argument")
        # dq/dw relation given by the user: shape q.shape + w.shape
        dq = terminal("dqdw", wshape, "Coefficient")
        H.init_gateaux([w], [v], [(q, dq)])
        h = H.handler("Coefficient")
        got = ip.call_function(h.func, [w], {}, self_obj=H.selfobj)
        cmp(rep, rule + "/w", h, f"d w/d w [v] with w of shape {wshape}", got, v, ctx)
        got = ip.call_function(h.func, [u], {}, self_obj=H.selfobj)
        cmp(rep, rule + "/other", h, f"d u/d w [v] for an unrelated coefficient, shape {wshape}", got, uflsem.T.zero(wshape), ctx)
        got = ip.call_function(h.func, [q], {}, self_obj=H.selfobj)
        # (dq/dw) : v
        acc = sym.ZERO
        for c in itertools.product(*[range(d) for d in wshape]):
            acc = sym.add(acc, sym.mul(dq.get(c), v.get(c)))
        cmp(rep, rule + "/relation", h, f"user relation dq/dw contracted with v, w shape {wshape}", got, T.scalar(acc), ctx)
        a = terminal("a", wshape, "Argument")
        h = H.handler("Argument")
        got = ip.call_function(h.func, [a], {}, self_obj=H.selfobj)
        cmp(rep, rule + "/argument", h, f"d(argument)/dw = 0, shape {wshape}", got, T.zero(wshape), ctx)
        x = terminal("x", (2,), "SpatialCoordinate")
        h = H.handler("SpatialCoordinate")
        got = ip.call_function(h.func, [x], {}, self_obj=H.selfobj)
        cmp(rep, rule + "/geometry", h, "d(geometric quantity)/dw = 0", got, T.zero((2,)), ctx)
    # vector-valued relation: q vector, w vector: dq has shape q.shape + w.shape
    w = terminal("w", (2,), "Coefficient")
    v = terminal("v", (2,), "Argument")
    q = terminal("q", (3,), "Coefficient")
    dq = terminal("dqdw", (3, 2), "Coefficient")
    H.init_gateaux([w], [v], [(q, dq)])
    h = H.handler("Coefficient")
    got = ip.call_function(h.func, [q], {}, self_obj=H.selfobj)
    data = {}
    for a_ in range(3):
        acc = sym.ZERO
        for b_ in range(2):
            acc = sym.add(acc, sym.mul(dq.get((a_, b_)), v.get((b_,))))
        data[((a_,), ())] = acc
    cmp(rep, rule + "/relation", h, "vector q, vector w: (dq/dw)[a,b] v[b]", got, T((3,), (), (), data), ctx)


def derivative_arguments(ctx, rep):
    """C02-pair: formoperators._handle_derivative_arguments lifted: the direction paired with each coefficient
    is the tensor that carries the given argument in exactly the requested component(s) and zero elsewhere."""
    import itertools as _it

    from ..ctorlift import CtorHarness

    prog = ctx.prog
    fn = prog.get_function("ufl.formoperators", "_handle_derivative_arguments")
    n = 0

    def coef(name, shape, count):
        t = terminal(name, shape, "Coefficient")
        t.tags.update(count=lambda: count, _count=count)
        return t

    def arg(name, shape=()):
        t = terminal(name, shape, "Argument")
        t.tags.update(number=lambda: 1, part=lambda: None)
        return t

    def run_case(what, coefficient, argument, expect):
        """expect: list of (coefficient node, expected direction T) in count order"""
        nonlocal n
        H = CtorHarness(ctx)
        ip = H.ip
        ip.class_models["ExprList"] = lambda *ops: Obj("ExprList", ufl_class="ExprList", ufl_operands=tuple(ops))
        ip.overrides["np"] = Obj("numpy", ndindex=lambda *shape: list(_it.product(*[range(d) for d in (shape[0] if len(shape) == 1 and isinstance(shape[0], (tuple, list)) else shape)])))
        try:
            cs, as_ = ip.call_function(fn, [None, coefficient, argument], {})
        except LiftRaise as ex:
            rep.violation("C02-pair", fn, what, f"{what}: raises {ex.what[:120]}")
            return
        cs, as_ = cs.attrs["ufl_operands"], as_.attrs["ufl_operands"]
        n += 1
        if len(cs) != len(expect) or any(c is not e[0] for c, e in zip(cs, expect)):
            rep.violation("C02-pair", fn, what, f"{what}: coefficients returned {[getattr(c, 'name', c) for c in cs]}, expected {[e[0].name for e in expect]} (sorted by count)")
            return
        for (c, want), got in zip(expect, as_):
            ok, how, wit = equal_T(as_T(got), want, rng=ctx.rng)
            if not ok:
                rep.violation("C02-pair", fn, what, f"{what}: the direction paired with {c.name} is not the argument placed in the requested component(s) ({how}): {wit}", witness=wit)
                return
        rep.ok("C02-pair", fn, f"{what}: directions carry the arguments in exactly the requested components")

    def unit(shape, entries):
        """tensor of `shape` with the given {component: scalar T} entries and zero elsewhere"""
        data = {}
        for c in _it.product(*[range(d) for d in shape]):
            data[(c, ())] = as_T(entries[c]).get() if c in entries else uflsem.T.zero(()).get()
        return T(shape, [], [], data)

    for shape in ((2,), (3,), (2, 3), (3, 2), (2, 2, 2)):
        f = coef("f", shape, 5)
        comps = list(_it.product(*[range(d) for d in shape]))
        # one fixed component at a time
        for c in comps:
            v = arg("v")
            run_case(f"derivative(F, f{shape}[{','.join(map(str, c))}], v)", uflmodel.m_indexed(f, MI(c)), v, [(f, unit(shape, {c: v}))])
        # a tuple of components with a tuple of arguments
        for c1, c2 in list(_it.combinations(comps, 2))[:: max(1, len(comps) // 3)]:
            v1, v2 = arg("v1"), arg("v2")
            run_case(f"derivative(F, (f{shape}[{c1}], f{shape}[{c2}]), (v1, v2))", [uflmodel.m_indexed(f, MI(c1)), uflmodel.m_indexed(f, MI(c2))], [v1, v2], [(f, unit(shape, {c1: v1, c2: v2}))])
    # whole coefficients, several coefficients in non-count order, mixed whole / component
    f, g = coef("f", (2,), 7), coef("g", (), 3)
    vf, vg = arg("vf", (2,)), arg("vg")
    run_case("derivative(F, f, vf)", f, vf, [(f, vf)])
    run_case("derivative(F, (f, g), (vf, vg))  (returned in count order)", [f, g], [vf, vg], [(g, vg), (f, vf)])
    h = coef("h", (2, 2), 1)
    vh = arg("vh")
    run_case("derivative(F, (f, h[1,0]), (vf, vh))", [f, uflmodel.m_indexed(h, MI((1, 0)))], [vf, vh], [(h, unit((2, 2), {(1, 0): vh})), (f, vf)])
    if n < 30:
        raise AnalysisError(f"only {n} derivative-argument cases lifted")


def run(ctx) -> Report:
    rep = Report("C02")
    check_tables(ctx, rep, "C02", RULESETS)
    check_memo_keys(ctx, rep, "C02-key", [MOD])
    derivative_arguments(ctx, rep)
    from .c02_compose import compose

    n_comp = compose(ctx, rep)
    rep.counts["whole_integrand_cases"] = n_comp
    lifted = calc_instances(ctx, rep, "GateauxDerivativeRuleset", "C02", var_shapes=((), (2,)) + (((2, 2),) if ctx.thorough() else ()))
    gateaux_terminals(ctx, rep)
    # which operator types of the Gateaux table were not lifted (reported, not alarmed)
    gat = ctx.disp.dt_table(ctx.prog.get_class(f"{MOD}.GateauxDerivativeRuleset"))
    not_lifted = sorted(t.name for t in ctx.tm.operators() if t.name not in lifted and gat.get(t.name) is not None and classify_handler(gat[t.name].func) == "RULE")
    rep.info("C02-calc", "ufl/algorithms/apply_derivatives.py", f"operator types with a non-trivial rule that were only table-checked (no reference model): {not_lifted}")
    rep.require_min("C02-table", 900)
    rep.require_min("C02-calc", 120)
    rep.require_min("C02-coef", 10)
    rep.explanation = (
        "The dispatch table of each derivative ruleset was resolved from the AST (and cross-checked with the live singledispatch "
        "registries) for every concrete expression type and checked for exhaustiveness, operand arity and unjustified zero rules. "
        f"The rules for {len(lifted)} operator types were lifted from source on symbolic operands and compared with the formal "
        "derivative of the node type they are registered for (exactly for rational rules, by random interpretation of the lifted "
        "terms for transcendental ones).  Gateaux terminal rules were lifted for scalar/vector coefficients, with and without "
        "user-supplied coefficient derivative relations."
    )
    rep.assumptions = [
        "reference semantics of UFL nodes as in sa/uflmodel.py; calculus table in sa/adlift.py",
        "free-index plumbing is instantiated for ranks <= 2 and variable shapes (), (2,) [(2,2) in the thorough tier]",
        "not decided: automatic creation of arguments in _handle_derivative_arguments (mixed spaces / split), BaseFormOperator rules, "
        "component-wise variations in the Gateaux Grad rule beyond the instances lifted",
    ]
    return rep
