"""C29 -- commutative constructors are order independent.

cmp_expr and the terminal comparators of ufl/sorting.py (with the dispatch table `_terminal_cmps` built
by evaluating the module's own assignments) are lifted and evaluated on *all ordered pairs* of a finite
universe of abstract expression objects.  The universe contains every terminal kind with a dedicated
comparator, terminals ordered by repr, multi-indices of different lengths and fixed/free patterns,
counters on both sides of a digit boundary, operators with shared and with duplicated (equal but
distinct) sub-expressions, and nodes with different operand counts.

  C29-anti    sign(cmp(a, b)) == -sign(cmp(b, a))                                  (all pairs)
  C29-trans   cmp(a, b) <= 0 and cmp(b, c) <= 0  =>  cmp(a, c) <= 0               (all triples)
  C29-tie     cmp(a, b) == 0 only if a and b are equal up to Index / Label numbers (all pairs)
  C29-key     the sign matrix is unchanged when all Index and Label counts are replaced by other
              numbers with a different relative order (comparators do not read them)
  C29-ctor    Sum.__new__, Product.__new__ and Inner.__new__ are lifted on both operand orders of
              every distinguishable pair: the node built has the same operand tuple either way
  C29-dag     generated family: one operator tree over every assignment of its 3 leaf positions to two leaf
              values, each available as two equal-but-distinct objects (64 object-sharing variants of 8
              structures): the sign of cmp_expr depends on the structure only - zero exactly for equal
              structures, the same for all variants of a pair of structures.
"""

from __future__ import annotations

import functools
import itertools

from ..lift import Interp, LiftRaise, Obj, Unsupported
from ..model import AnalysisError
from ..report import Report

SORTING = "ufl.sorting"


class Universe:
    def __init__(self, ctx, index_counts, label_counts, shape=(), parts=False):
        self.parts = parts
        self.tm = ctx.tm
        self.shape = shape
        self.items = []  # (name, obj)
        self.ic = index_counts
        self.lc = label_counts
        self._build()

    def K(self, name):
        return self.tm.get(name).cls

    def node(self, cls, terminal, ops=(), rep=None, **attrs):
        o = Obj(cls, __class__=self.K(cls), _ufl_typecode_=cls, _ufl_is_terminal_=terminal, ufl_operands=tuple(ops), ufl_shape=self.shape, ufl_free_indices=(), ufl_index_dimensions=(), **attrs)
        o.attrs.setdefault("_hash", None)  # Expr caches its hash lazily: None until somebody hashes the node
        o.attrs["_data"] = tuple(sorted((k, v) for k, v in attrs.items() if isinstance(v, (int, str, tuple, type(None)))))
        o.attrs["_repr"] = rep
        return o

    def add(self, name, o):
        self.items.append((name, o))
        return o

    def _build(self):
        N, add = self.node, self.add
        prog = self.tm.prog
        FixedIndex = prog.get_class("ufl.core.multiindex.FixedIndex")
        Index = prog.get_class("ufl.core.multiindex.Index")

        def fixed(v):
            return Obj("FixedIndex", __class__=FixedIndex, _value=v, anon=("fixed", v))

        def free(k):
            return Obj("Index", __class__=Index, _count_value=self.ic[k], anon=("free",), is_index=True)

        def mi(*pat):
            ii = tuple(fixed(p) if isinstance(p, int) else free(p) for p in pat)
            o = N("MultiIndex", True, _indices=ii)
            o.attrs["anon"] = tuple(i.attrs["anon"] for i in ii)
            o.attrs["exact"] = tuple(i.attrs.get("_count_value", i.attrs.get("_value")) for i in ii)
            return o

        mesh = {k: Obj("domain", ufl_id=(lambda k=k: k), _repr=f"Mesh(<coords>, {k})") for k in (9, 10)}

        def coef(c):
            return N("Coefficient", True, _count=c, rep=f"Coefficient(V, {c})")

        def const(c, m=9, shape=()):
            o = N("Constant", True, _count=c, rep=f"Constant(Mesh(<coords>, {m}), {shape}, {c})")
            o.attrs.update(_ufl_domain=mesh[m], _ufl_shape=shape)
            return o

        def arg(n, p=None):
            return N("Argument", True, _number=n, _part=p, rep=f"Argument(V, {n}, {p})")

        def geo(cls, m):
            o = N(cls, True, rep=f"{cls}({mesh[m].attrs['_repr']})", mesh=m)
            o.attrs["_domain"] = mesh[m]
            return o

        def lit(v):
            return N("IntValue", True, _value=v, rep=f"IntValue({v})")

        def label(k):
            o = N("Label", True, rep=f"Label({self.lc[k]})")
            o.attrs["is_label"] = True
            o.attrs["_count_value"] = self.lc[k]
            return o

        f1, f2, f3, f9, f10 = (add(f"f{c}", coef(c)) for c in (1, 2, 3, 9, 10))
        c9, c10 = add("c9", const(9)), add("c10", const(10))
        # equal terminals that are distinct objects (rebuilt with the same data) must tie; terminals that share a count
        # but differ in something else must not
        add("f3'", coef(3))
        add("c9'", const(9))
        add("c9 (shape (2,), same count)", const(9, shape=(2,)))
        add("c9 (mesh 10, same count)", const(9, m=10))
        if self.parts:
            # arguments in a MixedFunctionSpace: (number, part)
            v0, v1 = add("v0.0", arg(0, 0)), add("v1.0", arg(1, 0))
            add("v0.1", arg(0, 1))
            add("v1.1", arg(1, 1))
            add("v0.1*f3", N("Product", False, (v0, f3)))
        else:
            v0, v1 = add("v0", arg(0)), add("v1", arg(1))
        x9, x10 = add("x9", geo("SpatialCoordinate", 9)), add("x10", geo("SpatialCoordinate", 10))
        add("x9'", geo("SpatialCoordinate", 9))
        add("v1'", arg(1, 0) if self.parts else arg(1))
        n9 = add("n9", geo("FacetNormal", 9))
        one, two = add("1", lit(1)), add("2", lit(2))
        self.operand_start = 0
        # indexed coefficients: every multi-index pattern; the F29 triple A1[0], A2[0,0], A3[0,1]
        pats = [(0,), (1,), ("i",), ("j",), (0, 0), (0, 1), (1, 0), ("i", 0), ("j", 0), (0, "i"), ("i", "j"), ("j", "i"), (0, 0, 1)]
        for p in pats:
            add(f"f3[{','.join(map(str, p))}]", N("Indexed", False, (f3, mi(*p))))
        add("f1[0]", N("Indexed", False, (f1, mi(0))))
        add("f2[0,0]", N("Indexed", False, (f2, mi(0, 0))))
        add("f9[0,1]", N("Indexed", False, (f9, mi(0, 1))))
        add("f10[i]", N("Indexed", False, (f10, mi("i"))))
        # operators with shared / duplicated sub-expressions
        s_a, s_b = N("Sin", False, (f10,)), N("Sin", False, (f10,))
        add("sin(f10)", s_a)
        add("sin(f10)'", s_b)
        add("f3*sin(f10)", N("Product", False, (f3, s_a)))
        add("f9*sin(f10)'", N("Product", False, (f9, s_b)))
        add("f9*sin(f10)", N("Product", False, (f9, s_a)))
        add("exp(f3)/sin(f10)", N("Division", False, (N("Exp", False, (f3,)), N("Sin", False, (f10,)))))
        add("exp(f9)/sin(f10)", N("Division", False, (N("Exp", False, (f9,)), N("Sin", False, (f10,)))))
        add("f3/(f10+1)", N("Division", False, (f3, N("Sum", False, (lit(1), f10)))))
        add("f9/(f10+1)", N("Division", False, (f9, N("Sum", False, (lit(1), f10)))))
        add("sin(c9)*exp(f3)", N("Product", False, (N("Sin", False, (c9,)), N("Exp", False, (f3,)))))
        add("sin(c10)*exp(f3)", N("Product", False, (N("Sin", False, (c10,)), N("Exp", False, (f3,)))))
        add("x9+x10", N("Sum", False, (x9, x10)))
        add("1+f3", N("Sum", False, (one, f3)))
        add("2+f3", N("Sum", False, (two, f3)))
        add("var(f3,L1)", N("Variable", False, (f3, label("a"))))
        add("var(f3,L2)", N("Variable", False, (f3, label("b"))))
        add("var(f9,L1)", N("Variable", False, (f9, label("a"))))
        add("list(f3)", N("ExprList", False, (f3,)))
        add("list(f3,f9)", N("ExprList", False, (f3, f9)))
        add("list(f9,f3)", N("ExprList", False, (f9, f3)))
        add("list(f3,f9,f1)", N("ExprList", False, (f3, f9, f1)))
        # every node type with a varying number of operands: operand lists that are proper prefixes of one another
        varying = sorted(t.name for t in self.tm.concrete() if t.traits.get("num_ops") == "varying" and not t.traits.get("is_terminal") and t.name not in ("ExprList",) and not self.tm.get(t.name).cls.is_subclass_of("BaseFormOperator"))
        self.varying_types = varying
        for tname in varying:
            try:
                self.K(tname)
            except Exception:
                continue
            a2 = add(f"{tname}(f3,f9)", N(tname, False, (f3, f9)))
            a3 = add(f"{tname}(f3,f9,f1)", N(tname, False, (f3, f9, f1)))
            add(f"{tname}(f3,f9,f1,f2)", N(tname, False, (f3, f9, f1, f2)))
            add(f"sin({tname}(f3,f9))", N("Sin", False, (a2,)))
            add(f"sin({tname}(f3,f9,f1))", N("Sin", False, (a3,)))
        add("(f3+f9)*sin(f10)", N("Product", False, (N("Sum", False, (f3, f9)), N("Sin", False, (f10,)))))
        add("(f3+f10)*sin(f10)", N("Product", False, (N("Sum", False, (f3, f10)), N("Sin", False, (f10,)))))


def anon_key(o):
    """structure with Index and Label numbers erased"""
    a = o.attrs
    if a.get("is_label"):
        return ("Label",)
    if a["_ufl_typecode_"] == "MultiIndex":
        return ("MultiIndex", a["anon"])
    if a["_ufl_is_terminal_"]:
        return (a["_ufl_typecode_"], a["_repr"])
    return (a["_ufl_typecode_"],) + tuple(anon_key(x) for x in a["ufl_operands"])


def exact_key(o):
    a = o.attrs
    if a.get("is_label"):
        return ("Label", a["_count_value"])
    if a["_ufl_typecode_"] == "MultiIndex":
        return ("MultiIndex", a["exact"], a["anon"])
    if a["_ufl_is_terminal_"]:
        return (a["_ufl_typecode_"], a["_repr"])
    return (a["_ufl_typecode_"],) + tuple(exact_key(x) for x in a["ufl_operands"])


def make_interp(ctx, count_reads):
    ip = Interp(ctx.prog)

    def m_repr(o):
        if isinstance(o, Obj) and "_repr" in o.attrs:
            return o.attrs["_repr"]
        return repr(o)

    def m_hash(o):
        if isinstance(o, Obj) and "_ufl_typecode_" in o.attrs:
            return hash(exact_key(o))
        return hash(o)

    def attr_hook(o, attr):
        if isinstance(o, Obj) and (o.attrs.get("is_index") or o.attrs.get("is_label")) and attr in ("_count", "count"):
            count_reads.append(o.kind)
            v = o.attrs["_count_value"]
            return v if attr == "_count" else (lambda: v)
        return NotImplemented

    ip.attr_hook = attr_hook
    ip.type_model = ctx.tm  # class attributes attached by @ufl_type (used by the lifted __eq__ of expressions)
    ip.overrides.update(repr=m_repr, hash=m_hash, cmp_to_key=functools.cmp_to_key)
    # the module's own dispatch table, from its module-level assignments
    ip.exec_module_level(SORTING)
    return ip


def sign(x):
    return (x > 0) - (x < 0)


def cmp_matrix(ctx, rep, ip, U, cmp_expr):
    n = len(U.items)
    M = [[0] * n for _ in range(n)]
    for a, b in itertools.product(range(n), repeat=2):
        r = ip.call_function(cmp_expr, [U.items[a][1], U.items[b][1]], {})
        if isinstance(r, bool) or not isinstance(r, int):
            rep.violation("C29-anti", cmp_expr, f"cmp_expr({U.items[a][0]}, {U.items[b][0]})", f"cmp_expr returns {r!r}, not an integer sign")
            r = 0
        M[a][b] = sign(r)
    return M



def check_order(ctx, rep, cmp_expr, parts):
    reads = []
    ip = make_interp(ctx, reads)
    tagp = " [arguments with parts]" if parts else ""
    U = Universe(ctx, {"i": 5, "j": 7}, {"a": 11, "b": 12}, parts=parts)
    names = [n for n, _ in U.items]
    n = len(names)
    M = cmp_matrix(ctx, rep, ip, U, cmp_expr)
    # ---- antisymmetry ----------------------------------------------------------------------------
    bad = 0
    for a in range(n):
        for b in range(a, n):
            if M[a][b] != -M[b][a]:
                bad += 1
                rep.violation("C29-anti", cmp_expr, f"({names[a]}, {names[b]})", f"cmp_expr({names[a]}, {names[b]}) = {M[a][b]} but cmp_expr({names[b]}, {names[a]}) = {M[b][a]}: not antisymmetric, so sorted_expr((a, b)) and sorted_expr((b, a)) differ", witness={"a": names[a], "b": names[b]})
    if not bad:
        rep.ok("C29-anti", cmp_expr, f"antisymmetric on all {n * (n + 1) // 2} unordered pairs of {n} expressions{tagp}")
    # ---- transitivity ----------------------------------------------------------------------------
    bad = 0
    for a, b, c in itertools.product(range(n), repeat=3):
        if M[a][b] <= 0 and M[b][c] <= 0 and M[a][c] > 0:
            bad += 1
            if bad <= 5:
                rep.violation("C29-trans", cmp_expr, f"({names[a]}, {names[b]}, {names[c]})", f"{names[a]} <= {names[b]} <= {names[c]} but {names[a]} > {names[c]}: the operand order is not a preorder, canonical sorting depends on the input order", witness={"a": names[a], "b": names[b], "c": names[c]})
    if not bad:
        rep.ok("C29-trans", cmp_expr, f"transitive on all {n**3} triples{tagp}")
    # ---- ties only between expressions equal up to index / label numbers ------------------------------
    bad = 0
    for a in range(n):
        for b in range(n):
            if a != b and M[a][b] == 0 and anon_key(U.items[a][1]) != anon_key(U.items[b][1]):
                bad += 1
                if a < b:
                    rep.violation("C29-tie", cmp_expr, f"({names[a]}, {names[b]})", f"cmp_expr ties {names[a]} and {names[b]} although they differ in more than index / label numbers: a+b and b+a keep their input order", witness={"a": names[a], "b": names[b]})
    if not bad:
        rep.ok("C29-tie", cmp_expr, f"every tie is between expressions equal up to Index / Label numbers{tagp}")
    # ---- independence of index and label counts ---------------------------------------------------------
    reads2 = []
    ip2 = make_interp(ctx, reads2)
    U2 = Universe(ctx, {"i": 70, "j": 6}, {"a": 120, "b": 13}, parts=parts)
    M2 = cmp_matrix(ctx, rep, ip2, U2, cmp_expr)
    diff = [(names[a], names[b]) for a in range(n) for b in range(n) if M[a][b] != M2[a][b]]
    if diff or reads or reads2:
        what = f"the order of {diff[0][0]} and {diff[0][1]} changes with the numbering of indices / labels" if diff else f"a comparator reads the count of {sorted(set(reads + reads2))}"
        rep.violation("C29-key", cmp_expr, "index/label counts", what, witness={"pairs": diff[:5], "reads": sorted(set(reads + reads2))})
    else:
        rep.ok("C29-key", cmp_expr, f"sign matrix unchanged under renumbering of indices and labels; no comparator reads their counts{tagp}")
    return n


def fill_hashes(objs):
    """the state after every node was hashed once (used as a dict key, put in a set, wrapped by a constructor that
    hashes its operand): lazily cached hashes are not part of a node's value, so nothing may depend on them"""
    seen = set()

    def rec(o):
        if not isinstance(o, Obj) or id(o) in seen or "_ufl_typecode_" not in o.attrs:
            return
        seen.add(id(o))
        for x in o.attrs.get("ufl_operands", ()):
            rec(x)
        if "_hash" in o.attrs:
            o.attrs["_hash"] = hash(exact_key(o))

    for o in objs:
        rec(o)
    return len(seen)


def check_dag_sharing(ctx, rep, cmp_expr, hashed=False):
    """Generated family: the same operator tree over every assignment of its leaf positions to two leaf
    values, each available as two equal-but-distinct objects.  Sub-objects are therefore shared inside an
    operand and paired with equal, non-identical partners across operands in every possible pattern.  The
    sign of cmp_expr may depend on the structure only: zero exactly for equal structures, and the same for
    all object-sharing variants of a pair of structures."""
    ip = make_interp(ctx, [])
    U = Universe(ctx, {"i": 5, "j": 7}, {"a": 11, "b": 12})
    N = U.node
    f3 = dict(U.items)["f3"]

    def leafobj(k):
        ii = Obj("FixedIndex", __class__=ctx.prog.get_class("ufl.core.multiindex.FixedIndex"), _value=k, anon=("fixed", k))
        m = N("MultiIndex", True, _indices=(ii,))
        m.attrs["anon"] = (("fixed", k),)
        m.attrs["exact"] = (k,)
        return N("Indexed", False, (f3, m))

    leaves = {"x0": leafobj(0), "x1": leafobj(1), "y0": leafobj(0), "y1": leafobj(1)}
    items = []
    for l1, l2, l3 in itertools.product(leaves, repeat=3):
        e = N("Product", False, (N("Product", False, (N("Sin", False, (leaves[l1],)), N("Cos", False, (leaves[l2],)))), N("Exp", False, (leaves[l3],))))
        items.append((f"sin({l1})*cos({l2})*exp({l3})", e, anon_key(e)))
    state = "every node hashed before" if hashed else "no node hashed yet"
    if hashed:
        fill_hashes([e for _, e, _ in items])
    groups = {}
    bad = 0
    n = 0
    for (na, a, ka), (nb, b, kb) in itertools.product(items, repeat=2):
        if na >= nb and ka != kb:
            continue  # each unordered pair of different structures once; equal structures both ways
        r = sign(ip.call_function(cmp_expr, [a, b], {}))
        n += 1
        if (r == 0) != (ka == kb):
            bad += 1
            if bad <= 4:
                rep.violation("C29-dag", cmp_expr, f"({na}, {nb}) [{state}]", f"cmp_expr({na}, {nb}) = {r} [{state}]: x*/y* are equal but distinct objects, so the result must be {'0' if ka == kb else 'non-zero'}; with a tie between different expressions a+b and b+a keep their input order", witness={"a": na, "b": nb})
            continue
        key = (ka, kb) if repr(ka) <= repr(kb) else (kb, ka)
        val = r if repr(ka) <= repr(kb) else -r
        if groups.setdefault(key, val) != val:
            bad += 1
            if bad <= 4:
                rep.violation("C29-dag", cmp_expr, f"({na}, {nb})", f"cmp_expr({na}, {nb}) = {r} but another object-sharing variant of the same two expressions compares the other way", witness={"a": na, "b": nb})
    if not bad:
        rep.ok("C29-dag", cmp_expr, f"{n} comparisons of {len(items)} object-sharing variants of 8 structures ({state}): sign depends on the structure only")
    return n


def run(ctx) -> Report:
    rep = Report("C29")
    prog = ctx.prog
    cmp_expr = prog.get_function(SORTING, "cmp_expr")
    check_dag_sharing(ctx, rep, cmp_expr)
    check_dag_sharing(ctx, rep, cmp_expr, hashed=True)
    ip = make_interp(ctx, [])
    # informative only: whatever module-level tables the module dispatches through were evaluated from its source
    for tname, table in ip.module_globals.get(SORTING, {}).items():
        if isinstance(table, dict) and table:
            rep.info("C29-table", cmp_expr, f"{tname} keys from source: {sorted(map(str, table))}")
    n = 0
    for parts in (False, True):
        n = max(n, check_order(ctx, rep, cmp_expr, parts))
    # ---- constructors --------------------------------------------------------------------------------
    n_ctor = 0
    for cname, qual, shape in (("Sum", "ufl.algebra.Sum", ()), ("Product", "ufl.algebra.Product", ()), ("Inner", "ufl.tensoralgebra.Inner", (2,))):
        ipc = make_interp(ctx, [])
        Uc = Universe(ctx, {"i": 5, "j": 7}, {"a": 11, "b": 12}, shape=shape)
        K = prog.get_class(qual)
        new = prog.lookup(K, "__new__")
        ipc.overrides["as_ufl"] = lambda x: x
        ipc.overrides["merge_unique_indices"] = lambda *a: ((), ())
        ipc.overrides["merge_nonoverlapping_indices"] = lambda *a: ((), ())
        ipc.class_models["Conj"] = lambda x: Obj("Conj", ufl_operands=(x,))
        ipc.class_models["Inner"] = lambda a, b: Obj("Inner", ufl_operands=(a, b))
        ids = {id(o): nm for nm, o in Uc.items}

        def canon(r, given):
            if id(r) in ids:
                return ("operand", ids[id(r)])
            if isinstance(r, Obj) and r.kind == "Conj":
                return canon(r.attrs["ufl_operands"][0], None)
            if isinstance(r, Obj):
                ops = r.attrs.get("ufl_operands", given)
                return (r.kind, tuple(ids.get(id(o), "?") for o in ops))
            return ("value", repr(r))

        items = [(nm, o) for nm, o in Uc.items]
        bad = 0
        for (na, a), (nb, b) in itertools.combinations(items, 2):
            if anon_key(a) == anon_key(b):
                continue
            if a.attrs["_ufl_typecode_"] == "IntValue" and b.attrs["_ufl_typecode_"] == "IntValue":
                continue
            try:
                r1 = canon(ipc.call_function(new, [K, a, b], {}), (a, b))
                r2 = canon(ipc.call_function(new, [K, b, a], {}), (b, a))
            except LiftRaise as ex:
                rep.violation("C29-ctor", new, f"{cname}({na}, {nb})", f"{cname}.__new__ fails on ({na}, {nb}): {ex.what}")
                continue
            n_ctor += 1
            if r1 != r2:
                bad += 1
                if bad <= 5:
                    rep.violation("C29-ctor", new, f"{cname}({na}, {nb})", f"{cname}({na}, {nb}) builds {r1} but {cname}({nb}, {na}) builds {r2}", witness={"a": na, "b": nb})
        if not bad:
            rep.ok("C29-ctor", new, f"{cname}.__new__: same node for both operand orders on all distinguishable pairs")
    if n < 45 or n_ctor < 4000:
        raise AnalysisError(f"universe too small: {n} expressions, {n_ctor} constructor pairs")
    rep.require_min("C29-anti", 1)
    rep.require_min("C29-ctor", 3)
    rep.exhaustive = True
    rep.explanation = (
        f"cmp_expr (+ the comparators in _terminal_cmps as assigned in the module) lifted on all {n * n} ordered pairs and {n**3} triples of {n} abstract expressions; "
        f"the sign matrix recomputed with renumbered indices and labels; Sum/Product/Inner.__new__ lifted on both orders of {n_ctor} distinguishable operand pairs."
    )
    rep.assumptions = [
        "typecodes modelled by class names (any injective assignment gives the same verdicts)",
        "repr of terminals without a dedicated comparator modelled by fixed distinct strings",
        "hash() of an expression modelled as a structural hash (equal for equal expressions)",
        "finite universe; arguments either all without parts or all with integer parts (mixing both is not a supported form)",
    ]
    return rep
