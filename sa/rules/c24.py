"""C24 -- point evaluation computes the mathematical value.

The `evaluate` method of every operator class is lifted from source with *symbolic operands*: each
operand is an abstract object whose evaluate(x, mapping, component, index_values) returns the
symbol of the entry selected by `component` and by the current values of the operand's free
indices in `index_values` (and raises when the component does not fit the operand's shape or an
index has no value).  For every component and every assignment of the node's free indices the
lifted result must equal the corresponding entry of the node's mathematical value, built with the
reference models of sa/uflmodel.py.  This decides, per class,

  C24-op     the Python operator / math function used is the one the class denotes,
  C24-comp   each operand is queried with the right component (scalar operands with (), shape-
             inheriting operands with the node's component, Grad splits off the last axis, ...),
  C24-stack  index bindings pushed for a summation / component tensor are restored afterwards and the
             operand sees exactly the bound values.
"""

from __future__ import annotations

import ast
import itertools

from .. import sym, uflmodel, uflsem
from ..lift import Interp, LiftRaise, Obj, Unsupported
from ..model import AnalysisError, norm
from ..report import Report
from ..uflmodel import MI, new_index
from ..uflsem import Idx, T, as_T


class IV:
    """index_values: model of ufl.utils.stacks.StackDict (trusted semantics)."""

    __lift_host__ = True

    def __init__(self):
        self.d = {}
        self.l = []

    def push(self, k, v):
        self.l.append((k, self.d.get(k)))
        if v is None:
            self.d.pop(k, None)
        else:
            self.d[k] = v

    def pop(self):
        k, v = self.l.pop()
        if v is None:
            self.d.pop(k, None)
        else:
            self.d[k] = v
        return k, v

    def get(self, k, default=None):
        return self.d.get(k, default)

    def __getitem__(self, k):
        if k not in self.d:
            raise LiftRaise(f"KeyError: index {k} has no value")
        return self.d[k]

    def __setitem__(self, k, v):
        self.d[k] = v

    def __contains__(self, k):
        return k in self.d

    # StackDict is a dict subclass: the plain dict interface writes the table directly
    def update(self, *a, **k):
        self.d.update(dict(*a, **k))

    def setdefault(self, k, v=None):
        return self.d.setdefault(k, v)

    def __delitem__(self, k):
        if k not in self.d:
            raise LiftRaise(f"KeyError: index {k} has no value")
        del self.d[k]

    def items(self):
        return list(self.d.items())

    def keys(self):
        return list(self.d.keys())

    def values(self):
        return list(self.d.values())

    def copy(self):
        return dict(self.d)

    def __len__(self):
        return len(self.d)

    def __iter__(self):
        return iter(list(self.d))

    def snapshot(self):
        return (dict(self.d), len(self.l))


def operand(name, tensor: T, x_marker=None):
    """abstract operand evaluating to the symbol of the requested entry"""
    o = Obj("operand:" + name, ufl_shape=tensor.shape, ufl_free_indices=tuple(i.id for i in tensor.fi), ufl_index_dimensions=tensor.fid)
    o.attrs["__class__"] = None
    o.attrs["tensor"] = tensor
    calls = []

    def evaluate(x, mapping, component, index_values, derivatives=()):
        component = tuple(component) if component is not None else ()
        if len(component) != len(tensor.shape):
            raise LiftRaise(f"operand {name} of shape {tensor.shape} evaluated with component {component}")
        for c, d in zip(component, tensor.shape):
            if not isinstance(c, int) or not 0 <= c < d:
                raise LiftRaise(f"operand {name}: component {component} out of range for shape {tensor.shape}")
        ivals = tuple(index_values[i] for i in tensor.fi)
        calls.append((component, ivals, tuple(derivatives)))
        v = tensor.get(component, ivals)
        for k in derivatives:
            v = sym.sym(f"d{k}({sym.show(v)})")
        return T.scalar(v)

    o.attrs["evaluate"] = evaluate
    o.attrs["calls"] = calls
    return o


def math_model(complex_mode):
    def f(name):
        return lambda a: uflsem.t_fn(name, a)

    names = {"sqrt": "sqrt", "exp": "exp", "log": "ln", "cos": "cos", "sin": "sin", "tan": "tan", "cosh": "cosh", "sinh": "sinh", "tanh": "tanh", "acos": "acos", "asin": "asin", "atan": "atan", "erf": "erf"}
    attrs = {k: f(v) for k, v in names.items()}
    attrs["atan2"] = lambda a, b: uflsem.t_fn("atan2", a, b)
    return Obj("math", **attrs)


def run(ctx) -> Report:
    rep = Report("C24")
    prog = ctx.prog
    pts = 10

    def make_ip(real_branch=True):
        ip = uflmodel.install(Interp(prog))
        ip.overrides["math"] = math_model(False)
        ip.overrides["cmath"] = math_model(True)
        REAL = Obj("type:Real")
        ip.overrides["numbers"] = Obj("numbers", Real=REAL, Integral=Obj("type:Integral"), Complex=Obj("type:Complex"))
        ip.overrides["warnings"] = Obj("warnings", warn=lambda *a, **k: None)
        ip.overrides["min"] = lambda a, b: uflsem.t_fn("min", a, b)
        ip.overrides["max"] = lambda a, b: uflsem.t_fn("max", a, b)
        ip.overrides["bool"] = lambda v: v
        ip.overrides["float"] = lambda v: v
        ip.overrides["getattr"] = lambda o, n, *d: ip.getattr(o, n, None, None)
        ip.overrides["is_true_ufl_scalar"] = lambda e: True
        ip.overrides["is_ufl_scalar"] = lambda e: True

        def hook(x, cls_):
            if cls_ is REAL:
                return real_branch
            if isinstance(cls_, Obj) and cls_.kind.startswith("type:"):
                return False
            if isinstance(x, Obj) and x.kind.startswith("operand"):
                return False
            if isinstance(x, T) and "ufl_class" not in x.tags and hasattr(cls_, "name"):
                return False
            return NotImplemented

        ip.isinstance_hook = hook

        def attr_hook(o, a):
            if isinstance(o, T) and o.shape == () and not o.fi:
                if a == "conjugate":
                    return lambda: uflsem.conj(o)
                if a == "real":
                    return uflsem.t_fn("real", o)
                if a == "imag":
                    return uflsem.t_fn("imag", o)
            return NotImplemented

        ip.attr_hook = attr_hook
        prev_cmp = ip.compare

        def compare(op, x1, x2, node_):
            if isinstance(x1, T) and isinstance(x2, T) and op in (ast.Eq, ast.NotEq) and x1.shape == () and x2.shape == ():
                return uflmodel.m_rel("==" if op is ast.Eq else "!=")(x1, x2)
            return prev_cmp(op, x1, x2, node_)

        ip.compare = compare
        return ip

    cm, _ = uflmodel.base_models()

    def check(clsname, self_attrs, operands, oracle: T, what, rule="C24-op", x="x", init=None, real_only=False, extra_iv=None, qualclass=None):
        """evaluate the node for every component / free index assignment and compare"""
        cls = prog.get_class(qualclass or clsname)
        ev = prog.lookup(cls, "evaluate")
        if ev is None or not hasattr(ev, "node"):
            raise AnalysisError(f"{clsname}.evaluate not found")
        for real_branch in (True, False):
            ip = make_ip(real_branch)
            selfobj = Obj("node:" + clsname, __class__=cls, ufl_operands=tuple(operands), ufl_shape=oracle.shape, ufl_free_indices=tuple(i.id for i in oracle.fi), ufl_index_dimensions=oracle.fid)
            selfobj.attrs.update(self_attrs)
            if init is not None:
                init(ip, selfobj)
            bad = None
            n = 0
            for comp in itertools.product(*[range(d) for d in oracle.shape]):
                for ivals in itertools.product(*[range(d) for d in oracle.fid]):
                    iv = IV()
                    for i, v in zip(oracle.fi, ivals):
                        iv.push(i, v)
                    for k, v in (extra_iv or {}).items():
                        iv.push(k, v)
                    before = iv.snapshot()
                    try:
                        got = ip.call_function(ev, [x, {}, tuple(comp), iv], {}, self_obj=selfobj)
                    except LiftRaise as e:
                        bad = f"component {comp}, indices {ivals}: evaluation raises ({e.what})"
                        break
                    n += 1
                    if iv.snapshot() != before:
                        bad = f"component {comp}, indices {ivals}: index bindings are not restored after evaluation (before {before[0]}, after {iv.snapshot()[0]})"
                        rule_ = "C24-stack"
                        break
                    want = oracle.get(comp, ivals)
                    try:
                        g = as_T(got).get()
                    except Exception:
                        bad = f"component {comp}: evaluation returns {got!r}"
                        break
                    ok, how, wit = sym.equal(g, want, rng=ctx.rng, real_only=real_only, points=pts)
                    if not ok:
                        bad = f"component {comp}, indices {ivals}: evaluates to {sym.show(g)} but the mathematical value is {sym.show(want)} ({wit})"
                        break
                if bad:
                    break
            tag = f"{clsname} [{what}{'' if real_branch else '; complex branch'}]"
            if bad:
                r = "C24-stack" if "not restored" in bad else ("C24-comp" if "evaluated with component" in bad or "out of range" in bad else rule)
                rep.violation(r + "/" + clsname, ev, tag, f"{tag}: {bad}")
            else:
                rep.ok(rule + "/" + clsname, ev, f"{tag}: {n} entries equal the mathematical value, index bindings restored")
            if clsname not in MATH and clsname != "Atan2":
                break

    MATH = ["Sqrt", "Exp", "Ln", "Cos", "Sin", "Tan", "Cosh", "Sinh", "Tanh", "Acos", "Asin", "Atan", "Erf"]
    i, j, k = new_index(), new_index(), new_index()
    A = T.symbolic("A", (2, 3))
    B = T.symbolic("B", (2, 3))
    a, b = T.symbolic("a"), T.symbolic("b")
    F, G = T.symbolic("F", (2,)), T.symbolic("G", (3,))
    fi_, gj, fi2 = F[i], G[j], T.symbolic("F2", (2,))[i]

    def opd(name, t):
        return operand(name, t)

    # algebra
    for (x1, x2, what) in ((a, b, "scalars"), (A, B, "matrices"), (fi_, fi2, "free index")):
        check("Sum", {}, [opd("a", x1), opd("b", x2)], cm["Sum"](x1, x2), what)
    for (x1, x2, what) in ((a, b, "scalars"), (fi_, gj, "free indices i,j")):
        check("Product", {}, [opd("a", x1), opd("b", x2)], cm["Product"](x1, x2), what)
    for (x1, x2, what) in ((a, b, "scalars"), (fi_, b, "free index / scalar")):
        check("Division", {}, [opd("a", x1), opd("b", x2)], cm["Division"](x1, x2), what)
    check("Power", {}, [opd("a", a), opd("b", b)], cm["Power"](a, b), "scalars", real_only=True)
    for cname in ("Abs", "Conj", "Real", "Imag"):
        for (x1, what) in ((a, "scalar"), (A, "matrix"), (fi_, "free index")):
            check(cname, {}, [opd("a", x1)], cm[cname](x1), what, real_only=cname == "Abs")
    # math functions: the name passed to MathFunction.__init__ selects the python function
    for cname in MATH:
        cls = prog.get_class("ufl.mathfunctions." + cname)

        def init(ip, selfobj, cls=cls):
            ini = prog.lookup(cls, "__init__")
            ip.call_function(ini, [selfobj.attrs["ufl_operands"][0]], {}, self_obj=selfobj)

        check(cname, {}, [opd("a", a)], cm[cname](a), "scalar", init=init, real_only=True)
    check("Atan2", {}, [opd("a", a), opd("b", b)], cm["Atan2"](a, b), "scalars", real_only=True)
    check("MinValue", {}, [opd("a", a), opd("b", b)], cm["MinValue"](a, b), "scalars", real_only=True)
    check("MaxValue", {}, [opd("a", a), opd("b", b)], cm["MaxValue"](a, b), "scalars", real_only=True)
    # special points: operands that evaluate to the literal values -1, 0, 2 (branches of an evaluate method that
    # test an operand's value - `a == 0`, `b < 0` - are taken with constant operands, not with symbolic ones)
    def math_init(cname):
        cls = prog.get_class("ufl.mathfunctions." + cname)

        def init(ip, selfobj, cls=cls):
            ip.call_function(prog.lookup(cls, "__init__"), [selfobj.attrs["ufl_operands"][0]], {}, self_obj=selfobj)

        return init

    n_points = 0
    for cname, arity in [("Sum", 2), ("Product", 2), ("Division", 2), ("Power", 2), ("Atan2", 2), ("MinValue", 2), ("MaxValue", 2), ("Abs", 1), ("Conj", 1), ("Real", 1), ("Imag", 1)] + [(m_, 1) for m_ in MATH]:
        for vals in itertools.product((-1, 0, 2), repeat=arity):
            ops = [T.scalar(sym.const(v)) for v in vals]
            try:
                oracle = cm[cname](*ops)
                val = sym.evaluate(oracle.get(), {})
                if val != val:
                    continue
            except Exception:
                continue  # the operation is not defined at this point
            n_points += 1
            check(cname, {}, [opd(f"p{k}", o_) for k, o_ in enumerate(ops)], oracle, f"operands evaluating to {vals}", init=math_init(cname) if cname in MATH else None, real_only=True)
    if n_points < 80:
        raise AnalysisError(f"only {n_points} special points evaluated")
    # conditions: the comparison used is the one the class denotes
    for cname, op in (("EQ", "=="), ("NE", "!="), ("LT", "<"), ("GT", ">"), ("LE", "<="), ("GE", ">=")):
        cls = prog.get_class("ufl.conditional." + cname)
        ev = prog.lookup(cls, "evaluate")
        ip = make_ip()
        selfobj = Obj("node:" + cname, __class__=cls, ufl_operands=(opd("a", a), opd("b", b)))
        try:
            got = ip.call_function(ev, ["x", {}, (), IV()], {}, self_obj=selfobj)
        except LiftRaise as e:
            rep.violation("C24-op/" + cname, ev, cname, f"{cname}.evaluate raises {e.what}")
            continue
        want = sym.Ex("rel", op, a.get(), b.get())
        if isinstance(got, uflmodel.Cnd) and got.ex is want:
            rep.ok("C24-op/" + cname, ev, f"{cname}: evaluates a {op} b")
        else:
            rep.violation("C24-op/" + cname, ev, cname, f"{cname}.evaluate computes {getattr(getattr(got, 'ex', None), 'args', got)} instead of a {op} b")
    # boolean connectives and Conditional on concrete truth values
    def bool_operand(v):
        o = Obj("operand:cond", ufl_shape=(), ufl_free_indices=(), ufl_index_dimensions=())
        o.attrs["__class__"] = None

        def evaluate(x, mapping, component, index_values):
            if tuple(component) != ():
                raise LiftRaise(f"condition (always scalar) evaluated with component {tuple(component)}")
            return v

        o.attrs["evaluate"] = evaluate
        return o

    for cname, fn in (("AndCondition", lambda p, q: p and q), ("OrCondition", lambda p, q: p or q)):
        cls = prog.get_class("ufl.conditional." + cname)
        ev = prog.lookup(cls, "evaluate")
        okc = True
        for p in (True, False):
            for q in (True, False):
                ip = make_ip()
                selfobj = Obj("node", __class__=cls, ufl_operands=(bool_operand(p), bool_operand(q)))
                got = ip.call_function(ev, ["x", {}, (), IV()], {}, self_obj=selfobj)
                if bool(got) != fn(p, q):
                    okc = False
                    rep.violation("C24-op/" + cname, ev, f"{cname}({p},{q})", f"{cname}.evaluate gives {got} for operands {p}, {q}")
        if okc:
            rep.ok("C24-op/" + cname, ev, "truth table correct")
    cls = prog.get_class("ufl.conditional.NotCondition")
    ev = prog.lookup(cls, "evaluate")
    okc = True
    for p in (True, False):
        got = make_ip().call_function(ev, ["x", {}, (), IV()], {}, self_obj=Obj("node", __class__=cls, ufl_operands=(bool_operand(p),)))
        if bool(got) != (not p):
            okc = False
            rep.violation("C24-op/NotCondition", ev, f"NotCondition({p})", f"gives {got}")
    if okc:
        rep.ok("C24-op/NotCondition", ev, "truth table correct")
    cls = prog.get_class("ufl.conditional.Conditional")
    ev = prog.lookup(cls, "evaluate")
    for (tv, fv, what) in ((a, b, "scalar branches"), (A, B, "matrix branches"), (fi_, fi2, "branches with a free index")):
        for cval in (True, False):
            want = tv if cval else fv
            ip = make_ip()
            selfobj = Obj("node", __class__=cls, ufl_operands=(bool_operand(cval), opd("t", tv), opd("f", fv)))
            bad = None
            for comp in itertools.product(*[range(d) for d in want.shape]):
                for ivals in itertools.product(*[range(d) for d in want.fid]):
                    iv = IV()
                    for ii_, v in zip(want.fi, ivals):
                        iv.push(ii_, v)
                    try:
                        got = ip.call_function(ev, ["x", {}, comp, iv], {}, self_obj=selfobj)
                    except LiftRaise as e:
                        bad = f"component {comp}: raises ({e.what})"
                        break
                    if as_T(got).get() is not want.get(comp, ivals):
                        bad = f"component {comp}: gives {sym.show(as_T(got).get())}, expected {sym.show(want.get(comp, ivals))}"
                        break
                if bad:
                    break
            tag = f"Conditional [{what}, condition {cval}]"
            if bad:
                rep.violation(("C24-comp" if "evaluated with component" in bad else "C24-op") + "/Conditional", ev, tag, f"{tag}: {bad}")
            else:
                rep.ok("C24-comp/Conditional", ev, f"{tag}: selects the right branch entry; the condition is evaluated as a scalar")
    # indexing / tensors
    def mi_obj(items):
        micls = prog.get_class("ufl.core.multiindex.MultiIndex")
        fcls = prog.get_class("ufl.core.multiindex.FixedIndex")
        inds = tuple(Obj("FixedIndex", __class__=fcls, _value=x) if isinstance(x, int) else x for x in items)
        o = Obj("MultiIndex", __class__=micls, _indices=inds)
        o.attrs["__iter__"] = list(inds)
        o.attrs["__len__"] = len(inds)
        return o

    for key, what in (((i, j), "free,free"), ((1, j), "fixed,free"), ((0, 2), "fixed,fixed")):
        check("Indexed", {}, [opd("A", A), mi_obj(key)], uflsem.t_index(A, key), what, rule="C24-comp")
    hij = A[i, j]
    check("IndexSum", {"_dimension": 2}, [opd("h", hij), mi_obj((i,))], uflsem.index_sum(hij, i), "sum over i of A[i,j]", rule="C24-stack")
    check("IndexSum", {"_dimension": 3}, [opd("h", hij), mi_obj((j,))], uflsem.index_sum(hij, j), "sum over j of A[i,j]", rule="C24-stack")
    # the summation index is also bound in an enclosing scope (same Index object reused)
    check("IndexSum", {"_dimension": 2}, [opd("h", hij), mi_obj((i,))], uflsem.index_sum(hij, i), "sum over i while i is bound outside", rule="C24-stack", extra_iv={i: 0})
    for order, what in (((i, j), "as_tensor(A[i,j], (i,j))"), ((j, i), "as_tensor(A[i,j], (j,i))")):
        check("ComponentTensor", {}, [opd("h", hij), mi_obj(order)], uflsem.as_tensor(hij, order), what, rule="C24-stack")
    gk = T.symbolic("H", (2, 3, 2))[i, j, k]
    check("ComponentTensor", {}, [opd("h", gk), mi_obj((j,))], uflsem.as_tensor(gk, (j,)), "one bound index, two free", rule="C24-stack")
    check("ListTensor", {}, [opd("a", a), opd("b", b)], T.from_nested([a, b]), "two scalars", rule="C24-comp")
    check("ListTensor", {}, [opd("F", F), opd("F2", T.symbolic("F2", (2,)))], T.from_nested([F, T.symbolic("F2", (2,))]), "two vectors", rule="C24-comp")
    lab = Obj("operand:label")
    check("Variable", {}, [opd("A", A), lab], A, "matrix", rule="C24-comp")
    check("PositiveRestricted", {"_side": "+"}, [opd("A", A)], A, "matrix", rule="C24-comp", qualclass="ufl.restriction.PositiveRestricted")
    # Grad: the last component selects the derivative direction
    cls = prog.get_class("ufl.differentiation.Grad")
    ev = prog.lookup(cls, "evaluate")
    ip = make_ip()
    fo = opd("F", F)
    selfobj = Obj("node", __class__=cls, ufl_operands=(fo,))
    okg = True
    for c0 in range(2):
        for d in range(3):
            fo.attrs["calls"].clear()
            ip.call_function(ev, ["x", {}, (c0, d), IV()], {}, self_obj=selfobj)
            if fo.attrs["calls"] != [((c0,), (), (d,))]:
                okg = False
                rep.violation("C24-comp/Grad", ev, f"Grad component ({c0},{d})", f"grad(F)[{c0},{d}] queries the operand with {fo.attrs['calls']} instead of component ({c0},) derivative ({d},)")
    if okg:
        rep.ok("C24-comp/Grad", ev, "last component becomes the derivative direction")
    # literal tensors
    for n in (2, 3):
        cls = prog.get_class("ufl.constantvalue.Identity")
        ev = prog.lookup(cls, "evaluate")
        ip = make_ip()
        bad = [(p, q) for p in range(n) for q in range(n) if ip.call_function(ev, ["x", {}, (p, q), IV()], {}, self_obj=Obj("I", __class__=cls, _dim=n)) != (1 if p == q else 0)]
        (rep.violation("C24-op/Identity", ev, f"Identity({n})", f"wrong entries {bad}") if bad else rep.ok("C24-op/Identity", ev, f"Identity({n}) entries"))
    from .c06 import perm_sign

    cls = prog.get_class("ufl.constantvalue.PermutationSymbol")
    ev = prog.lookup(cls, "evaluate")
    for n in (2, 3):
        ip = make_ip()
        ip.class_models["IntValue"] = lambda v=0: v
        ip.class_models["Zero"] = lambda *a, **k: 0
        bad = []
        for c in itertools.product(range(n), repeat=n):
            so = Obj("eps", __class__=cls, _dim=n)
            # name mangling: self.__eps -> _PermutationSymbol__eps
            meth = prog.lookup(cls, "_PermutationSymbol__eps") or prog.lookup(cls, "__eps")
            got = ip.call_function(meth, [c], {}, self_obj=so)
            want = perm_sign(c) if len(set(c)) == n else 0
            if got != want:
                bad.append((c, got, want))
        (rep.violation("C24-op/PermutationSymbol", ev, f"PermutationSymbol({n})", f"wrong entries {bad[:4]}") if bad else rep.ok("C24-op/PermutationSymbol", ev, f"PermutationSymbol({n}): all {n ** n} entries are the Levi-Civita symbol"))
    # which operator classes define evaluate but were not modelled (reported)
    lifted = {o[0].split("/")[-1] for o in rep.obligations}
    missing = []
    for t in ctx.tm.operators():
        r = prog.lookup(t.cls, "evaluate")
        if r is not None and hasattr(r, "cls") and r.cls is not None and r.cls.name not in ("Expr",) and t.name not in lifted and not any(k.name in lifted for k in t.cls.mro()[:2]):
            missing.append(t.name)
    rep.info("C24-op", "ufl", f"operator types with an evaluate method that were not lifted: {sorted(missing)}")
    # ---- terminals: the value handed in by the user (a nested sequence or a callable) read at the requested component ----
    tcls = prog.get_class("ufl.core.terminal.Terminal")
    tev = prog.lookup(tcls, "evaluate")
    if tev is None:
        raise AnalysisError("Terminal.evaluate not found")
    n_term = 0
    for shape in ((), (3,), (2, 3), (3, 2), (2, 2, 3)):
        ip = Interp(prog)
        ip.overrides["warnings"] = Obj("warnings", warn=lambda *a, **k: None)
        me = Obj("terminal", __class__=tcls, ufl_shape=shape)

        def nested(sh, prefix=()):
            return sym.sym("t" + "".join(f"[{k}]" for k in prefix)) if not sh else tuple(nested(sh[1:], prefix + (k,)) for k in range(sh[0]))

        def nested_d(sh, prefix=()):
            return sym.sym("dt" + "".join(f"[{k}]" for k in prefix)) if not sh else tuple(nested_d(sh[1:], prefix + (k,)) for k in range(sh[0]))

        value = nested(shape)
        dvalue = nested_d(shape)
        point = Obj("point")

        def fn(x, derivatives=None, value=value, dvalue=dvalue):
            return value if derivatives is None else dvalue

        class Mapping(dict):
            __lift_host__ = True

        for how, entry, derivs in (("a nested tuple", value, ()), ("a callable", fn, ()), ("a callable asked for a derivative", fn, (0,))):
            m = Mapping()
            m[id(me)] = entry
            m.get = lambda key, default=None, m=m: dict.get(m, id(key), default)  # looked up by the terminal itself
            bad = None
            for comp in itertools.product(*[range(d) for d in shape]):
                try:
                    got = ip.call_function(tev, [point, m, tuple(comp), None] + ([derivs] if derivs else []), {}, self_obj=me)
                except LiftRaise as ex:
                    bad = f"component {comp}: raises {ex.what[:80]}"
                    break
                want = sym.sym(("dt" if derivs else "t") + "".join(f"[{k}]" for k in comp))
                if not (isinstance(got, sym.Ex) and sym.equal(got, want, rng=ctx.rng)[0]):
                    bad = f"component {comp}: evaluates to {sym.show(got) if isinstance(got, sym.Ex) else got!r}, the value handed in there is {sym.show(want)}"
                    break
                n_term += 1
            what = f"Terminal of shape {shape} mapped to {how}"
            if bad:
                rep.violation("C24-terminal", tev, what, f"{what}: {bad}")
            else:
                rep.ok("C24-terminal", tev, f"{what}: every component reads the entry of the user's value at that component")
        # a constant value (no callable) has zero derivatives
        m = Mapping()
        m[id(me)] = value
        m.get = lambda key, default=None, m=m: dict.get(m, id(key), default)
        try:
            got = ip.call_function(tev, [point, m, tuple(0 for _ in shape), None, (0,)], {}, self_obj=me)
            if got == 0:
                rep.ok("C24-terminal", tev, f"Terminal of shape {shape} mapped to a constant: derivatives are zero")
            else:
                rep.violation("C24-terminal", tev, f"Terminal of shape {shape}, derivative of a constant value", f"the derivative of a terminal mapped to a constant evaluates to {got!r}")
        except LiftRaise as ex:
            rep.violation("C24-terminal", tev, f"Terminal of shape {shape}, derivative of a constant value", f"raises {ex.what[:80]}")
    rep.require_min("C24-terminal", 15)
    rep.require_min("C24-op", 45)
    rep.require_min("C24-comp", 14)
    rep.require_min("C24-stack", 6)
    rep.explanation = (
        "evaluate() of each operator class was lifted from source on symbolic operands and compared, entry by entry over all "
        "components and free-index assignments, with the node's mathematical value (reference models); operands reject "
        "ill-fitting components and unbound indices, and the index binding table must be restored after each evaluation."
    )
    rep.assumptions = ["StackDict push/pop semantics as modelled in this rule", "Bessel functions (scipy) are not lifted; terminals: the lookup of a mapped value (nested sequence or callable, with and without a derivative request) is lifted, the fallbacks for unmapped terminals are not", "math/cmath function names map to the elementary functions of the same name (log = ln)"]
    return rep
