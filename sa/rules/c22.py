"""C22 -- block extraction partitions mixed forms.

FormSplitter.split is lifted as a whole pass (sa/passlift.py) on integrands over test / trial functions
in mixed-element spaces whose sub-elements have *different reference and physical sizes* (symmetric
tensor sub-element: 3 reference / 4 physical components; contravariant Piola sub-element on an
immersed mesh: 2 / 3) next to scalar and vector Lagrange sub-elements.  For both modes
(replace_argument True / False), every block (i, j) must mean

    e[ v := P_i v ,  u := P_j u ]

i.e. the integrand with all test components outside sub-function i and all trial components outside
sub-function j set to zero (P_i in the *physical* component layout; with replace_argument the kept
components are renamed to the new sub-space argument).  This single identity gives both clauses of
the property: the blocks sum to the original integrand (bilinearity) and block (i, j) depends only on
the i-th test and j-th trial sub-function.

C22-blocks extract_blocks (the MixedFunctionSpace branch) interpreted from source with a recording splitter for every
           pattern of non-empty blocks over 2 and 3 sub-spaces: exactly the non-empty blocks, at their positions.
C22-parts  the MixedFunctionSpace path: an argument with part p is kept iff p equals the requested block
           index, else replaced by a Zero of the same shape.
"""

from __future__ import annotations

import itertools

from .. import corpus, sym, uflmodel, uflsem
from ..lift import LiftRaise, Obj, Unsupported
from ..model import AnalysisError, norm
from ..passlift import PassHarness
from ..report import Report
from ..uflmodel import MI, new_index, node, terminal
from ..uflsem import T, as_T, equal_T
from .c08 import np_model
from .c14 import subst_symbols

CLS = "ufl.algorithms.formsplitter.FormSplitter"


def check_extract_blocks(ctx, rep):
    """C22-blocks: extract_blocks interpreted from source on forms over a MixedFunctionSpace whose splitter is a
    recording stub: for every pattern of non-empty blocks over 2 and 3 sub-spaces (all 2^4 + 2^9 of them; all
    2^2 + 2^3 for linear forms) the matrix / tuple of blocks returned holds exactly the non-empty blocks at their
    (row, column) positions and None elsewhere, and a requested single block (i, j) is that entry."""
    from ..lift import Interp

    prog = ctx.prog
    fn = prog.get_function("ufl.algorithms.formsplitter", "extract_blocks")
    n = 0
    problems = {}
    for nparts in (2, 3):
        cells = list(itertools.product(range(nparts), repeat=2))
        for arity in (2, 1):
            universe = cells if arity == 2 else [(p,) for p in range(nparts)]
            for bits in itertools.product((0, 1), repeat=len(universe)):
                pattern = {c for c, b in zip(universe, bits) if b}
                if not pattern:
                    continue
                rows = {c[0] for c in pattern}
                cols = {c[1] for c in pattern} if arity == 2 else set()
                # the splitter needs the highest part index to occur (num_parts = max(parts) + 1)
                if max(rows | cols) != nparts - 1:
                    continue

                def arg(number, part):
                    a = Obj("Argument", number=lambda: number, part=lambda: part)
                    a.attrs["__class__"] = None
                    return a

                arguments = tuple(arg(0, p) for p in sorted(rows)) + tuple(arg(1, p) for p in sorted(cols))

                def block(key):
                    b = Obj(f"block{key}", key=key)
                    b.attrs["__class__"] = None
                    b.attrs["empty"] = lambda: key not in pattern
                    b.attrs["arguments"] = lambda: tuple(range(len(key)))
                    return b

                made = {}

                def split(form, pi, pj=None):
                    key = (pi,) if pj is None else (pi, pj)
                    made[key] = block(key)
                    return made[key]

                splitter = Obj("FormSplitter", split=split)
                splitter.attrs["__class__"] = None
                ip = Interp(prog)
                ip.overrides["FormSplitter"] = lambda replace_argument=True: splitter
                form = Obj("form", arguments=lambda: arguments)
                form.attrs["__class__"] = None
                try:
                    out = ip.call_function(fn, [form], {})
                except LiftRaise as e:
                    problems.setdefault(f"raises {e.what[:80]}", (nparts, arity, sorted(pattern)))
                    continue
                n += 1
                for key in universe:
                    got = out[key[0]] if arity == 1 else out[key[0]][key[1]]
                    if key in pattern:
                        if not (isinstance(got, Obj) and got.attrs.get("key") == key):
                            problems.setdefault(f"the non-empty block {key} is returned as {('block ' + str(got.attrs.get('key'))) if isinstance(got, Obj) else got!r}", (nparts, arity, sorted(pattern)))
                    elif got is not None:
                        problems.setdefault(f"the empty block {key} is returned as {got!r} instead of None", (nparts, arity, sorted(pattern)))
                # single-block requests
                for key in sorted(pattern)[:2]:
                    try:
                        one = ip.call_function(fn, [form] + list(key), {})
                    except LiftRaise as e:
                        problems.setdefault(f"requesting block {key} raises {e.what[:60]}", (nparts, arity, sorted(pattern)))
                        continue
                    if not (isinstance(one, Obj) and one.attrs.get("key") == key):
                        problems.setdefault(f"requesting the non-empty block {key} returns {one!r}", (nparts, arity, sorted(pattern)))
    for msg, (nparts, arity, pat) in problems.items():
        rep.violation("C22-blocks", fn, msg, f"extract_blocks on a form over {nparts} sub-spaces (arity {arity}) whose non-empty blocks are {pat}: {msg}")
    if not problems:
        rep.ok("C22-blocks", fn, f"extract_blocks returns exactly the non-empty blocks at their positions for all {n} block patterns over 2 and 3 sub-spaces")
    if n < 300 and not problems:
        raise AnalysisError(f"only {n} block patterns interpreted")
    return n


def run(ctx) -> Report:
    rep = Report("C22")
    prog = ctx.prog
    # the memo-key clause first: it needs no interpretation, and what it finds is reported even if a later clause cannot follow the code
    from ..memokey import check_memo_keys, memo_rule  # noqa: F401
    memo_rule(ctx, rep, "C22-key", ['ufl.algorithms.formsplitter'])
    cls = prog.get_class(CLS)
    ctx.crosscheck_dispatch({"FormSplitter"})
    pb = lambda n, *a: uflmodel.make_pullback(prog, n, *a)  # noqa: E731
    idx, mult = corpus.idx, corpus.mult
    P, S = uflmodel.m_product, uflmodel.m_sum

    def world(gdim, tdim):
        dom = Obj("domain", geometric_dimension=gdim, topological_dimension=tdim)
        dom.attrs["__class__"] = None
        dom.attrs["iterable_like"] = lambda element: [dom for _ in range(element.attrs["num_sub_elements"])]
        return dom

    def element(ref_shape, pullback, phys_shape, subs=(), **extra):
        size = 1
        for d in ref_shape:
            size *= d
        e = Obj("element", reference_value_shape=tuple(ref_shape), reference_value_size=size, sub_elements=list(subs), num_sub_elements=len(subs), pullback=pullback, phys_shape=tuple(phys_shape))
        e.attrs["__class__"] = None
        e.attrs.update(extra)
        return e

    layouts = []
    # (name, gdim, tdim, [sub-elements])
    dom2 = world(2, 2)
    layouts.append(("P2^2 x P1", dom2, [element((2,), pb("IdentityPullback"), (2,)), element((), pb("IdentityPullback"), ())]))
    sym_sub = element((3,), None, (2, 2))
    sym_sub.attrs["sub_elements"] = [element((), pb("IdentityPullback"), ()) for _ in range(3)]
    sym_sub.attrs["pullback"] = pb("SymmetricPullback", sym_sub, {(0, 0): 0, (0, 1): 1, (1, 0): 1, (1, 1): 2})
    layouts.append(("symmetric tensor x P1 x P2^2", dom2, [sym_sub, element((), pb("IdentityPullback"), ()), element((2,), pb("IdentityPullback"), (2,))]))
    nested = element((3,), None, (3,), [element((2,), pb("IdentityPullback"), (2,)), element((), pb("IdentityPullback"), ())])
    nested.attrs["pullback"] = pb("MixedPullback", nested)
    layouts.append(("[[P2^2, P1], P3]  (a mixed sub-element)", dom2, [nested, element((), pb("IdentityPullback"), ())]))
    # equal sub-elements: a block is selected by its position, not by what its element looks like (equal
    # but distinct element objects)
    def p1():
        e = element((), pb("IdentityPullback"), ())
        same = lambda o: isinstance(o, Obj) and o.attrs.get("_value_key") == "P1"  # noqa: E731  (elements compare by value)
        e.attrs.update(_value_key="P1", __eq__=same, __ne__=lambda o: not same(o), __hash__=lambda: 7)
        return e

    layouts.append(("P1 x P1 (equal sub-elements)", dom2, [p1(), p1()]))
    layouts.append(("P2^2 x P1 x P1 (equal scalar sub-elements)", dom2, [element((2,), pb("IdentityPullback"), (2,)), p1(), p1()]))
    dom3 = world(3, 2)
    layouts.append(("RT (contravariant, immersed: 2 ref / 3 phys) x P1 x RT", dom3, [element((2,), pb("ContravariantPiola"), (3,)), element((), pb("IdentityPullback"), ()), element((2,), pb("ContravariantPiola"), (3,))]))
    n_blocks = 0
    for lname, dom, subs in layouts:
        sizes = []
        for e in subs:
            n = 1
            for d in e.attrs["phys_shape"]:
                n *= d
            sizes.append(n)
        N = sum(sizes)
        offs = [sum(sizes[:k]) for k in range(len(sizes))]
        mixed = element((sum(e.attrs["reference_value_size"] for e in subs),), None, (N,), subs)
        mixed.attrs["pullback"] = pb("MixedPullback", mixed)
        space = Obj("space", ufl_domain=lambda dom=dom: dom)

        def make_arg(name, number):
            t = terminal(name, (N,), "Argument")
            t.tags.update(number=lambda: number, part=lambda: None, ufl_function_space=lambda: space, ufl_element=lambda: mixed, _number=number)
            return t

        v, u = make_arg("v", 0), make_arg("u", 1)
        f = terminal("f", (N,), "Coefficient")
        g = terminal("g", (), "Coefficient")
        i, j = new_index(), new_index()
        cm, _ = uflmodel.base_models()
        fam1 = [
            ("v[k]*f[k]", mult(idx(v, i), idx(f, i))),
            ("sum over fixed components v[k]*f[k]", _sum([P(idx(v, k), idx(f, k)) for k in range(N)])),
            ("g*v[0] + v[N-1]", S(P(g, idx(v, 0)), idx(v, N - 1))),
            ("v('+')[k]*f[k]", mult(idx(cm["PositiveRestricted"](v), i), idx(f, i))),
        ]
        fam2 = [
            ("u[k]*v[k]", mult(idx(u, i), idx(v, i))),
            ("u[k]*f[k]*v[l]*f[l]", P(mult(idx(u, i), idx(f, i)), mult(idx(v, j), idx(f, j)))),
            ("u[0]*v[N-1] + g*u[N-1]*v[0]", S(P(idx(u, 0), idx(v, N - 1)), P(g, P(idx(u, N - 1), idx(v, 0))))),
            ("sum_{k} u[k]*v[N-1-k]", _sum([P(idx(u, k), idx(v, N - 1 - k)) for k in range(N)])),
        ]

        def projected(e, arg, name, block, rename=None):
            """e with the components of `arg` outside sub-function `block` zeroed (optionally renamed)"""
            table = {}
            for k in range(N):
                nm = f"{name}[{k}]"
                inside = offs[block] <= k < offs[block] + sizes[block]
                if not inside:
                    table[nm] = sym.ZERO
                elif rename:
                    table[nm] = rename(k - offs[block])
            # restricted symbols
            full = {}
            for ex in e.data.values():
                for s_ in sym.symbols_of(ex):
                    base, _, side = s_.partition("@")
                    if base in table:
                        val = table[base]
                        if side and val is not sym.ZERO:
                            val = uflmodel.restrict(T.scalar(val), side).get()
                        full[s_] = val
            return subst_symbols(e, full)

        for replace in (False, True):
            for arity, fam in ((1, fam1), (2, fam2)):
                for desc, e in fam:
                    blocks = [(bi, None) for bi in range(len(subs))] if arity == 1 else [(bi, bj) for bi in range(len(subs)) for bj in range(len(subs))]
                    def renamer(number, block, replace=replace):
                        if not replace:
                            return None
                        shape = subs[block].attrs["phys_shape"]
                        comps = list(itertools.product(*[range(d) for d in shape]))
                        nm = f"a{number}_{block}"
                        return lambda r: sym.sym(nm if not shape else f"{nm}[{','.join(map(str, comps[r]))}]")

                    def harness():
                        H = PassHarness(ctx, CLS, gdim=dom.attrs["geometric_dimension"], tdim=dom.attrs["topological_dimension"])
                        ip = H.ip
                        ip.overrides["np"] = np_model()
                        new_args = {}

                        def m_function_space(d, el):
                            shape = el.attrs["phys_shape"]
                            lifted = ip.call_function(prog.lookup(el.attrs["pullback"].attrs["__class__"], "physical_value_shape"), [el, d], {}, self_obj=el.attrs["pullback"])
                            if tuple(lifted) != tuple(shape):
                                raise AnalysisError(f"physical_value_shape {tuple(lifted)} != modelled layout {shape}")
                            return Obj("space", ufl_domain=lambda: d, value_shape=tuple(shape), element=el)

                        def m_argument(Q, number, part=None):
                            key = (number, id(Q.attrs["element"]))
                            if key not in new_args:
                                k = subs.index(Q.attrs["element"]) if Q.attrs["element"] in subs else f"sub{len(new_args)}"
                                t = terminal(f"a{number}_{k}", Q.attrs["value_shape"], "Argument")
                                t.tags.update(number=lambda: number, part=lambda: part, ufl_function_space=lambda Q=Q: Q, ufl_element=lambda Q=Q: Q.attrs["element"], _number=number)
                                new_args[key] = t
                            return new_args[key]

                        # as_vector builds a ListTensor node (so that FormSplitter.indexed's folding of fixed indices is exercised)
                        ip.overrides["as_vector"] = lambda comps: ip.class_models["ListTensor"](*list(comps))

                        # obj[k] on an expression node builds an Indexed node (so that a result can be traversed again)
                        def subscript_hook(obj, key, node_):
                            if not (isinstance(obj, T) and obj.tags.get("ufl_class")):
                                return NotImplemented
                            k = tuple(key) if isinstance(key, (tuple, list)) else (key,)
                            k = tuple(int(x) if isinstance(x, int) and not isinstance(x, bool) else x for x in k)
                            if len(k) != len(obj.shape) or not all(isinstance(x, int) or hasattr(x, "id") for x in k):
                                return NotImplemented
                            if obj.tags.get("ufl_class") == "ListTensor" and len(k) == 1 and isinstance(k[0], int):
                                if not -len(obj.tags["ufl_operands"]) <= k[0] < len(obj.tags["ufl_operands"]):
                                    raise LiftRaise(f"IndexError: index {k[0]} out of range for a list tensor with {len(obj.tags['ufl_operands'])} components")
                                return obj.tags["ufl_operands"][k[0]]  # ListTensor.__getitem__ with a fixed index
                            return uflmodel.m_indexed(obj, MI(k))

                        ip.subscript_hook = subscript_hook
                        ip.class_models["FunctionSpace"] = m_function_space
                        ip.class_models["Argument"] = m_argument
                        side_cls = {"+": ip.class_models["PositiveRestricted"], "-": ip.class_models["NegativeRestricted"]}
                        ip.call_value = lambda t, args, kw: side_cls[args[0]](t)
                        return H

                    if arity == 2:
                        # ---- the whole table: extract_blocks(form) interpreted from source with the real splitter ----
                        H = harness()
                        ip = H.ip

                        class FormOne:
                            """a form with one integral (host object): what extract_blocks needs of a form"""

                            __lift_host__ = True

                            def __init__(self, integrand):
                                self.integrand = integrand

                            def arguments(self):
                                return (v, u)

                            def empty(self):
                                return bool(as_T(self.integrand).is_zero_literal)

                        def m_splitter(replace_argument=True, H=H):
                            H.init(replace_argument)
                            return H.selfobj

                        ip.class_models["FormSplitter"] = m_splitter
                        ip.overrides["map_integrand_dags"] = lambda fn_, form, *a_, H=H, FormOne=FormOne, **k_: FormOne(H.map_expr_dag(fn_, form.integrand))
                        xb = prog.get_function("ufl.algorithms.formsplitter", "extract_blocks")
                        ttag = f"extract_blocks({desc}) [{lname}; replace_argument={replace}]"
                        try:
                            table = ip.call_function(xb, [FormOne(e)], {"replace_argument": replace})
                        except LiftRaise as ex:
                            rep.violation("C22-table", xb, ttag, f"{ttag} fails: {ex.what[:160]}")
                            table = None
                        if table is not None:
                            good = len(table) == len(subs) and all(len(r_) == len(subs) for r_ in table)
                            if not good:
                                rep.violation("C22-table", xb, ttag, f"{ttag}: the table has {len(table)} rows for {len(subs)} sub-functions")
                            for bi in range(len(subs)) if good else ():
                                for bj in range(len(subs)):
                                    want = projected(projected(e, v, "v", bi, renamer(0, bi)), u, "u", bj, renamer(1, bj))
                                    entry = table[bi][bj]
                                    got = T.zero(()) if entry is None else as_T(entry.integrand)
                                    ok, how, wit = equal_T(got, want, rng=ctx.rng) if got.shape == want.shape else (False, "shape", f"{got.shape}")
                                    if not ok:
                                        good = False
                                        rep.violation("C22-table", xb, f"{ttag} entry ({bi},{bj})", f"{ttag}: entry ({bi},{bj}) of the table {'is None, which is not' if entry is None else 'is not'} the integrand restricted to test sub-function {bi} and trial sub-function {bj} ({how}): {wit}", witness=wit)
                            if good:
                                rep.ok("C22-table", xb, f"{ttag}: every entry of the {len(subs)}x{len(subs)} table is the integrand restricted to its test / trial sub-functions; the table sums to the form")
                    for bi, bj in blocks:
                        H = harness()
                        ip = H.ip
                        n_blocks += 1
                        tag = f"block ({bi}{'' if bj is None else ',' + str(bj)}) of {desc} [{lname}; replace_argument={replace}]"
                        try:
                            H.init(replace)
                            split = prog.lookup(cls, "split")
                            got = as_T(ip.call_function(split, [e, bi, bj], {}, self_obj=H.selfobj))
                        except LiftRaise as ex:
                            rep.violation("C22-block", cls, tag, f"extracting {tag} fails: {ex.what}")
                            continue

                        want = projected(e, v, "v", bi, renamer(0, bi))
                        if arity == 2:
                            want = projected(want, u, "u", bj, renamer(1, bj))
                        ok, how, wit = equal_T(got, want, rng=ctx.rng)
                        if ok:
                            rep.ok("C22-block", cls, f"{tag}: equals the integrand with the other sub-functions zeroed ({how})")
                        else:
                            rep.violation("C22-block", cls, tag, f"{tag} is not the integrand restricted to test sub-function {bi}" + (f" and trial sub-function {bj}" if bj is not None else "") + f" ({how}): {wit}", witness=wit)
    if n_blocks < 150:
        raise AnalysisError(f"only {n_blocks} blocks extracted")
    # ---- MixedFunctionSpace path (arguments with parts) --------------------------------------------
    for part, want_idx, expect_kept in ((0, 0, True), (1, 0, False), (1, 1, True), (0, None, False)):
        H = PassHarness(ctx, CLS)
        a = terminal("ap", (2,), "Argument")
        a.tags.update(number=lambda: 0, part=lambda part=part: part)
        H.init(True)
        H.selfobj.attrs["idx"] = [want_idx, None]
        h = H.handler_for(a)
        got = as_T(H.ip.call_function(h.func, [a], {}, self_obj=H.selfobj))
        kept = got is a
        zero = got.is_zero_literal and got.shape == (2,)
        if (expect_kept and kept) or (not expect_kept and zero):
            rep.ok("C22-parts", h.func, f"argument with part {part}, requested block {want_idx}: {'kept' if kept else 'Zero of the same shape'}")
        else:
            rep.violation("C22-parts", h.func, f"part {part} vs block {want_idx}", f"argument with part {part} for requested block {want_idx}: expected {'the argument' if expect_kept else 'a zero of shape (2,)'}, got {got!r}")
    rep.require_min("C22-block", 150)
    rep.require_min("C22-table", 20)
    rep.require_min("C22-parts", 4)
    rep.explanation = (
        f"FormSplitter.split lifted on rank-1 and rank-2 integrands over three mixed-element layouts (incl. sub-elements whose reference and physical sizes differ) "
        f"in both replace_argument modes: {n_blocks} blocks, each compared exactly with the integrand in which all other sub-functions are zeroed; "
        "physical_value_shape of each sub-element is lifted from pullback.py and cross-checked with the modelled layout."
    )
    rep.assumptions = ["bilinear / linear integrands (so that the projected integrands sum to the original)", "extract_blocks' bookkeeping over Forms (empty blocks, arities) is not lifted"]
    # ---- extract_blocks on MixedFunctionSpace forms: every block pattern ----------------------------------------
    n_pat = check_extract_blocks(ctx, rep)
    rep.counts["block_patterns"] = n_pat
    from ..memokey import memo_rule

    return rep


def _sum(terms):
    acc = terms[0]
    for t in terms[1:]:
        acc = uflmodel.m_sum(acc, t)
    return acc
