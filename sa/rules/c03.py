"""C03 -- spatial derivatives are lowered to exact derivatives of terminals (partial: see run())."""

from __future__ import annotations

import itertools

from .. import sym, uflsem
from ..lift import LiftRaise
from ..report import Report
from ..uflsem import T


def d(k, e):
    """oracle: d/dx_k of the symbol e (same naming as uflsem.deriv_ex)"""
    assert e.op == "s"
    return sym.sym(f"d{k}({e.args[0]})")


def check_compound_derivatives(ctx, rep: Report, lower, prefix="C03-lower/"):
    """div / nabla_div / nabla_grad / curl handlers of LowerCompoundAlgebra against the index
    definitions in the docstrings of ufl/operators.py."""
    from .c06 import cmp_scalar, levi

    def chk(tname, what, h, got, want):
        cmp_scalar(rep, prefix + tname, h.func, what, got, want, ctx)

    for gdim in (2, 3):
        shapes = [(gdim,), (2, gdim), (gdim, gdim)] + ([(2, 2, gdim)] if ctx.thorough() else [])
        for sh in shapes:
            a = T.symbolic("a", sh)
            # div(T)[c] = sum_i d_i T[c, i]
            h, got = lower("Div", a, gdim=gdim)
            data = {}
            for c in itertools.product(*[range(x) for x in sh[:-1]]):
                acc = sym.ZERO
                for i in range(gdim):
                    acc = sym.add(acc, d(i, a.get(c + (i,))))
                data[(c, ())] = acc
            chk("Div", f"div shape {sh} gdim {gdim}", h, got, T(sh[:-1], (), (), data))
        for sh in [(gdim,), (gdim, 2), (gdim, gdim)]:
            a = T.symbolic("a", sh)
            # nabla_div(T)[c] = sum_i d_i T[i, c]
            h, got = lower("NablaDiv", a, gdim=gdim)
            data = {}
            for c in itertools.product(*[range(x) for x in sh[1:]]):
                acc = sym.ZERO
                for i in range(gdim):
                    acc = sym.add(acc, d(i, a.get((i,) + c)))
                data[(c, ())] = acc
            chk("NablaDiv", f"nabla_div shape {sh} gdim {gdim}", h, got, T(sh[1:], (), (), data))
        for sh in [(), (2,), (gdim,), (2, 3)]:
            a = T.symbolic("a", sh)
            # nabla_grad(T)[j, c] = d_j T[c]
            h, got = lower("NablaGrad", a, gdim=gdim)
            data = {}
            for j in range(gdim):
                for c in itertools.product(*[range(x) for x in sh]):
                    data[((j,) + c, ())] = d(j, a.get(c))
            chk("NablaGrad", f"nabla_grad shape {sh} gdim {gdim}", h, got, T((gdim,) + sh, (), (), data))
    # curl
    a = T.symbolic("a", ())
    h, got = lower("Curl", a, gdim=2)
    chk("Curl", "curl of scalar (2D)", h, got, T((2,), (), (), {((0,), ()): d(1, a.get()), ((1,), ()): sym.neg(d(0, a.get()))}))
    a = T.symbolic("a", (2,))
    h, got = lower("Curl", a, gdim=2)
    chk("Curl", "curl of 2-vector", h, got, T.scalar(sym.add(d(0, a.get((1,))), sym.neg(d(1, a.get((0,)))))))
    a = T.symbolic("a", (3,))
    h, got = lower("Curl", a, gdim=3)
    data = {}
    for i in range(3):
        acc = sym.ZERO
        for j in range(3):
            for k in range(3):
                e = levi(i, j, k)
                if e:
                    acc = sym.add(acc, sym.mul(sym.const(e), d(j, a.get((k,)))))
        data[((i,), ())] = acc
    chk("Curl", "curl of 3-vector", h, got, T((3,), (), (), data))
    a = T.symbolic("a", (4,))
    try:
        lower("Curl", a, gdim=3)
        rep.violation(prefix + "Curl", lower("Curl", T.symbolic("a", (3,)), gdim=3)[0].func, "curl shape guard", "curl of a 4-vector is not rejected")
    except LiftRaise:
        rep.ok(prefix + "Curl", "ufl/algorithms/apply_algebra_lowering.py", "curl rejects shape (4,)")
