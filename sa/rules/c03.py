"""C03 -- spatial derivatives are lowered to exact derivatives of terminals (partial: see run())."""

from __future__ import annotations

import itertools

from .. import sym, uflsem
from ..lift import LiftRaise
from ..report import Report
from ..uflsem import T


def d(k, e):
    """oracle: d/dx_k of the symbol e (same naming as uflsem.deriv_ex)"""
    assert e.op == "s"
    return sym.sym(f"d{k}({e.args[0]})")


def check_compound_derivatives(ctx, rep: Report, lower, prefix="C03-lower/"):
    """div / nabla_div / nabla_grad / curl handlers of LowerCompoundAlgebra against the index
    definitions in the docstrings of ufl/operators.py."""
    from .c06 import cmp_scalar, levi

    _lower = lower

    def lower(tname, *ops, gdim=3):  # noqa: F811
        try:
            return _lower(tname, *ops, gdim=gdim)
        except LiftRaise as e:
            if tname == "Curl" and ops and ops[0].shape == (4,):
                raise
            return e, None

    def chk(tname, what, h, got, want):
        if got is None:
            rep.violation(prefix + tname, "ufl/algorithms/apply_algebra_lowering.py", what, f"lowering of {what} raises on a well-formed operand: {h.what}", scope=f"LowerCompoundAlgebra.{tname.lower()}")
            return
        cmp_scalar(rep, prefix + tname, h.func, what, got, want, ctx)

    for gdim in (2, 3):
        shapes = [(gdim,), (2, gdim), (gdim, gdim)] + ([(2, 2, gdim)] if ctx.thorough() else [])
        for sh in shapes:
            a = T.symbolic("a", sh)
            # div(T)[c] = sum_i d_i T[c, i]
            h, got = lower("Div", a, gdim=gdim)
            data = {}
            for c in itertools.product(*[range(x) for x in sh[:-1]]):
                acc = sym.ZERO
                for i in range(gdim):
                    acc = sym.add(acc, d(i, a.get(c + (i,))))
                data[(c, ())] = acc
            chk("Div", f"div shape {sh} gdim {gdim}", h, got, T(sh[:-1], (), (), data))
        for sh in [(gdim,), (gdim, 2), (gdim, gdim)]:
            a = T.symbolic("a", sh)
            # nabla_div(T)[c] = sum_i d_i T[i, c]
            h, got = lower("NablaDiv", a, gdim=gdim)
            data = {}
            for c in itertools.product(*[range(x) for x in sh[1:]]):
                acc = sym.ZERO
                for i in range(gdim):
                    acc = sym.add(acc, d(i, a.get((i,) + c)))
                data[(c, ())] = acc
            chk("NablaDiv", f"nabla_div shape {sh} gdim {gdim}", h, got, T(sh[1:], (), (), data))
        for sh in [(), (2,), (gdim,), (2, 3)]:
            a = T.symbolic("a", sh)
            # nabla_grad(T)[j, c] = d_j T[c]
            h, got = lower("NablaGrad", a, gdim=gdim)
            data = {}
            for j in range(gdim):
                for c in itertools.product(*[range(x) for x in sh]):
                    data[((j,) + c, ())] = d(j, a.get(c))
            chk("NablaGrad", f"nabla_grad shape {sh} gdim {gdim}", h, got, T((gdim,) + sh, (), (), data))
    # curl
    a = T.symbolic("a", ())
    h, got = lower("Curl", a, gdim=2)
    chk("Curl", "curl of scalar (2D)", h, got, T((2,), (), (), {((0,), ()): d(1, a.get()), ((1,), ()): sym.neg(d(0, a.get()))}))
    a = T.symbolic("a", (2,))
    h, got = lower("Curl", a, gdim=2)
    chk("Curl", "curl of 2-vector", h, got, T.scalar(sym.add(d(0, a.get((1,))), sym.neg(d(1, a.get((0,)))))))
    a = T.symbolic("a", (3,))
    h, got = lower("Curl", a, gdim=3)
    data = {}
    for i in range(3):
        acc = sym.ZERO
        for j in range(3):
            for k in range(3):
                e = levi(i, j, k)
                if e:
                    acc = sym.add(acc, sym.mul(sym.const(e), d(j, a.get((k,)))))
        data[((i,), ())] = acc
    chk("Curl", "curl of 3-vector", h, got, T((3,), (), (), data))
    a = T.symbolic("a", (4,))
    try:
        lower("Curl", a, gdim=3)
        rep.violation(prefix + "Curl", lower("Curl", T.symbolic("a", (3,)), gdim=3)[0].func, "curl shape guard", "curl of a 4-vector is not rejected")
    except LiftRaise:
        rep.ok(prefix + "Curl", "ufl/algorithms/apply_algebra_lowering.py", "curl rejects shape (4,)")


# ---------------------------------------------------------------------------- run
import ast  # noqa: E402

from .. import uflmodel  # noqa: E402
from ..adlift import DT  # noqa: E402
from ..lift import Obj  # noqa: E402
from ..memokey import check_memo_keys  # noqa: E402
from ..model import AnalysisError, norm  # noqa: E402
from ..uflmodel import MI, new_index, node, terminal  # noqa: E402
from ..uflsem import as_T, equal_T  # noqa: E402

MOD = "ufl.algorithms.apply_derivatives"


DOMAIN_KINDS = {
    # kind: (coordinate degree, simplex cell, geometry is constant on each cell)
    "affine simplex": (1, True, True),
    "degree-1 non-simplex (multilinear map)": (1, False, False),
    "degree-2 simplex": (2, True, False),
}


def make_ruleset(ctx, name, init_args, gdim, tdim, kind="affine simplex"):
    """Harness whose `self` is produced by lifting the ruleset's own __init__."""
    from .c02 import Harness

    H = Harness(ctx, name, (), gdim=gdim, tdim=tdim)
    deg, simplex, const = DOMAIN_KINDS[kind]
    cel = Obj("coordinate element", embedded_superdegree=deg, embedded_subdegree=deg, pullback=Obj("pullback", is_identity=True))
    ucell = Obj("cell", is_simplex=lambda: simplex, topological_dimension=tdim)
    dom = Obj("domain", geometric_dimension=gdim, topological_dimension=tdim, ufl_coordinate_element=lambda: cel, ufl_cell=lambda: ucell, is_piecewise_linear_simplex_domain=lambda: const)
    dom.attrs["__class__"] = None
    H.domain = dom
    ip = H.ip
    ip.overrides["extract_unique_domain"] = lambda expr, expand_mesh_sequence=True: dom
    ip.overrides["is_cellwise_constant"] = lambda o: bool(as_T(o).tags.get("cellwise_constant", False))
    K = terminal("K", (tdim, gdim), "JacobianInverse", cellwise_constant=False)
    J = terminal("J", (gdim, tdim), "Jacobian", cellwise_constant=False)
    H.K, H.J = K, J
    ip.class_models["JacobianInverse"] = lambda d: K
    ip.class_models["Jacobian"] = lambda d: J
    prev = ip.isinstance_hook

    def hook(x, cls_):
        if getattr(cls_, "name", None) == "MeshSequence":
            return False
        return prev(x, cls_)

    ip.isinstance_hook = hook
    init = ctx.prog.lookup(H.cls, "__init__")
    H.selfobj.attrs.pop("_var_shape", None)
    ip.call_function(init, list(init_args), {}, self_obj=H.selfobj)
    H.var_shape = tuple(H.selfobj.attrs["_var_shape"])
    return H


def rgrad_oracle(o, K, gdim, tdim):
    """grad(o)[r, i] = sum_j K[j, i] * rgrad(o)[r, j]"""
    rg = uflmodel.grad_named(o, tdim, "D")
    data = {}
    for c in itertools.product(*[range(d) for d in o.shape]):
        for i in range(gdim):
            acc = sym.ZERO
            for j in range(tdim):
                acc = sym.add(acc, sym.mul(K.get((j, i)), rg.get(c + (j,))))
            data[(c + (i,), ())] = acc
    return T(o.shape + (gdim,), (), (), data)


def terminal_rules(ctx, rep):
    from .c02 import cmp

    rule = "C03-geo"
    for gdim, tdim in ((2, 2), (3, 3), (3, 2)):
        H = make_ruleset(ctx, "GradRuleset", [gdim], gdim, tdim)
        ip = H.ip
        if H.var_shape != (gdim,):
            rep.violation(rule + "/init", ctx.prog.lookup(H.cls, "__init__"), "GradRuleset._var_shape", f"GradRuleset({gdim}) differentiates w.r.t. a variable of shape {H.var_shape}, expected ({gdim},)")
            continue

        def app(tname, o):
            h = H.handler(tname)
            try:
                return h, ip.call_function(h.func, [o], {}, self_obj=H.selfobj)
            except LiftRaise as e:
                return h, e

        def expect(tname, o, want, what):
            h, got = app(tname, o)
            if isinstance(got, LiftRaise):
                rep.violation(rule + "/" + tname, h.func, what, f"{what}: rule raises on a representable input: {got.what}")
                return
            cmp(rep, rule + "/" + tname, h, f"{what} [gdim={gdim}, tdim={tdim}]", got, want, ctx)

        def expect_raise(tname, o, what):
            h, got = app(tname, o)
            if isinstance(got, LiftRaise):
                rep.ok(rule + "/" + tname, h.func, f"{what}: raises")
            else:
                rep.violation(rule + "/" + tname, h.func, what, f"{what}: expected an error, but a value is returned")

        x = terminal("x", (gdim,), "SpatialCoordinate", cellwise_constant=False)
        expect("SpatialCoordinate", x, uflsem.identity(gdim), "grad(x) = I")
        X = terminal("X", (tdim,), "CellCoordinate", cellwise_constant=False)
        expect("CellCoordinate", X, H.K, "grad(X) = K (Jacobian inverse)")
        for shape in ((), (2,), (2, 2)):
            f = terminal("f", shape, "Coefficient", cellwise_constant=False)
            expect("Coefficient", f, uflmodel.grad_named(f, gdim, "d"), f"grad(coefficient of shape {shape}) = Grad(f)")
            c = terminal("c", shape, "Coefficient", cellwise_constant=True)
            expect("Coefficient", c, T.zero(shape + (gdim,)), f"grad(cell-wise constant coefficient of shape {shape}) = 0")
            a = terminal("a", shape, "Argument", cellwise_constant=False)
            expect("Argument", a, uflmodel.grad_named(a, gdim, "d"), f"grad(argument of shape {shape}) = Grad(a)")
        # the geometry of the cell map is constant on a cell only for affine simplices: every way the rules decide
        # "constant" must agree with that on all three kinds of domain (the terminal's own answer is the oracle)
        for kind, (deg, simplex, const) in DOMAIN_KINDS.items():
            Hk = make_ruleset(ctx, "GradRuleset", [gdim], gdim, tdim, kind)
            for tname, shape in (("JacobianInverse", (tdim, gdim)), ("Jacobian", (gdim, tdim)), ("JacobianDeterminant", ()), ("FacetNormal", (gdim,)), ("CellVolume", ())):
                o = terminal("q", shape, tname, cellwise_constant=const)
                if tname == "JacobianInverse":
                    o = Hk.K  # the rule uses the operand itself as the inverse Jacobian
                    o.tags["cellwise_constant"] = const
                want = T.zero(shape + (gdim,)) if const else rgrad_oracle(o, Hk.K, gdim, tdim)
                h = Hk.handler(tname)
                try:
                    got = Hk.ip.call_function(h.func, [o], {}, self_obj=Hk.selfobj)
                except LiftRaise as e:
                    rep.violation(rule + "/" + tname, h.func, f"grad({tname}) on a {kind} mesh", f"grad({tname}) on a {kind} mesh raises {e.what[:100]}")
                    continue
                cmp(rep, rule + "/" + tname, h, f"grad({tname}) on a {kind} mesh is {'0' if const else 'the K^T-transformed reference gradient'} [gdim={gdim}, tdim={tdim}]", got, want, ctx)
        # generic geometric quantity: constant -> 0; else K_ji rgrad_rj
        g = terminal("n", (gdim,), "FacetNormal", cellwise_constant=True)
        expect("FacetNormal", g, T.zero((gdim, gdim)), "grad(cell-wise constant geometric quantity) = 0")
        g = terminal("n", (gdim,), "FacetNormal", cellwise_constant=False)
        expect("FacetNormal", g, rgrad_oracle(g, H.K, gdim, tdim), "grad(varying geometric quantity) = K^T-transformed reference gradient")
        detJ = terminal("detJ", (), "JacobianDeterminant", cellwise_constant=False)
        expect("JacobianDeterminant", detJ, rgrad_oracle(detJ, H.K, gdim, tdim), "grad(detJ) via reference gradient")
        expect("JacobianInverse", H.K, rgrad_oracle(H.K, H.K, gdim, tdim), "grad(K) via reference gradient")
        Kc = terminal("K", (tdim, gdim), "JacobianInverse", cellwise_constant=True)
        expect("JacobianInverse", Kc, T.zero((tdim, gdim, gdim)), "grad(cell-wise constant K) = 0")
        # reference value of a terminal / reference grad
        fobj = terminal("f", (2,), "Coefficient", cellwise_constant=False)
        el = Obj("element", pullback=Obj("pullback", __class__=ctx.prog.get_class("ufl.pullback.ContravariantPiola")))
        el.attrs["__class__"] = None
        fobj.tags["ufl_element"] = lambda: el
        rv = node(terminal("rv_f", (2,), "ReferenceValue"), "ReferenceValue", (fobj,), _ufl_is_in_reference_frame_=True, cellwise_constant=False)
        expect("ReferenceValue", rv, rgrad_oracle(rv, H.K, gdim, tdim), "grad(reference_value(f)) via reference gradient")
        rg = node(uflmodel.grad_named(rv, tdim, "D"), "ReferenceGrad", (rv,), _ufl_is_in_reference_frame_=True, cellwise_constant=False)
        expect("ReferenceGrad", rg, rgrad_oracle(rg, H.K, gdim, tdim), "grad(reference_grad(rv)) via reference gradient")
        bad = node(T.symbolic("q", (2,)), "Sum", (fobj, fobj))
        bad.tags["_ufl_is_in_reference_frame_"] = False
        rg_bad = node(uflmodel.grad_named(bad, tdim, "D"), "ReferenceGrad", (bad,), cellwise_constant=False)
        expect_raise("ReferenceGrad", rg_bad, "grad(reference_grad(non reference-frame operand))")
        rv_bad = node(T.symbolic("q", (2,)), "ReferenceValue", (bad,), cellwise_constant=False)
        bad.tags["_ufl_is_terminal_"] = False
        expect_raise("ReferenceValue", rv_bad, "grad(reference_value(non-terminal))")
        # nesting: Grad(Grad(f)) allowed, Grad(non-terminal) rejected
        f = terminal("f", (), "Coefficient", cellwise_constant=False)
        gf = node(uflmodel.grad_named(f, gdim, "d"), "Grad", (f,))
        expect("Grad", gf, uflmodel.grad_named(gf, gdim, "d"), "grad(grad(f)) = Grad(Grad(f))")
        s = node(T.symbolic("s", ()), "Sum", (f, f))
        gs = node(uflmodel.grad_named(s, gdim, "d"), "Grad", (s,))
        expect_raise("Grad", gs, "grad(grad(non-terminal)) must be rejected")
        for cls, fn in (("CellAvg", "cell_avg"), ("FacetAvg", "facet_avg")):
            o = ip.overrides[fn](f)
            expect(cls, o, T.zero((gdim,)), f"grad({fn}(f)) = 0")
        # helper grad_to_reference_grad itself, ranks 0..2
        fn_ = ctx.prog.get_function(MOD, "grad_to_reference_grad")
        for shape in ((), (2,), (2, 3)):
            o = terminal("o", shape, "Coefficient")
            try:
                got = ip.call_function(fn_, [o, H.K])
            except LiftRaise as e:
                rep.violation(rule + "/grad_to_reference_grad", fn_, f"grad_to_reference_grad shape {shape} gdim={gdim} tdim={tdim}", f"raises on a well-formed operand: {e.what}")
                continue
            ok, how, wit = equal_T(as_T(got), rgrad_oracle(o, H.K, gdim, tdim), rng=ctx.rng)
            if ok:
                rep.ok(rule + "/grad_to_reference_grad", fn_, f"shape {shape} gdim={gdim} tdim={tdim}: K[j,i]*rgrad[r,j] ({how})")
            else:
                rep.violation(rule + "/grad_to_reference_grad", fn_, f"grad_to_reference_grad shape {shape} gdim={gdim} tdim={tdim}", f"is not K[j,i]*ReferenceGrad(o)[r..,j]: {wit}", witness=wit)

        # ---- ReferenceGradRuleset -------------------------------------------------
        R = make_ruleset(ctx, "ReferenceGradRuleset", [tdim], gdim, tdim)
        rip = R.ip
        if R.var_shape != (tdim,):
            rep.violation("C03-ref/init", ctx.prog.lookup(R.cls, "__init__"), "ReferenceGradRuleset._var_shape", f"variable shape {R.var_shape}, expected ({tdim},)")
            continue

        def rexpect(tname, o, want, what):
            h = R.handler(tname)
            try:
                got = rip.call_function(h.func, [o], {}, self_obj=R.selfobj)
            except LiftRaise as e:
                if want is None:
                    rep.ok("C03-ref/" + tname, h.func, f"{what}: raises")
                else:
                    rep.violation("C03-ref/" + tname, h.func, what, f"{what}: raises {e.what}")
                return
            if want is None:
                rep.violation("C03-ref/" + tname, h.func, what, f"{what}: expected an error")
                return
            cmp(rep, "C03-ref/" + tname, h, f"{what} [gdim={gdim}, tdim={tdim}]", got, want, ctx)

        rexpect("CellCoordinate", X, uflsem.identity(tdim), "reference_grad(X) = I")
        rexpect("SpatialCoordinate", x, uflmodel.grad_named(x, tdim, "D"), "reference_grad(x) = ReferenceGrad(x)")
        rexpect("ReferenceValue", rv, uflmodel.grad_named(rv, tdim, "D"), "reference_grad(rv(f)) = ReferenceGrad(rv(f))")
        rexpect("ReferenceValue", rv_bad, None, "reference_grad(reference_value(non-terminal))")
        rexpect("Coefficient", f, None, "coefficient not wrapped in ReferenceValue")
        rexpect("Argument", terminal("a", (), "Argument"), None, "argument not wrapped in ReferenceValue")
        rexpect("Grad", gf, None, "Grad in reference ruleset")
        rexpect("ReferenceGrad", rg, uflmodel.grad_named(rg, tdim, "D"), "reference_grad(reference_grad(rv)) nests")
        gq = terminal("n", (gdim,), "FacetNormal", cellwise_constant=False)
        rexpect("FacetNormal", gq, uflmodel.grad_named(gq, tdim, "D"), "reference_grad(varying geometry) = ReferenceGrad")
        gq = terminal("n", (gdim,), "FacetNormal", cellwise_constant=True)
        rexpect("FacetNormal", gq, T.zero((gdim, tdim)), "reference_grad(constant geometry) = 0")


def dispatcher_rules(ctx, rep):
    """DerivativeRuleDispatcher: each derivative type is handed to its ruleset (a call-graph fact); the Grad /
    ReferenceGrad rules are interpreted with recording stand-ins for the rulesets on nodes whose operand axes and
    derivative axis differ in length: the ruleset is built for the length of the node's last axis and applied to the
    operand; terminal rules are interpreted (the terminal itself comes back); the Indexed rule is the index-plumbing
    homomorphism."""
    from .c02 import Harness, cmp

    disp = ctx.prog.get_class(f"{MOD}.DerivativeRuleDispatcher")
    tab = ctx.disp.dt_table(disp)
    ctx.crosscheck_dispatch({"DerivativeRuleDispatcher"})
    for tname, rs in (("Grad", "GradRuleset"), ("ReferenceGrad", "ReferenceGradRuleset"), ("VariableDerivative", "VariableRuleset"), ("CoefficientDerivative", "GateauxDerivativeRuleset"), ("BaseFormOperatorDerivative", "BaseFormOperatorDerivativeRuleset")):
        h = tab.get(tname)
        if h is None:
            raise AnalysisError(f"dispatcher has no rule for {tname}")
        src = norm(h.func.node)
        # call-graph fact: the rule refers to its ruleset class (constructed there or handed to a helper that does);
        # which ruleset, for which dimension, applied to what is decided by interpretation below and in C0x-compose
        refs = [n for n in ast.walk(h.func.node) if isinstance(n, ast.Name) and n.id == rs]
        if not refs:
            rep.violation("C03-dispatch", h.func, f"{tname} -> {rs}", f"the dispatcher rule for {tname} does not refer to {rs}")
            continue
        rep.ok("C03-dispatch", h.func, f"{tname} handled by a {rs}")
    # the ruleset is built for the length of the derivative node's last axis: the dispatcher rule interpreted with recording
    # stand-ins for the rulesets, on derivative nodes whose operand axes and derivative axis have different lengths
    for tname, rs in (("Grad", "GradRuleset"), ("ReferenceGrad", "ReferenceGradRuleset")):
        for opshape, dim in (((), 2), ((3,), 2), ((2,), 3), ((3, 3), 2)):
            Hd = Harness(ctx, "DerivativeRuleDispatcher", ())
            seen = []

            def ruleset(d, *a_, **k_):
                seen.append(d)
                r = Obj("ruleset")
                r.attrs["__class__"] = None
                r.attrs["__call__"] = lambda f_: ("expanded", f_)
                return r

            Hd.ip.class_models[rs] = ruleset
            Hd.init_from_source()
            f_ = terminal("f", opshape)
            o = node(T.symbolic("df", opshape + (dim,)), tname, (f_,))
            try:
                h, got = Hd.apply(tname, o, [f_])
            except LiftRaise as ex:
                rep.violation("C03-dispatch/dim", tab.get(tname).func, f"{tname} of an operand of shape {opshape}", f"the dispatcher rule raises: {ex.what[:100]}")
                continue
            if seen == [dim] and isinstance(got, tuple) and got[1] is f_:
                rep.ok("C03-dispatch/dim", h.func, f"{tname} node of shape {opshape + (dim,)}: a {rs} for dimension {dim} (the last axis) expands the operand")
            else:
                rep.violation("C03-dispatch/dim", h.func, f"{tname} node of shape {opshape + (dim,)}", f"the dispatcher builds {rs}{tuple(seen)} for a {tname} node of shape {opshape + (dim,)}: the derivative dimension is the length of the node's last axis, {dim}")
    # terminals are returned unchanged, unknown Derivative types raise
    for t in ctx.tm.concrete():
        h = tab.get(t.name)
        if t.traits["is_terminal"]:
            Ht = Harness(ctx, "DerivativeRuleDispatcher", ())
            o = terminal("t", (), t.name)
            try:
                _, got = Ht.apply(t.name, o, [])
                ok = got is o
            except (LiftRaise, AnalysisError):
                ok = False
            (rep.ok if ok else rep.violation)(*(("C03-dispatch/terminal", h.func, f"{t.name} returned unchanged") if ok else ("C03-dispatch/terminal", disp, t.name, f"terminal {t.name} is not returned unchanged by the dispatcher")))
        elif t.cls.is_subclass_of("Derivative") and not t.cls.is_subclass_of("CompoundDerivative") or t.name in ("Grad", "ReferenceGrad"):
            if h is None or h.func.name == "reuse_if_untouched" or "reuse_if_untouched" in norm(h.func.node.body[-1]):
                rep.violation("C03-dispatch/derivative", disp, t.name, f"derivative type {t.name} is passed through unexpanded by the dispatcher")
            else:
                rep.ok("C03-dispatch/derivative", h.func, f"{t.name} has an expansion rule or raises")
    # Indexed rule of the dispatcher (same plumbing as the ruleset rule, plus reuse guard)
    H = Harness(ctx, "DerivativeRuleDispatcher", ())
    A = terminal("A", (2, 3))
    for vs in ((), (2,)):
        Ap = terminal("Ap", (2, 3) + vs)
        i, j = new_index(), new_index()
        for key, kd in (((i, j), "free,free"), ((0, j), "fixed,free"), ((1, 2), "fixed,fixed")):
            o = uflmodel.m_indexed(A, MI(key))
            h, got = H.apply("Indexed", o, [Ap, MI(key)])
            want = uflsem.t_index(Ap, tuple(key) + (slice(None),) * len(vs))
            cmp(rep, "C03-dispatch/Indexed", h, f"Indexed with expanded operand of extra rank {len(vs)}, {kd}", got, want, ctx)
        o = uflmodel.m_indexed(A, MI((i, j)))
        h, got = H.apply("Indexed", o, [A, MI((i, j))])
        if got is o:
            rep.ok("C03-dispatch/Indexed", h.func, "untouched operand: node reused")
        else:
            cmp(rep, "C03-dispatch/Indexed", h, "untouched operand", got, o, ctx)


def run(ctx) -> Report:
    from .c02 import calc_instances, check_tables
    from .c06 import make_interp

    rep = Report("C03")
    # the memo-key clause first: it needs no interpretation, and what it finds is reported even if a later clause cannot follow the code
    from ..memokey import check_memo_keys, memo_rule  # noqa: F401
    check_memo_keys(ctx, rep, "C03-key", [MOD], only_functions=None)
    check_tables(ctx, rep, "C03", ["GradRuleset", "ReferenceGradRuleset"])
    lifted = calc_instances(ctx, rep, "GradRuleset", "C03", var_shapes=((2,),) + (((3,),) if ctx.thorough() else ()))
    calc_instances(ctx, rep, "ReferenceGradRuleset", "C03", var_shapes=((2,),))
    terminal_rules(ctx, rep)
    dispatcher_rules(ctx, rep)
    # compound differential operators
    lca = ctx.prog.get_class("ufl.algorithms.apply_algebra_lowering.LowerCompoundAlgebra")
    tab = ctx.disp.mf_table(lca)
    ip = make_interp(ctx)

    def lower(tname, *ops, gdim=3):
        h = tab.get(tname)
        if h is None:
            raise AnalysisError(f"LowerCompoundAlgebra has no handler for {tname}")
        ip.gdim = gdim
        return h, ip.call_function(h.func, [None, None] + list(ops))

    check_compound_derivatives(ctx, rep, lower, prefix="C03-lower/")
    from .c03_compose import compose_grad

    compose_grad(ctx, rep)
    from .c03_sequence import run_sequence

    rep.counts["mesh_sequence_cases"] = run_sequence(ctx, rep)
    rep.require_min("C03-sequence", 12)
    rep.require_min("C03-compose", 40)
    rep.require_min("C03-table", 270)
    rep.require_min("C03-calc", 100)
    rep.require_min("C03-geo", 60)
    rep.require_min("C03-ref", 25)
    rep.require_min("C03-lower", 20)
    rep.require_min("C03-dispatch", 60)
    rep.explanation = (
        "GradRuleset / ReferenceGradRuleset: dispatch tables (exhaustiveness, arity, zero rules); every generic operator rule "
        "lifted and compared with the formal derivative; every terminal rule lifted on symbolic terminals for (gdim,tdim) in "
        "{(2,2),(3,3),(3,2)} with the ruleset object produced by lifting its own __init__, and compared with the oracle "
        "(grad x = I, grad X = K, grad f = Grad f or 0 when cell-wise constant, geometry via K[j,i]*rgrad[r,j], nesting guards). "
        "Lowering of div/nabla_div/nabla_grad/curl compared with the index definitions of operators.py; the dispatcher's choice "
        "of ruleset and dimension checked on the AST. C03-compose: apply_derivatives interpreted from source on whole "
        "expressions (products, quotients, math functions, conditionals, index contractions, restricted operands, Piola-mapped "
        "reference values) under grad, grad(grad), div-like contractions, reference_grad and nested reference_grad, in one "
        "symbolic affine geometry; the result must mean the chain-rule derivative and apply derivatives to terminals only."
    )
    rep.assumptions = [
        "MeshSequence (mixed-domain) branches of the ReferenceValue/ReferenceGrad rules: flat sequences of up to four component meshes of equal dimensions (C03-sequence)",
        "is_cellwise_constant / extract_unique_domain are modelled as oracles on the symbolic terminals",
        "reference semantics as in sa/uflmodel.py; Grad/ReferenceGrad are derivations on the term algebra",
    ]
    return rep
