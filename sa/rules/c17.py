"""C17 -- restriction propagation preserves two-sided integrands.

RestrictionPropagator is lifted as a whole pass (sa/passlift.py) on structured symbolic integrands
whose terminals carry one symbol per cell side ('s@+', 's@-') and one for the unrestricted value.

  C17-value   the result means the same as the input for every pair of cell-side values consistent with
              continuity: symbols of continuous quantities (H1 coefficients, spatial coordinate, facet
              geometry) are identified across sides, and on affine non-manifold meshes n('-') = -n('+');
              on manifolds / non-affine meshes the two normals are independent.
  C17-once    in the result every side-dependent terminal (arguments, discontinuous coefficients,
              gradients, cell geometry, normals) carries exactly one restriction; side-independent ones
              (literals, constants, reference volumes, quadrature weights) carry none.
  C17-reject  integrands with a missing restriction on a side-dependent terminal, a double restriction, or a
              restriction in a non-facet integral are rejected.
  C17-policy  per terminal type, the policy assigned by the dispatch table is at least as strict as the
              oracle table (ignore < default < require/opposite); unknown terminal types fail loudly.
  C17-key     shared MEMO-KEY rule incl. the persistent vcaches of the per-side propagators.
"""

from __future__ import annotations

import ast
import itertools

from .. import corpus, sym, uflmodel, uflsem
from ..lift import Interp, LiftRaise, Obj, Unsupported
from ..model import AnalysisError, norm
from ..passlift import PassHarness, node_class
from ..report import Report
from ..uflmodel import MI, new_index, node, terminal
from ..uflsem import T, as_T, equal_T
from .c14 import argument

CLS = "ufl.algorithms.apply_restrictions.RestrictionPropagator"

# oracle: minimal policy per terminal type (reason)
IGNORE_OK = {
    "Zero", "IntValue", "FloatValue", "ComplexValue", "Identity", "PermutationSymbol", "Constant", "MultiIndex", "Label",
    "QuadratureWeight", "ReferenceCellVolume", "ReferenceFacetVolume", "FacetCoordinate",
}
DEFAULT_OK = {
    "SpatialCoordinate", "FacetJacobian", "FacetJacobianDeterminant", "FacetJacobianInverse", "FacetArea",
    "MinFacetEdgeLength", "MaxFacetEdgeLength", "FacetOrigin",
}
POLICY_RANK = {"_ignore_restriction": 0, "_default_restricted": 1, "_require_restriction": 2, "_opposite": 2, "_missing_rule": 3}


def sobolev_spaces(prog):
    """the declared Sobolev spaces of ufl.sobolevspace, built by interpreting their own declarations: `element in H1`,
    `space <= H1`, `min(spaces)` are then the library's own relations"""
    import ast as _ast

    ip = Interp(prog)
    ip.instantiable = {"SobolevSpace", "DirectionalSobolevSpace"}
    ip.overrides["inf"] = float("inf")
    ip.overrides["isinf"] = lambda x: x in (float("inf"), float("-inf"))
    g = ip.exec_module_level("ufl.sobolevspace", lambda st: isinstance(st, _ast.Assign) and isinstance(st.value, _ast.Call) and norm(st.value.func) in ("SobolevSpace", "DirectionalSobolevSpace"))
    if "H1" not in g or "L2" not in g:
        raise AnalysisError("ufl.sobolevspace no longer declares H1 and L2")
    return g


def install_spaces(ip, spaces):
    ip.instantiable |= {"SobolevSpace", "DirectionalSobolevSpace"}
    ip.overrides["inf"] = float("inf")
    ip.overrides["isinf"] = lambda x: x in (float("inf"), float("-inf"))
    for name, space in spaces.items():
        ip.overrides[name] = space  # one object per declared space in every interpreter


import re

_DSIDE = re.compile(r"^(D[\d,]+)\((.*)@([+-])\)$")


def canon(t: T, continuous, opposite) -> T:
    """identify the two sides of continuous symbols; n@- = -n@+ for `opposite` symbols"""
    memo = {}

    def rec(x):
        r = memo.get(x)
        if r is not None:
            return r
        if x.op == "s":
            nm = x.args[0]
            md = _DSIDE.match(nm)
            if md:  # D(f@side) is D(f)@side: restriction commutes with differentiation
                nm = f"{md.group(1)}({md.group(2)})@{md.group(3)}"
                x = sym.sym(nm)
            base, _, side = nm.partition("@")
            root = base.split("[")[0]
            if root in continuous and side:
                r = sym.sym(base)
            elif root in opposite and side == "-":
                r = sym.neg(sym.sym(base + "@+"))
            else:
                r = x
        elif x.op in ("c", "I", "cs"):
            r = x
        elif x.op == "+":
            r = sym.add(rec(x.args[0]), rec(x.args[1]))
        elif x.op == "*":
            r = sym.mul(rec(x.args[0]), rec(x.args[1]))
        elif x.op == "/":
            r = sym.div(rec(x.args[0]), rec(x.args[1]))
        else:
            r = sym.Ex(x.op, *[rec(a) if isinstance(a, sym.Ex) else a for a in x.args])
        memo[x] = r
        return r

    return t.map(rec)


def symbols(t: T):
    out = set()
    for ex in t.data.values():
        out |= sym.symbols_of(ex)
    return out


def run(ctx) -> Report:
    rep = Report("C17")
    prog = ctx.prog
    # the memo-key clause first: it needs no interpretation, and what it finds is reported even if a later clause cannot follow the code
    from ..memokey import check_memo_keys, memo_rule  # noqa: F401
    check_memo_keys(ctx, rep, "C17-key", ["ufl.algorithms.apply_restrictions"], min_sites=1)
    cls = prog.get_class(CLS)
    SP = sobolev_spaces(prog)
    ctx.crosscheck_dispatch({"RestrictionPropagator"})
    tab = ctx.disp.mf_table(cls)
    cm, _ = uflmodel.base_models(gdim=2, tdim=2)
    idx, mult = corpus.idx, corpus.mult
    P, S = uflmodel.m_product, uflmodel.m_sum
    pos, negr = cm["PositiveRestricted"], cm["NegativeRestricted"]

    def world(gdim, tdim, degree, in_h1=True):
        coord_el = Obj("element", embedded_superdegree=degree, sobolev_space=SP["H1" if in_h1 else "L2"], sub_elements=[])
        ucell = Obj("cell", cellname={1: "interval", 2: "triangle", 3: "tetrahedron"}[tdim], topological_dimension=tdim, is_simplex=True)
        dom = Obj(
            "domain",
            geometric_dimension=gdim,
            topological_dimension=tdim,
            ufl_coordinate_element=lambda: coord_el,
            ufl_cell=lambda: ucell,
            is_piecewise_linear_simplex_domain=lambda: degree <= 1 and in_h1,
        )
        dom.attrs["__class__"] = None
        affine = degree <= 1 and in_h1 and gdim == tdim

        def term(name, shape, klass, **tags):
            t = terminal(name, shape, klass, **tags)
            t.tags["domain"] = dom
            return t

        el_c = Obj("element", sobolev_space=SP["H1"], sub_elements=[])
        el_d = Obj("element", sobolev_space=SP["L2"], sub_elements=[])
        # mixed elements: as continuous as their weakest part
        el_m = Obj("element", sobolev_space=SP["L2"], sub_elements=[el_c, el_d])
        el_mc = Obj("element", sobolev_space=SP["H1"], sub_elements=[el_c, Obj("element", sobolev_space=SP["H2"], sub_elements=[])])
        el_mn = Obj("element", sobolev_space=SP["L2"], sub_elements=[Obj("element", sobolev_space=SP["H1"], sub_elements=[el_c, el_c]), Obj("element", sobolev_space=SP["HDiv"], sub_elements=[])])
        W = dict(
            dom=dom,
            affine=affine,
            v=argument("v", 0),
            fd=term("fd", (), "Coefficient", ufl_element=lambda: el_d),
            fc=term("fc", (), "Coefficient", ufl_element=lambda: el_c),
            fm=term("fm", (2,), "Coefficient", ufl_element=lambda: el_m),
            fmc=term("fmc", (2,), "Coefficient", ufl_element=lambda: el_mc),
            fmn=term("fmn", (4,), "Coefficient", ufl_element=lambda: el_mn),
            c=term("c", (), "Constant"),
            x=term("x", (gdim,), "SpatialCoordinate"),
            n=term("n", (gdim,), "FacetNormal"),
            h=term("h", (), "CellVolume"),
            fa=term("fa", (), "FacetArea"),
            w=term("qw", (), "QuadratureWeight"),
            two=uflmodel.m_scalar(2.0),
        )
        W["v"].tags["domain"] = dom
        return W

    def family(W):
        v, fd, fc, c, x, n, h, fa, w, two = (W[k] for k in ("v", "fd", "fc", "c", "x", "n", "h", "fa", "w", "two"))
        i = new_index()
        gfd = cm["Grad"](fd)
        E = []
        add = lambda d, e, valid=True: E.append((d, e, valid))  # noqa: E731
        add("v('+')*fd('-')", P(pos(v), negr(fd)))
        add("(v*fd)('+')", pos(P(v, fd)))
        add("(v*fd)('-') + v('+')*fd('+')", S(negr(P(v, fd)), P(pos(v), pos(fd))))
        add("fc*v('+')   (continuous coefficient unrestricted)", P(fc, pos(v)))
        add("fc('-')*v('+')", P(negr(fc), pos(v)))
        add("c*2.0*qw*v('-')", P(P(P(c, two), w), negr(v)))
        add("(c*v)('-')   (constant inside a restriction)", negr(P(c, v)))
        add("x[0]*v('+')", P(idx(x, 0), pos(v)))
        add("(x[0]*v)('-')", negr(P(idx(x, 0), v)))
        add("fa*v('+')", P(fa, pos(v)))
        add("h('+')*v('+') + h('-')*v('-')", S(P(pos(h), pos(v)), P(negr(h), negr(v))))
        add("n('+')[i]*n('-')[i]*v('+')", P(mult(idx(pos(n), i), idx(negr(n), i)), pos(v)))
        add("fd('+')*n('+')[0] + fd('-')*n('-')[0]   (jump)", P(S(P(pos(fd), idx(pos(n), 0)), P(negr(fd), idx(negr(n), 0))), pos(v)))
        add("(fd*n[1])('-')*v('-')", P(negr(P(fd, idx(n, 1))), negr(v)))
        add("grad(fd)('+')[0]*v('-')", P(idx(pos(gfd), 0), negr(v)))
        add("(grad(fd)[1]*v)('-')", negr(P(idx(gfd, 1), v)))
        # derivatives of continuous quantities are not continuous: the reference gradient of the coordinate field is
        # the Jacobian of the cell on that side
        rgx = cm["ReferenceGrad"](x)
        add("reference_grad(x)('-')[0,1]*v('-')", P(idx(negr(rgx), 0, 1), negr(v)))
        add("reference_grad(x)('+')[1,0]*v('-')", P(idx(pos(rgx), 1, 0), negr(v)))
        add("(reference_grad(x)[0,0]*v)('+') + (reference_grad(x)[0,0]*v)('-')", S(pos(P(idx(rgx, 0, 0), v)), negr(P(idx(rgx, 0, 0), v))))
        add("x('-')[0]*reference_grad(x)('-')[0,0]*v('+')", P(P(idx(negr(x), 0), idx(negr(rgx), 0, 0)), pos(v)))
        add("conditional(fc<c, v('+'), v('-'))", uflmodel.m_conditional(uflmodel.m_rel("<")(fc, c), pos(v), negr(v)))
        # invalid inputs
        add("v*fd   (no restriction in an interior facet integral)", P(v, fd), False)
        add("fd*v('+')   (discontinuous coefficient unrestricted)", P(fd, pos(v)), False)
        add("h*v('+')   (cell quantity unrestricted)", P(h, pos(v)), False)
        add("n[0]*v('+')   (normal unrestricted)", P(idx(n, 0), pos(v)), False)
        add("(v('+'))('-')   (double restriction)", negr(pos(v)), False)
        add("(fd('+')*v)('-')", negr(P(pos(fd), v)), False)
        add("grad(fd)[0]*v('+')   (gradient unrestricted)", P(idx(gfd, 0), pos(v)), False)
        # mixed elements
        fm, fmc, fmn = W["fm"], W["fmc"], W["fmn"]
        add("fm('+')[1]*v('-')   (H1 x L2 coefficient, restricted)", P(idx(pos(fm), 1), negr(v)))
        add("fmc[0]*v('+')   (H1 x H2 coefficient unrestricted: continuous)", P(idx(fmc, 0), pos(v)))
        add("fm[0]*v('+')   (H1 x L2 coefficient unrestricted)", P(idx(fm, 0), pos(v)), False)
        add("fm[1]*v('+')   (H1 x L2 coefficient unrestricted)", P(idx(fm, 1), pos(v)), False)
        add("fmn[0]*v('-')   ((H1 x H1) x HDiv coefficient unrestricted)", P(idx(fmn, 0), negr(v)), False)
        return E

    side_dependent_roots = {"v", "fd", "fm", "fmn", "h", "n", "d0(fd)", "d1(fd)", "D0(x", "D1(x"}
    independent_roots = {"c", "qw"}
    n_val = 0
    for gdim, tdim, degree, in_h1, label in ((2, 2, 1, True, "affine non-manifold"), (3, 2, 1, True, "affine manifold"), (2, 2, 2, True, "degree-2 mesh")):
        W = world(gdim, tdim, degree, in_h1)
        for desc, e, valid in family(W):
            for default in ("+", "-"):
                H = PassHarness(ctx, CLS, gdim=gdim, tdim=tdim)
                ip = H.ip
                ip.instantiable |= {"RestrictionPropagator"}
                install_spaces(ip, SP)
                ip.overrides["extract_unique_domain"] = lambda o, expand_mesh_sequence=True: W["dom"]
                side_cls = {"+": ip.class_models["PositiveRestricted"], "-": ip.class_models["NegativeRestricted"]}
                ip.call_value = lambda t, args, kw: side_cls[args[0]](t)

                def single_dispatch(obj):
                    def call(o, *args):
                        h = H.handler_for(o, H._table_of(obj))
                        return ip.call_function(h.func, [o] + list(args), {}, self_obj=obj)

                    return call

                prev = ip.on_instantiate

                def on_inst(o, k, prev=prev):
                    prev(o, k)
                    o.attrs["__call__"] = single_dispatch(o)

                ip.on_instantiate = on_inst
                H.selfobj.attrs["__call__"] = single_dispatch(H.selfobj)
                tag = f"{desc} [{label}, default side '{default}']"
                try:
                    H.init(None, {W["dom"]: default})
                    got = as_T(H.apply(e))
                    raised = None
                except LiftRaise as ex:
                    raised = ex.what
                if not valid:
                    if raised:
                        rep.ok("C17-reject", cls, f"{tag}: rejected")
                    else:
                        rep.violation("C17-reject", cls, f"accepted: {desc} [{label}]", f"apply_restrictions accepts {tag}, which has a missing or double restriction")
                    continue
                if raised:
                    rep.violation("C17-value", cls, f"{desc} [{label}]", f"apply_restrictions fails on {tag}: {raised}")
                    continue
                continuous = {"fc", "fmc", "x", "fa", "c", "qw"}  # continuous across the facet or side-independent
                opposite = {"n"} if W["affine"] else set()
                # meaning of the input: unrestricted continuous symbols are the common value
                a, b = canon(got, continuous, opposite), canon(e, continuous, opposite)
                ok, how, wit = equal_T(a, b, rng=ctx.rng)
                if not ok:
                    rep.violation("C17-value", cls, f"{desc} [{label}]", f"apply_restrictions changed the two-sided value of {tag} ({how}): {wit}", witness=wit)
                    continue
                n_val += 1
                bad = []
                for s_ in symbols(got):
                    root = s_.split("@")[0].split("[")[0]
                    nside = s_.count("@")
                    if root in side_dependent_roots and nside != 1:
                        bad.append(f"{s_} carries {nside} restrictions")
                    if root in independent_roots and nside != 0:
                        bad.append(f"side-independent {s_} is restricted")
                if bad:
                    rep.violation("C17-once", cls, f"{desc} [{label}]", f"after apply_restrictions on {tag}: {bad[:3]}")
                else:
                    rep.ok("C17-value", cls, f"{tag}: same two-sided value ({how}); every side-dependent terminal restricted exactly once")
        # cell integral: no default side, restrictions are an error
        H = PassHarness(ctx, CLS, gdim=gdim, tdim=tdim)
        H.ip.instantiable |= {"RestrictionPropagator"}
        install_spaces(H.ip, SP)
        H.ip.overrides["extract_unique_domain"] = lambda o, expand_mesh_sequence=True: W["dom"]
        side_cls = {"+": H.ip.class_models["PositiveRestricted"], "-": H.ip.class_models["NegativeRestricted"]}
        H.ip.call_value = lambda t, args, kw: side_cls[args[0]](t)
        try:
            H.init(None, {W["dom"]: None})
            got = H.apply(P(pos(W["v"]), W["fd"]))
            rep.violation("C17-reject", cls, "v('+')*fd in a cell integral", "a restriction inside a non-facet integral is accepted")
        except LiftRaise:
            rep.ok("C17-reject", cls, f"restriction in a cell integral rejected [{label}]")
    if n_val < 60:
        raise AnalysisError(f"only {n_val} value comparisons succeeded: family vacuous")
    # ---- policy table ------------------------------------------------------------------------
    for t in ctx.tm.concrete():
        if not t.traits["is_terminal"]:
            continue
        h = tab.get(t.name)
        pol = h.func.name if h is not None else None
        if t.name in ("Coefficient", "FacetNormal"):
            ok = pol in ("coefficient", "facet_normal")
            (rep.ok("C17-policy", h.func, f"{t.name}: dedicated rule") if ok else rep.violation("C17-policy", cls, t.name, f"{t.name} resolves to {pol}, expected its dedicated rule"))
            continue
        if pol not in POLICY_RANK:
            rep.violation("C17-policy", cls, f"{t.name} -> {pol}", f"terminal type {t.name} resolves to {pol}, not one of the restriction policies")
            continue
        need = 0 if t.name in IGNORE_OK else (1 if t.name in DEFAULT_OK else 2)
        if POLICY_RANK[pol] >= need:
            rep.ok("C17-policy", h.func, f"{t.name}: {pol} (oracle minimum: {['ignore', 'default', 'require'][need]})")
        else:
            rep.violation("C17-policy", h.func, f"{t.name} -> {pol}", f"terminal type {t.name} is side-dependent{' or only continuous' if need == 1 else ''} but resolves to the weaker policy {pol}")
    # unknown terminals fail loudly
    term_default = prog.lookup(cls, "terminal")
    if term_default is not None and getattr(term_default, "name", "") == "_missing_rule":
        rep.ok("C17-policy", term_default, "default for terminals is _missing_rule (raises)")
    else:
        rep.violation("C17-policy", cls, "terminal = ...", "the default rule for terminals no longer raises: new terminal types would pass unrestricted")
    from ..memokey import check_memo_keys

    rep.require_min("C17-value", 60)
    rep.require_min("C17-reject", 30)
    rep.require_min("C17-policy", 50)
    rep.explanation = (
        "RestrictionPropagator lifted on structured two-sided integrands (arguments, continuous / discontinuous coefficients, constants, "
        "coordinates, normals, cell and facet geometry, gradients; both default sides; affine non-manifold, affine manifold and degree-2 "
        "meshes): values compared under the continuity identifications, single-restriction discipline checked on the symbols of the "
        "result, ill-restricted inputs must be rejected; policy per terminal type compared with an oracle table."
    )
    rep.assumptions = ["continuity oracle: H1 coefficients, spatial coordinate and facet quantities agree across the facet; n('-') = -n('+') only on affine non-manifold meshes", "finite integrand family"]
    return rep
