"""C14 -- the arity check accepts exactly multilinear integrands (soundness direction).

check_integrand_arity + ArityChecker are lifted as a whole (sa/passlift.py) on a family of structured
symbolic integrands built from a test function v0, a trial function v1, a third argument v2 and
coefficients.  Whenever the lifted check *accepts* an integrand (in real or in complex mode), its
meaning must be

  C14-lin    additive and homogeneous in each form argument separately (exact identities on the lifted
             term: e[v := v'+v''] = e[v'] + e[v''],  e[v := s v] = s e[v]),
  C14-conj   in complex mode antilinear in the test function (e[v0 := s v0] = conj(s) e) and linear in
             every other argument,
  C14-args   depend on exactly the form's arguments.

Rejection is always safe for the property; to keep the check from going vacuous the number of accepted
integrands is bounded below.
C14-must   every normal exit of FormData.__init__ has run the arity check with the form's arguments and
           the complex_mode flag (must-pass-through on the AST).
The family contains every two-branch combinator (sum, list tensor, conditional, nested lists) over every
pair of branch kinds (v, conj(v), f*v, conj(v)*f, 0, 1.0 and the rank-2 analogues), so that merges of arities
with inconsistent conjugation or affine parts are exercised.  C14-key: shared MEMO-KEY rule.
"""

from __future__ import annotations

import ast
import itertools

from .. import corpus, sym, uflmodel, uflsem
from ..flow import call_pred, every_exit_passes, validation_functions
from ..lift import LiftRaise, Obj, Unsupported
from ..model import AnalysisError, norm
from ..passlift import PassHarness, node_class, node_operands
from ..report import Report
from ..uflmodel import MI, new_index, node, terminal
from ..uflsem import T, as_T

MOD = "ufl.algorithms.check_arities"


def argument(name, number, shape=(), part=None):
    t = terminal(name, shape, "Argument")
    t.tags.update(number=lambda: number, part=lambda: part, _number=number, _part=part)
    return t


def subst_symbols(e: T, table) -> T:
    memo = {}

    def rec(x):
        r = memo.get(x)
        if r is not None:
            return r
        if x.op == "s":
            r = table.get(x.args[0], x)
        elif x.op == "cs":
            r = sym.conj(table[x.args[0]]) if x.args[0] in table else x
        elif x.op in ("c", "I"):
            r = x
        elif x.op == "+":
            r = sym.add(rec(x.args[0]), rec(x.args[1]))
        elif x.op == "*":
            r = sym.mul(rec(x.args[0]), rec(x.args[1]))
        elif x.op == "/":
            r = sym.div(rec(x.args[0]), rec(x.args[1]))
        elif x.op == "f" and x.args[0] == "conj_of":
            r = sym.conj(rec(x.args[1]))
        else:
            r = sym.Ex(x.op, *[rec(a) if isinstance(a, sym.Ex) else a for a in x.args])
        memo[x] = r
        return r

    return e.map(rec)


def arg_symbols(a: T):
    return [ex.args[0] for ex in a.data.values()]


def family():
    cm, _ = uflmodel.base_models()
    idx, mult = corpus.idx, corpus.mult
    v = argument("v0", 0)
    u = argument("v1", 1)
    w2 = argument("v2", 2)
    vv = argument("V0", 0, (2,))
    uu = argument("V1", 1, (2,))
    f = terminal("f", (), "Coefficient")
    g = terminal("g", (), "Coefficient")
    fv = terminal("F", (2,), "Coefficient")
    i, j = new_index(), new_index()
    P, S, D = uflmodel.m_product, uflmodel.m_sum, uflmodel.m_division
    c = uflmodel.m_rel("<")(f, g)
    one = uflmodel.m_scalar(1.0)
    zero = uflmodel.m_zero(())
    two = uflmodel.m_scalar(2)
    Conj = cm["Conj"]
    lab = Obj("label", ufl_class="Label", ufl_operands=(), _ufl_is_terminal_=True)
    E = []

    def add(desc, e, args):
        E.append((desc, e, args))

    # rank 1
    add("f*v0", P(f, v), (v,))
    add("v0 + f   (affine)", S(v, f), (v,))
    add("(v0 + f)*g   (affine)", P(S(v, f), g), (v,))
    add("v0*v0", P(v, v), (v,))
    add("v0/f", D(v, f), (v,))
    add("f/v0", D(f, v), (v,))
    add("v0**2", uflmodel.m_power(v, two), (v,))
    add("sin(v0)", cm["Sin"](v), (v,))
    add("abs(v0)", cm["Abs"](v), (v,))
    add("conditional(f<g, v0, 0)", uflmodel.m_conditional(c, v, zero), (v,))
    add("conditional(f<g, 0, v0)", uflmodel.m_conditional(c, zero, v), (v,))
    add("conditional(f<g, v0, 1.0)   (affine)", uflmodel.m_conditional(c, v, one), (v,))
    add("conditional(f<g, v0, f*v0)", uflmodel.m_conditional(c, v, P(f, v)), (v,))
    add("conditional(v0<g, f, g)   (argument in the condition)", uflmodel.m_conditional(uflmodel.m_rel("<")(v, g), f, g), (v,))
    # compound conditions: an argument anywhere inside the condition gates the branch nonlinearly
    cv = uflmodel.m_rel(">")(v, zero)
    cf = uflmodel.m_rel(">")(f, zero)
    for dsc, cond in (
        ("And(f<g, v0>0)", uflmodel.m_and(c, cv)),
        ("And(v0>0, f<g)", uflmodel.m_and(cv, c)),
        ("Or(f<g, v0>0)", uflmodel.m_or(c, cv)),
        ("Or(v0>0, f<g)", uflmodel.m_or(cv, c)),
        ("Not(v0>0)", uflmodel.m_not(cv)),
        ("And(f<g, Not(v0>0))", uflmodel.m_and(c, uflmodel.m_not(cv))),
        ("And(And(f<g, f>0), v0>0)", uflmodel.m_and(uflmodel.m_and(c, cf), cv)),
        ("And(f<g, f>0)   (no argument in the condition)", uflmodel.m_and(c, cf)),
        ("Or(f<g, Not(f>0))   (no argument in the condition)", uflmodel.m_or(c, uflmodel.m_not(cf))),
    ):
        add(f"conditional({dsc}, v0, 0)", uflmodel.m_conditional(cond, v, zero), (v,))
    add("as_vector([v0, 0])[i]*F[i]", mult(idx(uflmodel.m_list_tensor(v, zero), i), idx(fv, i)), (v,))
    add("as_vector([v0, 1.0])[i]*F[i]   (affine)", mult(idx(uflmodel.m_list_tensor(v, one), i), idx(fv, i)), (v,))
    add("as_vector([v0, f])[i]*F[i]   (affine)", mult(idx(uflmodel.m_list_tensor(v, f), i), idx(fv, i)), (v,))
    add("as_vector([v0, f*v0])[i]*F[i]", mult(idx(uflmodel.m_list_tensor(v, P(f, v)), i), idx(fv, i)), (v,))
    add("V0[i]*F[i]", mult(idx(vv, i), idx(fv, i)), (vv,))
    add("V0[0]*F[1] + V0[1]*F[0]", S(P(idx(vv, 0), idx(fv, 1)), P(idx(vv, 1), idx(fv, 0))), (vv,))
    add("V0[i]*V0[i]", mult(idx(vv, i), idx(vv, i)), (vv,))
    add("v0('+')*f('-')", P(cm["PositiveRestricted"](v), cm["NegativeRestricted"](f)), (v,))
    add("variable(f*v0)", cm["Variable"](P(f, v), lab), (v,))
    add("f   (no argument although the form has one)", P(f, g), (v,))
    add("conj(v0)*f", P(Conj(v), f), (v,))
    add("conj(conj(v0))*f", P(Conj(Conj(v)), f), (v,))
    add("real(v0)*f", P(cm["Real"](v), f), (v,))
    # generated: every two-branch combinator over every pair of branch kinds (consistent and inconsistent
    # conjugation, linear and affine, zero) - the combinators merge the arities of their branches
    branches = [("v0", v), ("conj(v0)", Conj(v)), ("f*v0", P(f, v)), ("conj(v0)*f", P(Conj(v), f)), ("0", zero), ("1.0", one)]
    for (d1, b1), (d2, b2) in itertools.product(branches, repeat=2):
        if b1 is b2 and b1 in (zero, one):
            continue
        add(f"({d1}) + ({d2})", S(b1, b2), (v,))
        add(f"as_vector([{d1}, {d2}])[i]*F[i]", mult(idx(uflmodel.m_list_tensor(b1, b2), i), idx(fv, i)), (v,))
        add(f"conditional(f<g, {d1}, {d2})", uflmodel.m_conditional(c, b1, b2), (v,))
    branches2 = [("conj(v0)*v1", P(Conj(v), u)), ("v0*v1", P(v, u)), ("conj(v0)*conj(v1)", P(Conj(v), Conj(u))), ("0", zero)]
    for (d1, b1), (d2, b2) in itertools.product(branches2, repeat=2):
        if b1 is b2 and b1 is zero:
            continue
        add(f"as_vector([{d1}, {d2}])[i]*F[i]", mult(idx(uflmodel.m_list_tensor(b1, b2), i), idx(fv, i)), (v, u))
        add(f"as_vector([[{d1}, 0], [0, {d2}]])[i,j]*F[i]*F[j]   (nested list)", mult(mult(idx(uflmodel.m_list_tensor(uflmodel.m_list_tensor(b1, zero), uflmodel.m_list_tensor(zero, b2)), i, j), idx(fv, i)), idx(fv, j)), (v, u))
    # block systems: arguments with the same number and different parts are ONE argument of the form
    va, vb = argument("v0a", 0, (), 0), argument("v0b", 0, (), 1)
    ua, ub = argument("v1a", 1, (), 0), argument("v1b", 1, (), 1)
    add("f*v0a + g*v0b   (two blocks of the test function)", S(P(f, va), P(g, vb)), (va, vb))
    add("f*v0a*v0b   (quadratic in the test function)", P(f, P(va, vb)), (va, vb))
    add("v0b*(g*v0a)", P(vb, P(g, va)), (va, vb))
    add("as_vector([v0a,0])[0]*as_vector([0,v0b])[1]", P(idx(uflmodel.m_list_tensor(va, zero), 0), idx(uflmodel.m_list_tensor(zero, vb), 1)), (va, vb))
    add("conditional(f<g, v0a, 0)*v0b", P(uflmodel.m_conditional(c, va, zero), vb), (va, vb))
    add("v0a*v1b + v0b*v1a", S(P(va, ub), P(vb, ua)), (va, vb, ua, ub))
    add("(v0a*v1b)*(v0b*v1a)   (quadratic in both)", P(P(va, ub), P(vb, ua)), (va, vb, ua, ub))
    add("v0a*v1a + v0b*v1b", S(P(va, ua), P(vb, ub)), (va, vb, ua, ub))
    # rank 2
    add("v0*v1", P(v, u), (v, u))
    add("conj(v0)*v1", P(Conj(v), u), (v, u))
    add("v0*conj(v1)", P(v, Conj(u)), (v, u))
    add("conj(v0*v1)", Conj(P(v, u)), (v, u))
    add("f*v0*v1 + g*v1*v0", S(P(f, P(v, u)), P(g, P(u, v))), (v, u))
    add("v0*v1 + v0   (mixed arity)", S(P(v, u), v), (v, u))
    add("conj(v0)*v1 + conj(v0)", S(P(Conj(v), u), Conj(v)), (v, u))
    add("V0[i]*V1[i]", mult(idx(vv, i), idx(uu, i)), (vv, uu))
    add("conj(V0[i])*V1[i]", mult(Conj(idx(vv, i)), idx(uu, i)), (vv, uu))
    add("conj(V0[i])*V1[j]*F[i]*F[j]", mult(mult(Conj(idx(vv, i)), idx(fv, i)), mult(idx(uu, j), idx(fv, j))), (vv, uu))
    add("v0*v1/f", D(P(v, u), f), (v, u))
    add("v0/v1", D(v, u), (v, u))
    # an argument in a denominator next to a factor that is legitimately linear in the form's arguments
    add("v0*(f/v0)   (not linear: the quotient cancels the argument)", P(v, D(f, v)), (v,))
    add("v1*(f/v0)", P(u, D(f, v)), (v, u))
    add("v0*(f/(g + v0))", P(v, D(f, S(g, v))), (v,))
    add("v0*v1*(f/v0)", P(P(v, u), D(f, v)), (v, u))
    add("v0*(g/f)   (no argument in the denominator)", P(v, D(g, f)), (v,))
    add("conditional(f<g, conj(v0)*v1, 0)", uflmodel.m_conditional(c, P(Conj(v), u), zero), (v, u))
    add("conditional(f<g, v0, v1)", uflmodel.m_conditional(c, v, u), (v, u))
    add("as_vector([conj(v0)*v1, 0])[i]*F[i]", mult(idx(uflmodel.m_list_tensor(P(Conj(v), u), zero), i), idx(fv, i)), (v, u))
    add("as_vector([v0, v1])[i]*F[i]", mult(idx(uflmodel.m_list_tensor(v, u), i), idx(fv, i)), (v, u))
    add("v0*v0*v1", P(P(v, v), u), (v, u))
    add("v0   (form has two arguments)", P(f, v), (v, u))
    # rank 3
    add("f*v1*v2*v0", P(P(f, u), P(w2, v)), (v, u, w2))
    add("f*v1*v2*conj(v0)", P(P(f, u), P(w2, Conj(v))), (v, u, w2))
    add("f*v1*conj(v2)*conj(v0)", P(P(f, u), P(Conj(w2), Conj(v))), (v, u, w2))
    add("v1*conj(f*v2*v0)", P(u, Conj(P(f, P(w2, v)))), (v, u, w2))
    add("conj(v1)*v2*conj(v0)", P(Conj(u), P(w2, Conj(v))), (v, u, w2))
    return E


def is_linear_in(e: T, a, rng, antilinear=False, real_mode=False):
    """exact additivity + homogeneity of the lifted term in the symbols of argument a (a list of arguments: the
    parts of one argument number, varied jointly)"""
    parts = a if isinstance(a, (list, tuple)) else [a]
    base = set(s_ for p in parts for s_ in arg_symbols(p))
    a = parts[0]
    names = sorted({s_ for ex in e.data.values() for s_ in sym.symbols_of(ex) if s_.split("@")[0] in base})
    t1 = {n: sym.sym(n + "'") for n in names}
    t2 = {n: sym.sym(n + "''") for n in names}
    t12 = {n: sym.add(t1[n], t2[n]) for n in names}
    lam = sym.sym("λ")
    tl = {n: sym.mul(lam, sym.sym(n)) for n in names}
    e1, e2, e12, el = subst_symbols(e, t1), subst_symbols(e, t2), subst_symbols(e, t12), subst_symbols(e, tl)
    scale = sym.conj(lam) if antilinear else lam
    for key in e.data:
        ok, how, wit = sym.equal(e12.data[key], sym.add(e1.data[key], e2.data[key]), rng=rng, real_only=real_mode)
        if not ok:
            return False, f"not additive in {a.name}: {wit}"
        ok, how, wit = sym.equal(el.data[key], sym.mul(scale, e.data[key]), rng=rng, real_only=real_mode)
        if not ok:
            return False, f"not {'anti' if antilinear else ''}homogeneous in {a.name}: {wit}"
    return True, None


def depends_on(e: T, a: T):
    names = set(arg_symbols(a))
    for ex in e.data.values():
        if {s_.split("@")[0] for s_ in sym.symbols_of(ex)} & names:
            return True
    return False


def run(ctx) -> Report:
    rep = Report("C14")
    prog = ctx.prog
    # the memo-key clause first: it needs no interpretation, and what it finds is reported even if a later clause cannot follow the code
    from ..memokey import check_memo_keys, memo_rule  # noqa: F401
    memo_rule(ctx, rep, "C14-key", ['ufl.algorithms.check_arities'])
    ctx.crosscheck_dispatch({"ArityChecker"})
    fn = prog.get_function(MOD, "check_integrand_arity")
    acls = prog.get_class(f"{MOD}.ArityChecker")
    fam = family()
    counts = {"accepted": 0, "rejected": 0}
    for complex_mode in (False, True):
        for desc, e, args in fam:
            H = PassHarness(ctx, f"{MOD}.ArityChecker")
            ip = H.ip
            ip.instantiable |= {"ArityChecker"}
            import itertools as _it

            ip.overrides["chain"] = lambda *a: list(_it.chain(*[list(x) for x in a]))

            def terminals_of(o):
                seen, out, todo = set(), [], [o]
                while todo:
                    x = todo.pop()
                    if id(x) in seen:
                        continue
                    seen.add(id(x))
                    ops_ = node_operands(x)
                    if not ops_:
                        out.append(x)
                    todo.extend(ops_)
                return out

            ip.overrides["traverse_unique_terminals"] = terminals_of
            tag = f"{desc} [{'complex' if complex_mode else 'real'} mode, form arguments {[a.name for a in args]}]"
            try:
                ip.call_function(fn, [e, tuple(args), complex_mode], {})
                accepted = True
            except LiftRaise as ex:
                accepted = False
                if "ArityMismatch" not in ex.what:
                    rep.violation("C14-lin", fn, tag, f"arity check fails with {ex.what} instead of ArityMismatch")
                    continue
            if not accepted:
                counts["rejected"] += 1
                rep.ok("C14-reject", fn, f"{tag}: rejected")
                continue
            counts["accepted"] += 1
            bad = None
            by_number = {}
            for a in args:
                by_number.setdefault(a.tags["_number"], []).append(a)
            for number, group in sorted(by_number.items()):
                a = group[0]
                if not any(depends_on(e, p) for p in group):
                    bad = f"does not contain the form argument {a.name}"
                    break
                anti = complex_mode and number == 0
                ok, why = is_linear_in(e, group, ctx.rng, antilinear=anti, real_mode=not complex_mode)
                if not ok:
                    bad = why + (" (complex mode requires antilinearity in the test function)" if anti else "")
                    break
            if bad:
                rule = "C14-conj" if complex_mode and "homogeneous" in bad else ("C14-args" if "does not contain" in bad else "C14-lin")
                rep.violation(rule, acls, f"accepted: {desc} [{'complex' if complex_mode else 'real'} mode]", f"the arity check accepts {tag} but the integrand is {bad}")
            else:
                rep.ok("C14-lin", fn, f"{tag}: accepted; exactly {'sesqui' if complex_mode else 'multi'}linear in {[a.name for a in args]}")
    if counts["accepted"] < 25 or counts["rejected"] < 40:
        raise AnalysisError(f"family no longer exercises both outcomes: {counts}")
    # must-run
    fd = prog.get_class("ufl.algorithms.formdata.FormData")
    init = fd.methods["__init__"]
    # the module's validation functions, found by shape (they return nothing and raise, or call the public arity checker)
    checks = validation_functions(prog, "ufl.algorithms.formdata")
    arity_checks = [nm for nm, (_, is_arity) in checks.items() if is_arity]
    if len(checks) < 3 or len(arity_checks) != 1:
        raise AnalysisError(f"validation functions of ufl.algorithms.formdata: {sorted(checks)}, of which call the arity checker: {arity_checks} (confirmed: 3 / 1)")
    arity_name = arity_checks[0]
    for callee in checks:
        if every_exit_passes(init.node, call_pred(callee)):
            rep.ok("C14-must", init, f"every normal exit of FormData.__init__ has called {callee}")
        else:
            rep.violation("C14-must", init, f"{callee} on every path", f"FormData.__init__ can return without running {callee}")
    calls = [n for n in ast.walk(init.node) if isinstance(n, ast.Call) and norm(n.func) == arity_name]
    from ..memokey import _local_defs

    defs = _local_defs(init.node)

    def reaches(expr, pred, depth=4):
        """the expression, or a local definition it is a name for, satisfies pred"""
        if pred(expr):
            return True
        if depth and isinstance(expr, ast.Name):
            return any(reaches(d, pred, depth - 1) for d in defs.get(expr.id, []))
        return False

    is_arguments = lambda e: any(isinstance(n, ast.Call) and isinstance(n.func, ast.Attribute) and n.func.attr == "arguments" for n in ast.walk(e))  # noqa: E731
    is_mode = lambda e: any((isinstance(n, ast.Name) and n.id == "complex_mode") or (isinstance(n, ast.Attribute) and n.attr == "complex_mode") for n in ast.walk(e))  # noqa: E731
    if calls and len(calls[0].args) >= 3 and reaches(calls[0].args[1], is_arguments) and reaches(calls[0].args[2], is_mode):
        rep.ok("C14-must", (init, calls[0]), "arity check receives the original form's arguments and the complex_mode flag")
    else:
        rep.violation("C14-must", init, f"{arity_name}(...)", "the arity check is not called with the form's arguments and complex_mode")
    cfa = checks[arity_name][0]
    rep.ok("C14-must", cfa, f"{arity_name} delegates to ufl.algorithms.check_arities (resolved call)")
    rep.require_min("C14-lin", 25)
    rep.require_min("C14-reject", 40)
    rep.require_min("C14-must", 4)
    rep.counts.update(counts)
    rep.explanation = (
        f"check_integrand_arity/ArityChecker lifted on {len(fam)} structured integrands in real and complex mode; every accepted integrand's "
        "lifted term was shown additive and (anti)homogeneous in each form argument and to contain exactly the form's arguments "
        f"({counts['accepted']} accepted, {counts['rejected']} rejected); FormData.__init__ must run the check on every path."
    )
    rep.assumptions = ["compound tensor operators (inner/dot/outer) never reach the arity check as run by compute_form_data (they are lowered first): their handlers are not part of the claim", "soundness direction only (accepted => multilinear); rejecting a multilinear integrand is not a violation of the property", "finite integrand family"]
    from ..memokey import memo_rule

    return rep
