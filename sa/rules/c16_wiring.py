"""C16-sign / C16-adj / C16-act: the wrappers of ufl.algorithms.formtransformations interpreted from source with
recording stand-ins.

compute_form_lhs / _rhs / _functional / _action / _adjoint and compute_energy_norm are *wiring*: they pick
arguments, call compute_form_with_arity / extract_blocks / replace / map_integrands / action and combine the results
with + and unary -.  They are interpreted from source over stand-ins that record what is requested:

    form stand-in            arguments(), empty(); blocks by (part of test, part of trial) or by part of test
    compute_form_with_arity  ->  the formal term  part(F, k)            (a linear-combination record)
    replace(F, map)          ->  the formal term  F[map]
    map_integrands(Conj, X)  ->  conj(X)              action(a, c) -> action(a, c)
    Argument(space, number=, part=) / Coefficient(space)  ->  records compared by their fields

and the record that comes out is compared with the algebraic definition:

    lhs = part(F, 2)  (sum over the blocks for mixed spaces)       rhs = -part(F, 1)  (minus the sum over blocks)
    functional = part(F, 0)
    action(F, c) = F[u_last := c]; with parts F[u_k := c[k]] for every part k of the highest numbered argument
                   *by part*, whichever parts occur; without c a fresh Coefficient on the argument's space
    adjoint(F) = conj(F[v := Argument(space(v), number(u), part(u)), u := Argument(space(u), number(v), part(v))])
                 (per block for mixed spaces); anything but two arguments, or explicitly supplied arguments in the
                 old order, is refused
    energy_norm(a, c) = action(action(a, c), c), bilinear forms over one space only

No source text is matched: an edit that keeps the wiring keeps the records.
"""

from __future__ import annotations

import ast
import itertools

from ..lift import Interp, LiftRaise, Obj, Unsupported
from ..model import AnalysisError

MOD = "ufl.algorithms.formtransformations"


class Lin:
    """formal linear combination of atoms (host object: + and unary - are Python's)"""

    __lift_host__ = True

    def __init__(self, terms=None):
        self.terms = {k: v for k, v in (terms or {}).items() if v != 0}

    def __neg__(self):
        return Lin({k: -v for k, v in self.terms.items()})

    def __add__(self, o):
        if isinstance(o, int) and o == 0:
            return self
        if not isinstance(o, Lin):
            return NotImplemented
        t = dict(self.terms)
        for k, v in o.terms.items():
            t[k] = t.get(k, 0) + v
        return Lin(t)

    __radd__ = __add__

    def __sub__(self, o):
        return self + (-o)

    def __rmul__(self, k):
        return Lin({a: k * v for a, v in self.terms.items()})

    def __eq__(self, o):
        if isinstance(o, int):
            return o == 0 and not self.terms
        return isinstance(o, Lin) and self.terms == o.terms

    def __hash__(self):
        return hash(tuple(sorted(map(repr, self.terms.items()))))

    def __bool__(self):
        return bool(self.terms)

    # a part of a form is a form
    def empty(self):
        return not self.terms

    def integrals(self):
        return list(self.terms)

    def arguments(self):
        out = []
        for atom in self.terms:
            if atom[0] == "part":
                for a in atom[3]:
                    if not any(a is x for x in out):
                        out.append(a)
            elif atom[0] == "form":
                for a in FORMS[atom[1]].attrs["_args"]:
                    if not any(a is x for x in out):
                        out.append(a)
        return tuple(sorted(out, key=lambda a: (a.attrs["_number"], -1 if a.attrs["_part"] is None else a.attrs["_part"])))

    def __repr__(self):
        return " + ".join(f"{v}*{k[:3] if k[0] == 'part' else k}" for k, v in self.terms.items()) or "0"


FORMS: dict = {}


class FormRec:
    """form stand-in (host object): knows its arguments and blocks; used in arithmetic it is the formal term form(name)"""

    __lift_host__ = True

    def __init__(self, name, args, blocks2=None, blocks1=None):
        self.attrs = dict(_name=name, _args=tuple(args), _blocks2=blocks2, _blocks1=blocks1)
        FORMS[name] = self

    def arguments(self):
        return self.attrs["_args"]

    def empty(self):
        return False

    def _lin(self):
        return Lin({("form", self.attrs["_name"]): 1})

    def __neg__(self):
        return -self._lin()

    def __add__(self, o):
        return self._lin() + (o._lin() if isinstance(o, FormRec) else o)

    __radd__ = __add__

    def __sub__(self, o):
        return self._lin() - (o._lin() if isinstance(o, FormRec) else o)

    def __rmul__(self, k):
        return k * self._lin()

    def __repr__(self):
        return f"form({self.attrs['_name']})"


def arg_key(a):
    return ("arg", a.attrs["_space"].attrs["name"], a.attrs["_number"], a.attrs["_part"]) if a.kind == "argument" else ("coef", a.attrs["_tag"])


def run_wiring(ctx, rep):
    prog = ctx.prog
    f = {n: prog.get_function(MOD, n) for n in ("compute_form_lhs", "compute_form_rhs", "compute_form_functional", "compute_form_action", "compute_form_adjoint", "compute_energy_norm")}

    def argument(space, number, part=None):
        o = Obj("argument", _space=space, _number=number, _part=part)
        o.attrs["__class__"] = None
        o.attrs.update(number=lambda: number, part=lambda: part, ufl_function_space=lambda: space)
        return o

    serial = itertools.count()

    def coefficient(space):
        o = Obj("coefficient", _space=space, _tag=f"c{next(serial)} in {space.attrs['name']}")
        o.attrs["__class__"] = None
        o.attrs["ufl_function_space"] = lambda: space
        return o

    def form(name, args, blocks2=None, blocks1=None):
        return FormRec(name, args, blocks2, blocks1)

    def make_ip():
        ip = Interp(prog)
        ip.class_models["Argument"] = lambda space, number=None, part=None: argument(space, number, part)
        ip.class_models["Coefficient"] = lambda space: coefficient(space)
        ip.overrides["compute_form_with_arity"] = lambda F, arity, arguments=None: Lin({("part", F.attrs["_name"], arity, tuple(a for a in F.attrs["_args"] if a.attrs["_number"] < arity)): 1}) if len(F.attrs["_args"]) >= arity else Lin()
        ip.overrides["replace"] = lambda F, mp: Lin({("replace", F.attrs["_name"], tuple(sorted((arg_key(k), arg_key(v)) for k, v in mp.items()))): 1})
        ip.overrides["map_integrands"] = lambda fn, X: Lin({("conj" if getattr(fn, "name", None) == "Conj" else "mapped", k): v for k, v in X.terms.items()})
        ip.overrides["action"] = lambda a, c: Lin({("action", a.attrs["_name"] if isinstance(a, FormRec) else tuple(a.terms.items()), arg_key(c)): 1})
        ip.overrides["extract_blocks"] = lambda F, arity=2, **k: F.attrs["_blocks2"] if arity == 2 else F.attrs["_blocks1"]
        ip.overrides["logger"] = Obj("logger", debug=lambda *a, **k: None, warning=lambda *a, **k: None)

        def compare(op, a, b, node_, prev=ip.compare):
            if isinstance(a, Obj) and a.kind == "space" and isinstance(b, Obj) and b.kind == "space":
                return (a is b) == (op is ast.Eq) if op in (ast.Eq, ast.NotEq) else prev(op, a, b, node_)
            if isinstance(a, Lin) or isinstance(b, Lin):
                if op is ast.Eq:
                    return a == b
                if op is ast.NotEq:
                    return not (a == b)
            return prev(op, a, b, node_)

        ip.compare = compare
        return ip

    def call(name, *args):
        return make_ip().call_function(f[name], list(args), {})

    def tried(name, *args):
        """the record requested, or the refusal"""
        try:
            return call(name, *args)
        except LiftRaise as ex:
            return f"<raises {ex.what[:90]}>"

    def expect(rule, name, what, got, want):
        if isinstance(got, Lin) and got == want:
            rep.ok(rule, f[name], f"{name}: {what}")
        else:
            rep.violation(rule, f[name], f"{name}: {what}", f"{name} on {what} requests {got!r}, the definition is {want!r}")

    def expect_raise(rule, name, what, *args):
        try:
            r = call(name, *args)
            rep.violation(rule, f[name], f"{name}: {what}", f"{name} accepts {what} (returns {r!r}) instead of refusing")
        except LiftRaise:
            rep.ok(rule, f[name], f"{name}: {what} is refused")

    V, U, Q = Obj("space", name="V"), Obj("space", name="U"), Obj("space", name="Q")
    for s in (V, U, Q):
        s.attrs["__class__"] = None
    # ------------------------------------------------------------------ plain forms (no parts)
    v, u = argument(V, 0), argument(U, 1)
    a = form("a", (v, u))
    L = form("L", (v,))
    M = form("M", ())
    part = lambda F, k: Lin({("part", F.attrs["_name"], k, tuple(x for x in F.attrs["_args"] if x.attrs["_number"] < k)): 1})  # noqa: E731
    for F in (a, L, M):
        nm = F.attrs["_name"]
        if len(F.attrs["_args"]) >= 2:
            expect("C16-sign", "compute_form_lhs", f"form {nm} with {len(F.attrs['_args'])} argument(s)", tried("compute_form_lhs", F), part(F, 2))
        if len(F.attrs["_args"]) >= 1:
            expect("C16-sign", "compute_form_rhs", f"form {nm} with {len(F.attrs['_args'])} argument(s)", tried("compute_form_rhs", F), -part(F, 1))
        expect("C16-sign", "compute_form_functional", f"form {nm}", tried("compute_form_functional", F), part(F, 0))
    # ------------------------------------------------------------------ mixed spaces: arguments with parts
    spaces = (V, U, Q)

    def mixed(name, test_parts, trial_parts):
        vs = {p: argument(spaces[p], 0, p) for p in test_parts}
        us = {p: argument(spaces[p], 1, p) for p in trial_parts}
        nb = 3
        b2 = [[form(f"{name}[{i},{j}]", (vs[i], us[j])) if i in vs and j in us else None for j in range(nb)] for i in range(nb)]
        b1 = [form(f"{name}[{i}]", (vs[i],)) if i in vs else None for i in range(nb)]
        F = form(name, tuple(vs.values()) + tuple(us.values()), b2, b1)
        return F, vs, us, b2, b1

    for test_parts, trial_parts in (((0, 1), (0, 1)), ((0, 1, 2), (1,)), ((0, 2), (0, 2)), ((1,), (0, 1, 2)), ((0, 1), ())):
        F, vs, us, b2, b1 = mixed("B", test_parts, trial_parts)
        what = f"mixed form, test parts {test_parts}, trial parts {trial_parts}"
        want_lhs = Lin()
        for row in b2:
            for b in row:
                if b is not None:
                    want_lhs = want_lhs + part(b, 2)
        want_rhs = Lin()
        for b in b1:
            if b is not None:
                want_rhs = want_rhs + part(b, 1)
        if trial_parts:
            expect("C16-sign", "compute_form_lhs", what, tried("compute_form_lhs", F), want_lhs)
        expect("C16-sign", "compute_form_rhs", what, tried("compute_form_rhs", F), -want_rhs)
        # action: the highest numbered arguments are replaced part by part
        cs = [coefficient(s) for s in spaces]
        top = us if trial_parts else vs
        want = Lin({("replace", "B", tuple(sorted((arg_key(a_), arg_key(cs[p])) for p, a_ in top.items()))): 1})
        expect("C16-act", "compute_form_action", what + ", coefficients (c0, c1, c2)", tried("compute_form_action", F, cs), want)
        try:
            got = call("compute_form_action", F, None)
            ok = isinstance(got, Lin) and len(got.terms) == 1
            if ok:
                (atom, wgt), = got.terms.items()
                ok = wgt == 1 and atom[0] == "replace" and atom[1] == "B" and sorted(k for k, _ in atom[2]) == sorted(arg_key(a_) for a_ in top.values()) and all(val[0] == "coef" for _, val in atom[2]) and len({val for _, val in atom[2]}) == len(atom[2])
            (rep.ok("C16-act", f["compute_form_action"], f"compute_form_action: {what}, no coefficient: one fresh coefficient per part") if ok else rep.violation("C16-act", f["compute_form_action"], f"compute_form_action: {what}, no coefficient", f"requests {got!r}: not one fresh coefficient for each highest numbered argument"))
        except LiftRaise as ex:
            rep.violation("C16-act", f["compute_form_action"], f"compute_form_action: {what}, no coefficient", f"raises {ex.what[:100]}")
        # adjoint: per block
        if trial_parts:
            want = Lin()
            for i, row in enumerate(b2):
                for j, b in enumerate(row):
                    if b is not None:
                        bv, bu = b.attrs["_args"]
                        mp = tuple(sorted([(arg_key(bv), ("arg", bv.attrs["_space"].attrs["name"], 1, bu.attrs["_part"])), (arg_key(bu), ("arg", bu.attrs["_space"].attrs["name"], 0, bv.attrs["_part"]))]))
                        want = want + Lin({("conj", ("replace", b.attrs["_name"], mp)): 1})
            expect("C16-adj", "compute_form_adjoint", what, tried("compute_form_adjoint", F), want)
    # ------------------------------------------------------------------ action / adjoint / energy norm without parts
    c, cU = coefficient(V), coefficient(U)
    expect("C16-act", "compute_form_action", "bilinear form a(v, u), coefficient in U", tried("compute_form_action", a, cU), Lin({("replace", "a", ((arg_key(u), arg_key(cU)),)): 1}))
    expect("C16-act", "compute_form_action", "linear form L(v), coefficient in V", tried("compute_form_action", L, c), Lin({("replace", "L", ((arg_key(v), arg_key(c)),)): 1}))
    w3 = argument(Q, 2)
    tri = form("t", (v, u, w3))
    cq = coefficient(Q)
    expect("C16-act", "compute_form_action", "trilinear form t(v, u, w), coefficient in Q", tried("compute_form_action", tri, cq), Lin({("replace", "t", ((arg_key(w3), arg_key(cq)),)): 1}))
    want = Lin({("conj", ("replace", "a", tuple(sorted([(arg_key(v), ("arg", "V", 1, None)), (arg_key(u), ("arg", "U", 0, None))])))): 1})
    expect("C16-adj", "compute_form_adjoint", "bilinear form a(v in V, u in U)", tried("compute_form_adjoint", a), want)
    expect("C16-adj", "compute_form_adjoint", "bilinear form with explicitly supplied new arguments", tried("compute_form_adjoint", a, (argument(U, 0), argument(V, 1))), want)
    expect_raise("C16-adj", "compute_form_adjoint", "a linear form", L)
    expect_raise("C16-adj", "compute_form_adjoint", "a trilinear form", tri)
    expect_raise("C16-adj", "compute_form_adjoint", "new arguments in the old order (numbers not exchanged)", a, (argument(U, 1), argument(V, 0)))
    expect_raise("C16-adj", "compute_form_adjoint", "new arguments on exchanged spaces", a, (argument(V, 0), argument(U, 1)))
    expect_raise("C16-adj", "compute_form_adjoint", "new arguments with a foreign part", a, (argument(U, 0, 1), argument(V, 1)))
    # energy norm
    vv, uu = argument(V, 0), argument(V, 1)
    aVV = form("s", (vv, uu))
    expect("C16-act", "compute_energy_norm", "bilinear form over V x V, coefficient in V", tried("compute_energy_norm", aVV, c), Lin({("action", (( ("action", "s", arg_key(c)), 1),), arg_key(c)): 1}))
    expect_raise("C16-act", "compute_energy_norm", "a bilinear form over two different spaces", a, c)
    expect_raise("C16-act", "compute_energy_norm", "a coefficient in another space", aVV, cU)
    expect_raise("C16-act", "compute_energy_norm", "a linear form", L, c)
    Fm = mixed("B", (0, 1), (0, 1))[0]
    expect_raise("C16-act", "compute_energy_norm", "a form over a mixed function space (parts)", Fm, c)
