"""Static analysis machinery for FEniCS/ufl (see /verif/DESIGN.md)."""
