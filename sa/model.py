"""E1 -- AST program model of /repo/ufl: modules, imports, classes, MRO, aliases.

Everything here is computed from the source text of the *current* working
tree; nothing is imported or executed.
"""

from __future__ import annotations

import ast
import os
from dataclasses import dataclass, field


class AnalysisError(Exception):
    """The analysis itself is broken (vanished anchor, unsupported construct)."""


REPO = os.environ.get("VERIF_REPO", "/repo")


def norm(node) -> str:
    """Normalised source text of an AST node (position independent)."""
    if node is None:
        return ""
    if isinstance(node, list):
        return "; ".join(norm(n) for n in node)
    try:
        return ast.unparse(node)
    except Exception:  # pragma: no cover
        return ast.dump(node)


@dataclass(eq=False)
class FuncInfo:
    name: str
    node: ast.FunctionDef
    module: "Module"
    cls: "ClassInfo | None" = None

    @property
    def qualname(self):
        return f"{self.cls.name}.{self.name}" if self.cls else self.name

    @property
    def file(self):
        return self.module.relpath

    @property
    def line(self):
        return self.node.lineno

    def params(self):
        a = self.node.args
        return [x.arg for x in a.posonlyargs + a.args]

    def has_varargs(self):
        return self.node.args.vararg is not None

    def decorators(self):
        return [norm(d) for d in self.node.decorator_list]

    def where(self):
        return f"{self.file}:{self.line} {self.qualname}"


@dataclass(eq=False)
class ClassInfo:
    name: str
    node: ast.ClassDef
    module: "Module"
    base_exprs: list = field(default_factory=list)
    bases: list = field(default_factory=list)  # resolved ClassInfo or str
    methods: dict = field(default_factory=dict)  # name -> FuncInfo (last def wins)
    all_defs: list = field(default_factory=list)  # every FunctionDef in body order (incl. '_')
    assigns: dict = field(default_factory=dict)  # name -> ast expr (class body `a = expr`)
    ufl_type_kwargs: dict | None = None  # None if not decorated with ufl_type
    patches: dict = field(default_factory=dict)  # attr -> (Module, ast expr) from `Cls.attr = x`
    _mro: list | None = None

    @property
    def qualname(self):
        return f"{self.module.name}.{self.name}"

    @property
    def file(self):
        return self.module.relpath

    @property
    def line(self):
        return self.node.lineno

    def mro(self):
        if self._mro is None:
            self._mro = _c3(self)
        return self._mro

    def is_subclass_of(self, other) -> bool:
        name = other if isinstance(other, str) else other.name
        return any(c.name == name for c in self.mro())

    def slots(self):
        v = self.assigns.get("__slots__")
        if v is None:
            return None
        try:
            r = ast.literal_eval(v)
        except Exception:
            return None
        return (r,) if isinstance(r, str) else tuple(r)


def _c3(cls: ClassInfo):
    bases = [b for b in cls.bases if isinstance(b, ClassInfo)]
    seqs = [list(b.mro()) for b in bases] + [list(bases)]
    res = [cls]
    while True:
        seqs = [s for s in seqs if s]
        if not seqs:
            return res
        for s in seqs:
            cand = s[0]
            if not any(cand in t[1:] for t in seqs):
                break
        else:
            raise AnalysisError(f"inconsistent MRO for {cls.qualname}")
        res.append(cand)
        for s in seqs:
            if s[0] is cand:
                del s[0]


@dataclass(eq=False)
class Module:
    name: str
    path: str
    relpath: str
    source: str
    tree: ast.Module
    imports: dict = field(default_factory=dict)  # local name -> ("module", modname) | ("attr", modname, attr)
    classes: dict = field(default_factory=dict)
    functions: dict = field(default_factory=dict)
    assigns: dict = field(default_factory=dict)  # module-level simple `name = expr`
    lines: list = field(default_factory=list)


class Program:
    """All modules of the ufl package in the working tree."""

    def __init__(self, repo: str = REPO, package: str = "ufl"):
        self.repo = repo
        self.package = package
        self.modules: dict[str, Module] = {}
        self._load()
        self._index()

    # ------------------------------------------------------------------ load
    def _load(self):
        root = os.path.join(self.repo, self.package)
        if not os.path.isdir(root):
            raise AnalysisError(f"package directory {root} not found")
        for d, _dirs, files in sorted(os.walk(root)):
            for f in sorted(files):
                if not f.endswith(".py"):
                    continue
                path = os.path.join(d, f)
                rel = os.path.relpath(path, self.repo)
                parts = rel[:-3].split(os.sep)
                if parts[-1] == "__init__":
                    parts = parts[:-1]
                name = ".".join(parts)
                src = open(path, encoding="utf-8").read()
                try:
                    tree = ast.parse(src, filename=path)
                except SyntaxError as e:
                    raise AnalysisError(f"cannot parse {rel}: {e}")
                m = Module(name, path, rel, src, tree, lines=src.splitlines())
                self.modules[name] = m

    def _index(self):
        for m in self.modules.values():
            self._index_module(m)
        for m in self.modules.values():
            for c in m.classes.values():
                c.bases = [self.resolve_expr(m, b) or norm(b) for b in c.base_exprs]
        # module level patches  Cls.attr = expr
        for m in self.modules.values():
            for st in m.tree.body:
                if isinstance(st, ast.Assign) and len(st.targets) == 1:
                    t = st.targets[0]
                    if isinstance(t, ast.Attribute) and isinstance(t.value, ast.Name):
                        c = self.resolve_name(m, t.value.id)
                        if isinstance(c, ClassInfo):
                            c.patches[t.attr] = (m, st.value)

    def add_virtual_module(self, name: str, src: str) -> Module:
        """A user-side module (classes deriving from the library's documented extension points),
        analysed together with the repository but never part of it."""
        if name in self.modules:
            return self.modules[name]
        tree = ast.parse(src, filename=f"<{name}>")
        m = Module(name, f"<{name}>", f"<{name}>", src, tree, lines=src.splitlines())
        self.modules[name] = m
        self._index_module(m)
        for c in m.classes.values():
            c.bases = [self.resolve_expr(m, b) or norm(b) for b in c.base_exprs]
        return m

    def _index_module(self, m: Module):
        pkg_parts = m.name.split(".")
        is_pkg = m.path.endswith("__init__.py")

        def absmod(level, module):
            if level == 0:
                return module
            base = pkg_parts if is_pkg else pkg_parts[:-1]
            base = base[: len(base) - (level - 1)]
            return ".".join(base + ([module] if module else []))

        def visit_imports(body):
            for st in body:
                if isinstance(st, ast.Import):
                    for a in st.names:
                        if a.asname:
                            m.imports[a.asname] = ("module", a.name)
                        else:
                            m.imports[a.name.split(".")[0]] = ("module", a.name.split(".")[0])
                elif isinstance(st, ast.ImportFrom):
                    mod = absmod(st.level, st.module)
                    for a in st.names:
                        m.imports[a.asname or a.name] = ("attr", mod, a.name)
                elif isinstance(st, (ast.If, ast.Try)):
                    for sub in ast.iter_child_nodes(st):
                        if isinstance(sub, list):
                            visit_imports(sub)
                    for fld in ("body", "orelse", "finalbody"):
                        visit_imports(getattr(st, fld, []) or [])

        visit_imports(m.tree.body)
        for st in m.tree.body:
            if isinstance(st, ast.ClassDef):
                m.classes[st.name] = self._class_info(m, st)
            elif isinstance(st, (ast.FunctionDef, ast.AsyncFunctionDef)):
                m.functions[st.name] = FuncInfo(st.name, st, m)
            elif isinstance(st, ast.Assign) and len(st.targets) == 1 and isinstance(st.targets[0], ast.Name):
                m.assigns[st.targets[0].id] = st.value
            elif isinstance(st, ast.AnnAssign) and isinstance(st.target, ast.Name) and st.value is not None:
                m.assigns[st.target.id] = st.value

    def _class_info(self, m: Module, node: ast.ClassDef) -> ClassInfo:
        c = ClassInfo(node.name, node, m, base_exprs=list(node.bases))
        for d in node.decorator_list:
            if isinstance(d, ast.Call) and norm(d.func).split(".")[-1] == "ufl_type":
                kw = {}
                for k in d.keywords:
                    try:
                        kw[k.arg] = ast.literal_eval(k.value)
                    except Exception:
                        kw[k.arg] = norm(k.value)
                c.ufl_type_kwargs = kw
        for st in node.body:
            if isinstance(st, (ast.FunctionDef, ast.AsyncFunctionDef)):
                fi = FuncInfo(st.name, st, m, c)
                c.methods[st.name] = fi
                c.all_defs.append(fi)
            elif isinstance(st, ast.Assign):
                for t in st.targets:
                    if isinstance(t, ast.Name):
                        c.assigns[t.id] = st.value
            elif isinstance(st, ast.AnnAssign) and isinstance(st.target, ast.Name) and st.value is not None:
                c.assigns[st.target.id] = st.value
        return c

    # --------------------------------------------------------------- resolve
    def module(self, name: str) -> Module:
        if name not in self.modules:
            raise AnalysisError(f"module {name} not found in working tree")
        return self.modules[name]

    def resolve_name(self, m: Module, name: str, _depth=0):
        """Resolve a bare name used in module m to ClassInfo/FuncInfo/Module/ast expr/None."""
        if _depth > 12:
            return None
        if name in m.classes:
            return m.classes[name]
        if name in m.functions:
            return m.functions[name]
        if name in m.imports:
            imp = m.imports[name]
            if imp[0] == "module":
                return self.modules.get(imp[1])
            _, mod, attr = imp
            full = f"{mod}.{attr}"
            if full in self.modules:
                return self.modules[full]
            tm = self.modules.get(mod)
            if tm is None:
                return None
            return self.resolve_name(tm, attr, _depth + 1)
        if name in m.assigns:
            v = m.assigns[name]
            if isinstance(v, ast.Name) and v.id != name:
                r = self.resolve_name(m, v.id, _depth + 1)
                if r is not None:
                    return r
            return v
        return None

    def resolve_expr(self, m: Module, e):
        """Resolve Name / dotted Attribute to a program entity."""
        if isinstance(e, ast.Name):
            return self.resolve_name(m, e.id)
        if isinstance(e, ast.Attribute):
            base = self.resolve_expr(m, e.value)
            if isinstance(base, Module):
                sub = f"{base.name}.{e.attr}"
                if sub in self.modules:
                    return self.modules[sub]
                return self.resolve_name(base, e.attr)
            if isinstance(base, ClassInfo):
                r = self.lookup(base, e.attr)
                return r
        return None

    def get_class(self, qual: str) -> ClassInfo:
        """'ufl.algebra.Sum' or 'Sum' (unique) -> ClassInfo."""
        if "." in qual:
            mod, _, name = qual.rpartition(".")
            m = self.modules.get(mod)
            if m and name in m.classes:
                return m.classes[name]
            raise AnalysisError(f"class {qual} not found (anchor vanished)")
        hits = [c for m in self.modules.values() for c in m.classes.values() if c.name == qual]
        if len(hits) != 1:
            raise AnalysisError(f"class {qual}: {len(hits)} definitions found")
        return hits[0]

    def get_function(self, modname: str, name: str) -> FuncInfo:
        m = self.module(modname)
        if "." in name:
            cn, fn = name.split(".", 1)
            c = m.classes.get(cn)
            if c is None:
                raise AnalysisError(f"{modname}.{cn} not found (anchor vanished)")
            r = self.lookup(c, fn)
            if not isinstance(r, FuncInfo):
                raise AnalysisError(f"{modname}.{name} not found (anchor vanished)")
            return r
        if name not in m.functions:
            raise AnalysisError(f"function {modname}.{name} not found (anchor vanished)")
        return m.functions[name]

    def all_classes(self):
        for m in self.modules.values():
            yield from m.classes.values()

    def all_functions(self):
        """Every function and method (FuncInfo), including nested class methods named '_'."""
        for m in self.modules.values():
            yield from m.functions.values()
            for c in m.classes.values():
                yield from c.all_defs

    def subclasses(self, base: ClassInfo | str):
        name = base if isinstance(base, str) else base.name
        return [c for c in self.all_classes() if any(k.name == name for k in c.mro())]

    # ---------------------------------------------------------------- lookup
    def lookup(self, cls: ClassInfo, attr: str, _depth=0):
        """Attribute lookup through the MRO honouring class-body aliases and patches.

        Returns FuncInfo, ClassInfo, an ast expression (non-function value) or None.
        """
        r = self.lookup_with_owner(cls, attr, _depth)
        return r[1] if r else None

    def lookup_with_owner(self, cls: ClassInfo, attr: str, _depth=0):
        if _depth > 12:
            return None
        for k in cls.mro():
            if attr in k.patches:
                pm, pe = k.patches[attr]
                r = self.resolve_expr(pm, pe)
                return (k, r if r is not None else pe)
            # the later of def / assignment in the class body wins
            cand = []
            if attr in k.methods:
                cand.append((k.methods[attr].node.lineno, k.methods[attr]))
            if attr in k.assigns:
                cand.append((k.assigns[attr].lineno, k.assigns[attr]))
            if cand:
                v = max(cand, key=lambda t: t[0])[1]
                if isinstance(v, FuncInfo):
                    return (k, v)
                # alias: name of another attribute of the class under construction, or
                # Other.attr, or module level function
                if isinstance(v, ast.Name):
                    # class-body scope first
                    if v.id != attr and (v.id in k.methods or v.id in k.assigns):
                        r = self._lookup_in_body(k, v.id, v.lineno, _depth + 1)
                        if r is not None:
                            return (k, r)
                    r = self.resolve_name(k.module, v.id)
                    if r is not None:
                        return (k, r)
                    return (k, v)
                if isinstance(v, ast.Attribute):
                    r = self.resolve_expr(k.module, v)
                    if r is not None:
                        return (k, r)
                return (k, v)
        return None

    def _lookup_in_body(self, k: ClassInfo, name: str, before_line: int, depth):
        if name in k.methods and k.methods[name].node.lineno < before_line:
            return k.methods[name]
        if name in k.assigns:
            v = k.assigns[name]
            if isinstance(v, ast.Name) and v.id != name:
                return self._lookup_in_body(k, v.id, v.lineno, depth + 1) or self.resolve_name(k.module, v.id)
            if isinstance(v, ast.Attribute):
                return self.resolve_expr(k.module, v)
            return v
        if name in k.methods:
            return k.methods[name]
        return None


# ------------------------------------------------------------------ AST utils


def walk_no_nested(node):
    """ast.walk that does not descend into nested function/class definitions/lambdas."""
    todo = list(ast.iter_child_nodes(node))
    while todo:
        n = todo.pop()
        yield n
        if isinstance(n, (ast.FunctionDef, ast.AsyncFunctionDef, ast.ClassDef, ast.Lambda)):
            continue
        todo.extend(ast.iter_child_nodes(n))


def calls_in(node):
    for n in ast.walk(node):
        if isinstance(n, ast.Call):
            yield n


def call_name(call: ast.Call) -> str:
    """Dotted name of the callee ('self.visit', 'Zero', 'ufl.foo.bar')."""
    return norm(call.func)


def names_in(node) -> set:
    return {n.id for n in ast.walk(node) if isinstance(n, ast.Name)}


def parent_map(root):
    pm = {}
    for p in ast.walk(root):
        for c in ast.iter_child_nodes(p):
            pm[c] = p
    return pm


def docstring_stripped_body(fn: ast.FunctionDef):
    body = fn.body
    if body and isinstance(body[0], ast.Expr) and isinstance(body[0].value, ast.Constant) and isinstance(body[0].value.value, str):
        return body[1:]
    return body
