"""Lifting of whole rewriting passes (MultiFunction / Transformer / DAGTraverser algorithms) on
*structured symbolic expressions*.

A structured expression is a uflsem.T value (its mathematical meaning, dense over small concrete
dimensions) that also carries its node identity: tags['ufl_class'] and tags['ufl_operands'] as built
by the reference constructors of sa/uflmodel.py.  The model of the traversal drivers
(map_expr_dag(s), Transformer.visit, DAGTraverser.__call__) walks that structure and, at each node,
interprets the *source* of the handler that the pass's dispatch table (sa/dispatch.py, resolved from
the AST) selects for the node's class.  The result is again a structured expression whose meaning
can be compared exactly with the meaning the pass must preserve / produce.

Trusted base: the traversal-driver model below (post-order, cut-off by handler arity, one result per
distinct node object) and the reference constructors used by `_ufl_expr_reconstruct_`.
"""

from __future__ import annotations

import ast

from . import sym, uflmodel, uflsem
from .lift import BoundMethod, Closure, Interp, LiftRaise, Obj, Unsupported
from .model import AnalysisError, ClassInfo, FuncInfo, norm
from .uflmodel import MI, Cnd
from .uflsem import Idx, T, as_T


def node_class(x):
    if isinstance(x, MI):
        return "MultiIndex"
    if isinstance(x, Cnd):
        return x.tags.get("ufl_class", "Condition")
    if isinstance(x, T):
        return x.tags.get("ufl_class")
    if isinstance(x, Obj):
        return x.attrs.get("ufl_class")
    return None


def node_operands(x):
    if isinstance(x, T):
        return tuple(x.tags.get("ufl_operands", ()))
    if isinstance(x, Cnd):
        return tuple(x.tags.get("ufl_operands", ()))
    if isinstance(x, Obj):
        return tuple(x.attrs.get("ufl_operands", ()))
    return ()


class PassHarness:
    def __init__(self, ctx, alg_qualname, gdim=2, tdim=2, ip=None):
        self.ctx = ctx
        self.prog = ctx.prog
        self.cls = self.prog.get_class(alg_qualname)
        self.tab = ctx.disp.table(self.cls)
        self.is_dt = self.cls.is_subclass_of("DAGTraverser")
        self.is_tr = self.cls.is_subclass_of("Transformer")
        self.ip = ip or uflmodel.install(Interp(self.prog), gdim=gdim, tdim=tdim)
        self.cm = self.ip.class_models
        self.selfobj = Obj("alg:" + self.cls.name, __class__=self.cls)
        self.selfobj.attrs["__call__"] = self.dt_call
        self.selfobj.attrs["visit"] = self.tr_visit
        self.selfobj.attrs["_variable_cache"] = {}

        def on_instantiate(o, cls):
            if cls.is_subclass_of("Transformer"):
                o.attrs["visit"] = lambda x, o=o: self.tr_visit(x, o)
                o.attrs["_variable_cache"] = {}

        self.ip.on_instantiate = on_instantiate
        self.memo = {}
        self.calls = 0
        install_node_protocol(self)
        ip_ = self.ip
        ip_.skip_functions |= {"MultiFunction.__init__", "DAGTraverser.__init__", "Transformer.__init__", "ReuseTransformer.__init__"}
        import collections
        import itertools as _it

        ip_.overrides.setdefault("defaultdict", collections.defaultdict)
        ip_.overrides.setdefault("_count", _it.count)
        ip_.overrides.setdefault("count", _it.count)

        def _type(x):
            cn = node_class(x)
            if cn is not None and cn in ip_.class_models:
                return ip_.class_models[cn]
            if isinstance(x, Obj):
                return x.attrs.get("__class__")
            return type(x)

        ip_.overrides["type"] = _type
        ip_.overrides["map_expr_dag"] = self.map_expr_dag
        ip_.overrides["map_expr_dags"] = lambda f, es, **k: [self.map_expr_dag(f, e, **k) for e in es]
        ip_.overrides["map_integrands"] = lambda f, e, *a, **k: ip_.call(f, [e], {}, None, None)
        ip_.overrides["map_integrand_dags"] = lambda f, e, *a, **k: self.map_expr_dag(f, e)

    # ------------------------------------------------------------- construction
    def init(self, *args, **kwargs):
        """Run the algorithm's own __init__ from source (base-class table building is skipped)."""
        init = self.prog.lookup(self.cls, "__init__")
        if isinstance(init, FuncInfo) and init.cls is not None and init.cls.name not in ("MultiFunction", "Transformer", "DAGTraverser"):
            self.ip.call_function(init, list(args), dict(kwargs), self_obj=self.selfobj)
        return self

    # ---------------------------------------------------------------- dispatch
    def handler_for(self, x, table=None, alg=None):
        cn = node_class(x)
        if cn is None:
            raise Unsupported(f"value without node identity reached a pass: {x!r}")
        tab = table if table is not None else self.tab
        h = tab.get(cn)
        if h is None:
            raise LiftRaise(f"ValueError: no handler for {cn}")
        return h

    def _table_of(self, algobj):
        k = algobj.attrs.get("__class__") if isinstance(algobj, Obj) else None
        if not isinstance(k, ClassInfo):
            raise Unsupported("traversal driver called with a function that is not a modelled algorithm object")
        return self.ctx.disp.table(k)

    # MultiFunction under map_expr_dag
    def map_expr_dag(self, function, expression, compress=True, vcache=None, rcache=None):
        tab = self._table_of(function)
        # a caller-supplied vcache persists between calls (corealg.map_dag stores result per node in it)
        local = vcache if isinstance(vcache, dict) else {}
        # corealg.map_dag picks cutoff_unique_post_traversal when the function has any cut-off
        # handler; that traversal visits operands right-to-left, unique_post_traversal left-to-right
        right_to_left = any(h is not None and h.kind == "cutoff" for h in tab.values())

        def rec(x):
            key = id(x)
            if key in local:
                return local[key][1]
            h = self.handler_for(x, tab)
            self.calls += 1
            if h.kind == "cutoff":
                r = self.ip.call_function(h.func, [x], {}, self_obj=function)
            else:
                operands = node_operands(x)
                order = reversed(range(len(operands))) if right_to_left else range(len(operands))
                done = {}
                for n in order:
                    done[n] = rec(operands[n])
                ops = [done[n] for n in range(len(operands))]
                r = self.ip.call_function(h.func, [x] + ops, {}, self_obj=function)
            local[key] = (x, r)  # keeps x alive: id() stays unique
            return r

        return rec(expression)

    # Transformer.visit
    def tr_visit(self, x, selfobj=None):
        so = selfobj if selfobj is not None else self.selfobj
        tab = self._table_of(so) if selfobj is not None else self.tab
        h = self.handler_for(x, tab)
        self.calls += 1
        if h.kind == "cutoff":
            return self.ip.call_function(h.func, [x], {}, self_obj=so)
        ops = [self.tr_visit(o, selfobj) for o in node_operands(x)]
        return self.ip.call_function(h.func, [x] + ops, {}, self_obj=so)

    # DAGTraverser.__call__  (memoised on node identity and keyword arguments)
    def dt_call(self, x, **kwargs):
        key = (id(x), tuple(sorted((k, id(v)) for k, v in kwargs.items())))
        if key in self.memo:
            return self.memo[key]
        h = self.handler_for(x)
        self.calls += 1
        if h.kind == "preorder":
            r = self.ip.call_function(h.func, [x], dict(kwargs), self_obj=self.selfobj)
        elif h.kind == "postorder":
            ops = [self.dt_call(o, **kwargs) for o in node_operands(x)]
            r = self.ip.call_function(h.func, [x] + ops, dict(kwargs), self_obj=self.selfobj)
        else:
            ops = [self.dt_call(node_operands(x)[i], **kwargs) for i in h.children]
            r = self.ip.call_function(h.func, [x] + ops, dict(kwargs), self_obj=self.selfobj)
        self.memo[key] = r
        return r

    def apply(self, x):
        if self.is_dt:
            return self.dt_call(x)
        if self.is_tr:
            return self.tr_visit(x)
        return self.map_expr_dag(self.selfobj, x)


def reconstruct(cm, x, ops):
    cn = node_class(x)
    if cn in cm:
        r = cm[cn](*ops)
        return r
    raise Unsupported(f"no reference constructor to reconstruct {cn}")


def install_node_protocol(H: PassHarness):
    """Attribute protocol of Expr nodes on structured T values."""
    ip = H.ip
    prev_attr = ip.attr_hook
    prog = H.prog

    def attr_hook(o, a):
        if isinstance(o, (T, Cnd)):
            tags = o.tags
            if a == "ufl_operands":
                return tuple(tags.get("ufl_operands", ()))
            if a == "_ufl_expr_reconstruct_":
                return lambda *ops: reconstruct(ip.class_models, o, ops)
            if a in ("_ufl_class_",):
                cn = tags.get("ufl_class")
                return ip.entity_value(prog.get_class(cn), prog.get_class(cn).module, cn) if cn else NotImplemented
            if a == "_ufl_is_terminal_":
                return bool(tags.get("_ufl_is_terminal_", not tags.get("ufl_operands")))
            if a == "_ufl_typecode_":
                return tags.get("ufl_class")
            if a in ("_ufl_is_terminal_modifier_", "_ufl_is_in_reference_frame_", "_ufl_is_restriction_", "_ufl_is_evaluation_", "_ufl_is_differential_", "_ufl_is_literal_", "_ufl_is_scalar_", "_ufl_is_shaping_", "_ufl_is_index_free_"):
                cn = tags.get("ufl_class")
                if a in tags:
                    return tags[a]
                if cn and cn in H.ctx.tm.types:
                    return H.ctx.tm.types[cn].traits.get(a[5:-1])
                return False
            if a == "_ufl_handler_name_":
                cn = tags.get("ufl_class")
                return H.ctx.tm.types[cn].handler if cn in H.ctx.tm.types else NotImplemented
            if a == "side" and "_side" in tags:
                return lambda: tags["_side"]
            if a == "value" and "_value" in tags:
                return lambda: tags["_value"]
            if a == "_value" and "_value" in tags:
                return tags["_value"]
            if a == "indices" and isinstance(o, T) and tags.get("ufl_class") == "ComponentTensor":
                return lambda: tags["ufl_operands"][1]
            if a == "dimension" and tags.get("ufl_class") == "IndexSum":
                i = tags["ufl_operands"][1][0]
                A = tags["ufl_operands"][0]
                return lambda: A.fimap()[i]
        if isinstance(o, MI):
            if a == "_indices":
                return tuple(o)
            if a == "ufl_operands":
                return ()
            if a == "_ufl_is_terminal_":
                return True
            if a == "_ufl_typecode_":
                return "MultiIndex"
            if a == "ufl_shape":
                raise LiftRaise("ValueError: MultiIndex has no shape")
            if a == "ufl_free_indices":
                return ()
        if isinstance(o, int) and not isinstance(o, bool) and a == "_value":
            return o
        if prev_attr is not None:
            return prev_attr(o, a)
        return NotImplemented

    ip.attr_hook = attr_hook
    prev_inst = ip.isinstance_hook

    def isinstance_hook(x, cls_):
        name = getattr(cls_, "name", None)
        if isinstance(x, MI):
            return name in ("MultiIndex", "Terminal", "Expr")
        if isinstance(x, Cnd):
            cn = x.tags.get("ufl_class", "Condition")
            try:
                return prog.get_class(cn).is_subclass_of(name) if name else NotImplemented
            except AnalysisError:
                return name in ("Condition", "Expr", "Operator")
        if isinstance(x, T) and name is not None:
            cn = x.tags.get("ufl_class")
            if cn is None:
                if name == "Zero":
                    return x.is_zero_literal
                return name == "Expr"
            if name == "Zero" and x.is_zero_literal and cn in ("Zero",):
                return True
            try:
                return prog.get_class(cn).is_subclass_of(name)
            except AnalysisError:
                return False
        if isinstance(x, int) and not isinstance(x, bool) and name == "FixedIndex":
            return True
        if isinstance(x, Idx) and name is not None:
            return name in ("Index", "IndexBase")
        if prev_inst is not None:
            return prev_inst(x, cls_)
        return NotImplemented

    ip.isinstance_hook = isinstance_hook
    prev_truth = ip.truth

    def truth(v, node_=None):
        # Expr.__bool__ is True for every expression except Zero (Zero.__bool__ is False)
        if isinstance(v, T):
            return not (v.tags.get("ufl_class") == "Zero" or ("ufl_class" not in v.tags and v.is_zero_literal))
        return prev_truth(v, node_)

    ip.truth = truth
