"""E3 -- dispatch tables of MultiFunction / Transformer / DAGTraverser algorithms,
computed from the AST (class bodies, aliases, @process.register stacks)."""

from __future__ import annotations

import ast
from dataclasses import dataclass

from .model import AnalysisError, ClassInfo, FuncInfo, Program, norm
from .types import TypeModel, UFLType


@dataclass(eq=False)
class Handler:
    alg: ClassInfo  # algorithm class the table belongs to
    owner: ClassInfo  # class where the handler function is defined / registered
    func: FuncInfo
    via: str  # handler name (MultiFunction) or registered type name (DAGTraverser)
    kind: str  # 'cutoff' | 'postorder' | 'postorder_only_children' | 'preorder'
    children: tuple | None = None  # for postorder_only_children

    def operand_params(self):
        """Names of the parameters receiving processed operands (None if *args)."""
        p = self.func.params()
        if self.func.has_varargs():
            return None
        return p[2:]

    def where(self):
        return self.func.where()


class Dispatch:
    def __init__(self, prog: Program, tm: TypeModel):
        self.prog = prog
        self.tm = tm
        self._mf_cache = {}
        self._dt_cache = {}

    # ----------------------------------------------------- algorithm classes
    def algorithm_classes(self):
        out = {"MultiFunction": [], "Transformer": [], "DAGTraverser": []}
        for c in self.prog.all_classes():
            if getattr(c.module, "path", "").startswith("<") or str(getattr(c, "qualname", "")).startswith("verif_"):
                continue  # user-side classes of virtual modules (positive controls, model algorithm classes)
            names = [k.name for k in c.mro()]
            for base in out:
                if base in names and c.name != base:
                    out[base].append(c)
        return out

    # ------------------------------------------- MultiFunction / Transformer
    def mf_table(self, alg: ClassInfo) -> dict:
        """type name -> Handler | None  (exactly the loop of MultiFunction.__init__)."""
        if alg.qualname in self._mf_cache:
            return self._mf_cache[alg.qualname]
        is_transformer = alg.is_subclass_of("Transformer")
        table = {}
        for t in self.tm.types.values():
            h = None
            names = [u.handler for u in self.tm.mro_types(t)] + ["ufl_type"]
            for hn in names:
                r = self.prog.lookup_with_owner(alg, hn)
                if r is None:
                    continue
                owner, f = r
                if isinstance(f, FuncInfo):
                    nparams = len(f.params()) + (1 if f.has_varargs() else 0)
                    if is_transformer:
                        kind = "postorder" if nparams > 2 else "cutoff"
                    else:
                        kind = "cutoff" if (nparams == 2 and not f.has_varargs()) else "postorder"
                    h = Handler(alg, owner, f, hn, kind)
                    break
                # attribute exists but is not a plain function we can see (e.g. decorated/memoized)
                if isinstance(f, ast.AST):
                    fi = self._unwrap_decorated(alg, owner, f)
                    if fi is not None:
                        nparams = len(fi.params())
                        h = Handler(alg, owner, fi, hn, "cutoff" if nparams == 2 else "postorder")
                        break
                raise AnalysisError(f"{alg.qualname}.{hn}: cannot resolve handler value {norm(f) if isinstance(f, ast.AST) else f}")
            table[t.name] = h
        self._mf_cache[alg.qualname] = table
        return table

    def _unwrap_decorated(self, alg, owner, expr):
        # e.g.  foo = memoized_handler(_foo)
        if isinstance(expr, ast.Call) and expr.args and isinstance(expr.args[0], ast.Name):
            r = self.prog.lookup(owner, expr.args[0].id)
            if isinstance(r, FuncInfo):
                return r
        return None

    # ----------------------------------------------------------- DAGTraverser
    def dt_registrations(self, cls: ClassInfo):
        """Registrations made in the body of cls: list of (type name, Handler)."""
        out = []
        for fi in cls.all_defs:
            regs = []
            kind = "preorder"
            children = None
            for d in fi.node.decorator_list:
                s = norm(d)
                if isinstance(d, ast.Call) and norm(d.func) == "process.register":
                    if len(d.args) != 1:
                        raise AnalysisError(f"{fi.where()}: process.register with {len(d.args)} args")
                    regs.append(d.args[0])
                elif s == "DAGTraverser.postorder":
                    kind = "postorder"
                elif isinstance(d, ast.Call) and norm(d.func) == "DAGTraverser.postorder_only_children":
                    kind = "postorder_only_children"
                    try:
                        children = tuple(ast.literal_eval(d.args[0]))
                    except Exception:
                        raise AnalysisError(f"{fi.where()}: non-literal postorder_only_children")
                elif s in ("singledispatchmethod", "staticmethod", "abstractmethod", "overload", "property") or s.startswith("pytest"):
                    pass
            for r in regs:
                tnames = self._register_targets(cls, r)
                for tn in tnames:
                    out.append((tn, Handler(cls, cls, fi, tn, kind, children)))
        return out

    def _register_targets(self, cls, r):
        if isinstance(r, ast.BinOp) and isinstance(r.op, ast.BitOr):
            return self._register_targets(cls, r.left) + self._register_targets(cls, r.right)
        ent = self.prog.resolve_expr(cls.module, r)
        if isinstance(ent, ClassInfo):
            return [ent.name]
        raise AnalysisError(f"{cls.file}:{r.lineno}: cannot resolve register target {norm(r)}")

    def dt_table(self, alg: ClassInfo) -> dict:
        """type name -> Handler | None, modelling singledispatch + the repo's
        'process = singledispatchmethod; default: return super().process(o)' idiom."""
        if alg.qualname in self._dt_cache:
            return self._dt_cache[alg.qualname]
        # chain of classes that (re)define `process`, most derived first
        chain = []
        for k in alg.mro():
            if "process" in k.methods or any(f.name == "process" for f in k.all_defs):
                chain.append(k)
        levels = []
        for k in chain:
            # registrations belong to the `process` object of the nearest class at or above
            # the registering class that defines process: registrations in k's body go to k's process
            regs = {}
            for tn, h in self.dt_registrations(k):
                regs[tn] = h  # later registration for same type wins
            default = next((f for f in k.all_defs if f.name == "process"), None)
            delegates = default is not None and "super().process" in norm(default.node)
            levels.append((k, regs, default, delegates))
        # classes between that do not define process but register?  (not used in repo) -> error
        for k in alg.mro():
            if k not in chain and any(True for _ in self.dt_registrations(k)):
                raise AnalysisError(f"{k.qualname} registers handlers without defining process")
        table = {}
        for t in self.tm.types.values():
            mro_names = [k.name for k in t.cls.mro()]
            h = None
            for k, regs, default, delegates in levels:
                hit = next((regs[n] for n in mro_names if n in regs), None)
                if hit is not None:
                    h = Handler(alg, k, hit.func, hit.via, hit.kind, hit.children)
                    break
                if not delegates:
                    # default body of this level handles it (e.g. raise AssertionError)
                    if default is not None:
                        h = Handler(alg, k, default, "<default>", "preorder")
                    break
            table[t.name] = h
        self._dt_cache[alg.qualname] = table
        return table

    def table(self, alg: ClassInfo) -> dict:
        if alg.is_subclass_of("DAGTraverser"):
            return self.dt_table(alg)
        return self.mf_table(alg)

    # ----------------------------------------------------- runtime crosscheck
    def crosscheck_runtime(self, algs=None):
        """Compare tables with the live classes (no algorithm is instantiated or called)."""
        import importlib
        import inspect

        from ufl.core.expr import Expr

        reg = {c.__name__: c for c in Expr._ufl_all_classes_ if c.__module__.startswith("ufl")}
        n = 0
        groups = self.algorithm_classes()
        for base, classes in groups.items():
            for alg in classes:
                if algs is not None and alg.name not in algs:
                    continue
                try:
                    mod = importlib.import_module(alg.module.name)
                except Exception as e:  # pragma: no cover
                    raise AnalysisError(f"cannot import {alg.module.name}: {e}")
                rc = getattr(mod, alg.name)
                tab = self.table(alg)
                for tname, rt in reg.items():
                    h = tab.get(tname)
                    if base == "DAGTraverser":
                        try:
                            disp = rc.process.dispatcher
                        except AttributeError:
                            continue
                        # follow the super().process chain like dt_table does
                        rf = None
                        for k in rc.__mro__:
                            p = k.__dict__.get("process")
                            if p is None:
                                continue
                            f = p.dispatcher.dispatch(rt)
                            if f is not p.dispatcher.registry[object]:
                                rf = f
                                break
                            src = inspect.getsource(f)
                            if "super().process" not in src:
                                rf = f
                                break
                        if rf is None:
                            continue
                        rline = inspect.unwrap(rf).__code__.co_firstlineno
                        if h is None:
                            raise AnalysisError(f"dispatch mismatch {alg.name}[{tname}]: AST none, runtime line {rline}")
                        lines = {h.func.node.lineno} | {d.lineno for d in h.func.node.decorator_list}
                        if rline not in lines and not (min(lines) <= rline <= h.func.node.body[0].lineno):
                            raise AnalysisError(f"dispatch mismatch {alg.name}[{tname}]: AST {h.func.where()} runtime line {rline}")
                    else:
                        rf = None
                        for k in rt.__mro__:
                            hn = getattr(k, "_ufl_handler_name_", None) if k.__name__ in reg else None
                            if hn and hasattr(rc, hn):
                                rf = getattr(rc, hn)
                                break
                        if rf is None and hasattr(rc, "ufl_type"):
                            rf = getattr(rc, "ufl_type")
                        if (rf is None) != (h is None):
                            raise AnalysisError(f"dispatch mismatch {alg.name}[{tname}]: AST {h} runtime {rf}")
                        if rf is not None:
                            rfu = inspect.unwrap(rf)
                            code = getattr(rfu, "__code__", None)
                            if code is not None and code.co_name == h.func.name and code.co_firstlineno not in (
                                {h.func.node.lineno} | {d.lineno for d in h.func.node.decorator_list}
                            ):
                                raise AnalysisError(f"dispatch mismatch {alg.name}[{tname}]: AST {h.func.where()} runtime {code.co_filename}:{code.co_firstlineno}")
                    n += 1
        return {"dispatch_entries_crosschecked": n}
