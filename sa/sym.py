"""Term algebra used by the formula lifter (E6).

Ex      hash-consed expression DAG over symbols, rationals, + * / **, named function atoms,
        conj (as an involution on symbols) and piecewise conditionals.
Poly    sparse polynomials over Q (dict monomial -> Fraction); Ex -> (num, den) Poly pair when the
        term is rational in its atoms; function applications whose arguments are rational become
        fresh atoms keyed by the normalised argument.
equal() decides equality: exact in Q[x] for rational terms (cross multiplication), otherwise random
        interpretation (Gulwani & Necula) at points of C, atoms interpreted by cmath.
No solver, no CAS; the program under analysis is never executed - only these lifted terms are.
"""

from __future__ import annotations

import cmath
import math
import random
from fractions import Fraction


class Ex:
    __slots__ = ("op", "args", "_h", "_poly")
    _table: dict = {}

    def __new__(cls, op, *args):
        key = (op, args)
        o = Ex._table.get(key)
        if o is None:
            o = object.__new__(cls)
            o.op = op
            o.args = args
            o._h = hash(key)
            o._poly = None
            Ex._table[key] = o
        return o

    def __hash__(self):
        return self._h

    def __eq__(self, other):
        return self is other

    def __repr__(self):
        return show(self)

    # arithmetic sugar ---------------------------------------------------
    def __add__(self, o):
        return add(self, lift(o))

    def __radd__(self, o):
        return add(lift(o), self)

    def __sub__(self, o):
        return add(self, neg(lift(o)))

    def __rsub__(self, o):
        return add(lift(o), neg(self))

    def __mul__(self, o):
        return mul(self, lift(o))

    def __rmul__(self, o):
        return mul(lift(o), self)

    def __truediv__(self, o):
        return div(self, lift(o))

    def __rtruediv__(self, o):
        return div(lift(o), self)

    def __neg__(self):
        return neg(self)

    def __pow__(self, o):
        return power(self, lift(o))


def const(v) -> Ex:
    if isinstance(v, bool):
        v = int(v)
    if isinstance(v, float):
        if v != v or v in (float("inf"), float("-inf")):
            raise ValueError("non-finite constant")
        v = Fraction(repr(v)) if abs(v) < 1e15 else Fraction(v)
    if isinstance(v, complex):
        if v.imag == 0:
            return const(v.real)
        return add(const(v.real), mul(const(v.imag), Ex("I")))
    return Ex("c", Fraction(v))


ZERO = const(0)
ONE = const(1)


def sym(name: str) -> Ex:
    return Ex("s", name)


def lift(v) -> Ex:
    if isinstance(v, Ex):
        return v
    if isinstance(v, (int, float, Fraction, complex)):
        return const(v)
    raise TypeError(f"cannot lift {v!r}")


def is_const(e: Ex):
    return e.op == "c"


def add(a: Ex, b: Ex) -> Ex:
    if a is ZERO:
        return b
    if b is ZERO:
        return a
    if a.op == "c" and b.op == "c":
        return const(a.args[0] + b.args[0])
    return Ex("+", a, b)


def neg(a: Ex) -> Ex:
    if a.op == "c":
        return const(-a.args[0])
    return Ex("*", const(-1), a)


def mul(a: Ex, b: Ex) -> Ex:
    if a is ZERO or b is ZERO:
        return ZERO
    if a is ONE:
        return b
    if b is ONE:
        return a
    if a.op == "c" and b.op == "c":
        return const(a.args[0] * b.args[0])
    return Ex("*", a, b)


def div(a: Ex, b: Ex) -> Ex:
    if b is ONE:
        return a
    if b.op == "c":
        if b.args[0] == 0:
            raise ZeroDivisionError("division by literal zero in lifted term")
        return mul(a, const(1 / b.args[0]))
    if a is ZERO:
        return ZERO
    return Ex("/", a, b)


def power(a: Ex, b: Ex) -> Ex:
    if b.op == "c":
        e = b.args[0]
        if e.denominator == 1:
            n = int(e)
            if n == 0:
                return ONE
            if n == 1:
                return a
            if a.op == "c" and (n > 0 or a.args[0] != 0):
                return const(a.args[0] ** n)
            if 0 < n <= 12:
                return Ex("^", a, n)
            if -12 <= n < 0:
                return div(ONE, Ex("^", a, -n) if n != -1 else a)
    return fn("pow", a, b)


def fn(name: str, *args) -> Ex:
    args = tuple(lift(a) for a in args)
    if name == "sqrt" and args[0].op == "c":
        v = args[0].args[0]
        if v >= 0:
            r = Fraction(math.isqrt(v.numerator), math.isqrt(v.denominator))
            if r * r == v:
                return const(r)
    if name == "abs" and args[0].op == "c":
        return const(abs(args[0].args[0]))
    if name in ("conj", "real") and args[0].op == "c":
        return args[0]
    if name == "imag" and args[0].op == "c":
        return ZERO
    if name == "conj":
        return conj(args[0])
    return Ex("f", name, *args)


def conj(e: Ex) -> Ex:
    """Complex conjugation pushed to the leaves (exact: an involution on symbols)."""
    if e.op == "c":
        return e
    if e.op == "I":
        return neg(e)
    if e.op == "s":
        return Ex("cs", e.args[0])
    if e.op == "cs":
        return Ex("s", e.args[0])
    if e.op in ("+", "*", "/"):
        return Ex(e.op, conj(e.args[0]), conj(e.args[1])) if e.op != "+" else add(conj(e.args[0]), conj(e.args[1]))
    if e.op == "^":
        return Ex("^", conj(e.args[0]), e.args[1])
    if e.op == "f":
        name = e.args[0]
        if name in ("abs", "real", "imag"):
            return e
        if name in ("sqrt", "exp", "ln", "sin", "cos", "tan", "sinh", "cosh", "tanh", "asin", "acos", "atan", "erf", "pow"):
            # analytic with real Taylor coefficients: conj commutes (away from branch cuts)
            return Ex("f", name, *[conj(a) for a in e.args[1:]])
        return Ex("f", "conj_of", e)
    if e.op == "cond":
        return Ex("cond", e.args[0], conj(e.args[1]), conj(e.args[2]))
    return Ex("f", "conj_of", e)


def cond(c, t: Ex, f: Ex) -> Ex:
    if t is f:
        return t
    return Ex("cond", c, t, f)


def show(e: Ex, depth=0) -> str:
    if depth > 6:
        return "..."
    if e.op == "c":
        return str(e.args[0])
    if e.op == "s":
        return e.args[0]
    if e.op == "cs":
        return f"conj({e.args[0]})"
    if e.op == "I":
        return "1j"
    if e.op in "+*/":
        return f"({show(e.args[0], depth + 1)} {e.op} {show(e.args[1], depth + 1)})"
    if e.op == "^":
        return f"{show(e.args[0], depth + 1)}**{e.args[1]}"
    if e.op == "f":
        return f"{e.args[0]}({', '.join(show(a, depth + 1) for a in e.args[1:])})"
    if e.op == "cond":
        return f"cond({e.args[0]}, {show(e.args[1], depth + 1)}, {show(e.args[2], depth + 1)})"
    if e.op == "rel":
        return f"({show(e.args[1], depth + 1)} {e.args[0]} {show(e.args[2], depth + 1)})"
    return f"{e.op}{e.args}"


# --------------------------------------------------------------------- Poly


class NotRational(Exception):
    pass


def p_const(c):
    return {(): Fraction(c)} if c else {}


def p_var(v):
    return {((v, 1),): Fraction(1)}


def p_add(a, b):
    r = dict(a)
    for m, c in b.items():
        v = r.get(m, 0) + c
        if v:
            r[m] = v
        else:
            r.pop(m, None)
    return r


def p_scale(a, k):
    return {m: c * k for m, c in a.items()} if k else {}


def _mmul(m1, m2):
    if not m1:
        return m2
    if not m2:
        return m1
    d = dict(m1)
    for v, e in m2:
        d[v] = d.get(v, 0) + e
    return tuple(sorted(d.items()))


_P_MUL_BUDGET = [0]  # set by equal(): intermediate products above it abandon the exact normal form


def p_mul(a, b):
    if len(a) > len(b):
        a, b = b, a
    if _P_MUL_BUDGET[0] and len(a) * len(b) > _P_MUL_BUDGET[0]:
        raise NotRational("polynomial product too large for the exact normal form: random interpretation")
    r = {}
    for m1, c1 in a.items():
        for m2, c2 in b.items():
            m = _mmul(m1, m2)
            v = r.get(m, 0) + c1 * c2
            if v:
                r[m] = v
            else:
                r.pop(m, None)
    return r


def p_pow(a, n):
    r = p_const(1)
    for _ in range(n):
        r = p_mul(r, a)
    return r


def p_show(p, limit=6):
    if not p:
        return "0"
    items = sorted(p.items(), key=lambda t: str(t[0]))
    out = []
    for m, c in items[:limit]:
        mon = "*".join(v if e == 1 else f"{v}^{e}" for v, e in m) or "1"
        out.append(f"{c}*{mon}" if c != 1 or not m else mon)
    return " + ".join(out) + (" + ..." if len(items) > limit else "")


def atom_name(e: Ex) -> str:
    return "@" + show(e, -50)


def to_rat(e: Ex, atoms=None, limit=200000):
    """Ex -> (num Poly, den Poly).  Function atoms become variables named after the
    normal form of their arguments.  I (imaginary unit) satisfies I^2 = -1."""
    if atoms is None:
        atoms = {}
    memo = {}

    def norm_atom(ex):
        # canonical name for f(args): args normalised as rational functions
        name = ex.args[0]
        parts = []
        for a in ex.args[1:]:
            n, d = rec(a)
            parts.append((_canon(n), _canon(d)))
        key = (name, tuple(parts))
        nm = atoms.get(key)
        if nm is None:
            nm = f"@{name}#{len(atoms)}"
            atoms[key] = nm
        return nm

    def rec(x):
        r = memo.get(x)
        if r is not None:
            return r
        if x.op == "c":
            r = (p_const(x.args[0]), p_const(1))
        elif x.op == "s":
            r = (p_var(x.args[0]), p_const(1))
        elif x.op == "cs":
            r = (p_var("~" + x.args[0]), p_const(1))
        elif x.op == "I":
            r = (p_var("@I"), p_const(1))
        elif x.op == "+":
            (n1, d1), (n2, d2) = rec(x.args[0]), rec(x.args[1])
            if d1 == d2:
                r = (p_add(n1, n2), d1)
            else:
                r = (p_add(p_mul(n1, d2), p_mul(n2, d1)), p_mul(d1, d2))
        elif x.op == "*":
            (n1, d1), (n2, d2) = rec(x.args[0]), rec(x.args[1])
            r = (p_mul(n1, n2), p_mul(d1, d2))
        elif x.op == "/":
            (n1, d1), (n2, d2) = rec(x.args[0]), rec(x.args[1])
            if not n2:
                raise ZeroDivisionError("division by a term that normalises to zero")
            r = (p_mul(n1, d2), p_mul(d1, n2))
        elif x.op == "^":
            n1, d1 = rec(x.args[0])
            r = (p_pow(n1, x.args[1]), p_pow(d1, x.args[1]))
        elif x.op == "f":
            r = (p_var(norm_atom(x)), p_const(1))
        else:
            raise NotRational(x.op)
        r = (_reduce_I(r[0]), _reduce_I(r[1]))
        if len(r[0]) + len(r[1]) > limit:
            raise NotRational("term too large")
        memo[x] = r
        return r

    return rec(e)


def _reduce_I(p):
    if not any(v == "@I" and ex > 1 for m in p for v, ex in m):
        return p
    r = {}
    for m, c in p.items():
        nm = []
        for v, ex in m:
            if v == "@I":
                q, rem = divmod(ex, 2)
                if q % 2:
                    c = -c
                if rem:
                    nm.append((v, 1))
            else:
                nm.append((v, ex))
        nm = tuple(nm)
        val = r.get(nm, 0) + c
        if val:
            r[nm] = val
        else:
            r.pop(nm, None)
    return r


def _canon(p):
    return tuple(sorted(p.items()))


# ----------------------------------------------------------------- numerics

_FUNCS = {
    "sqrt": cmath.sqrt,
    "exp": cmath.exp,
    "ln": cmath.log,
    "sin": cmath.sin,
    "cos": cmath.cos,
    "tan": cmath.tan,
    "sinh": cmath.sinh,
    "cosh": cmath.cosh,
    "tanh": cmath.tanh,
    "asin": cmath.asin,
    "acos": cmath.acos,
    "atan": cmath.atan,
    "abs": lambda z: complex(abs(z)),
    "real": lambda z: complex(z.real),
    "imag": lambda z: complex(z.imag),
    "sign": lambda z: complex((z.real > 0) - (z.real < 0)),
    "pow": lambda a, b: cmath.exp(b * cmath.log(a)) if a != 0 else (0j if b.real > 0 else complex("nan")),
    "atan2": lambda a, b: complex(math.atan2(a.real, b.real)),
    "min": lambda a, b: a if a.real <= b.real else b,
    "max": lambda a, b: a if a.real >= b.real else b,
}


def _erf(z):
    if z.imag == 0:
        return complex(math.erf(z.real))
    # series, adequate for |z| small (random points are O(1))
    s, term, n = 0j, z, 0
    while abs(term) > 1e-17 and n < 200:
        s += term / (2 * n + 1)
        n += 1
        term = -term * z * z / n
    return 2 / math.sqrt(math.pi) * s


_FUNCS["erf"] = _erf


def opaque_value(name, argvals, salt):
    """Deterministic pseudo-random value for an uninterpreted function application."""
    h = hash((name, tuple(round(v.real, 9) for v in argvals), tuple(round(v.imag, 9) for v in argvals), salt))
    r = random.Random(h)
    return complex(r.uniform(0.5, 1.5), 0.0)


def evaluate(e: Ex, env: dict, salt=0, memo=None):
    """Numeric value of e.  env: symbol name -> complex."""
    if memo is None:
        memo = {}

    def rec(x):
        r = memo.get(x)
        if r is not None:
            return r
        op = x.op
        if op == "c":
            r = complex(x.args[0])
        elif op == "s":
            r = complex(env[x.args[0]])
        elif op == "cs":
            r = complex(env[x.args[0]]).conjugate()
        elif op == "I":
            r = 1j
        elif op == "+":
            r = rec(x.args[0]) + rec(x.args[1])
        elif op == "*":
            r = rec(x.args[0]) * rec(x.args[1])
        elif op == "/":
            r = rec(x.args[0]) / rec(x.args[1])
        elif op == "^":
            r = rec(x.args[0]) ** x.args[1]
        elif op == "f":
            name = x.args[0]
            vals = [rec(a) for a in x.args[1:]]
            if name == "conj_of":
                r = vals[0].conjugate()
            elif name in _FUNCS:
                r = complex(_FUNCS[name](*vals))
            else:
                r = opaque_value(name, vals, salt)
        elif op == "cond":
            r = rec(x.args[1]) if truth(x.args[0]) else rec(x.args[2])
        else:
            raise ValueError(f"cannot evaluate {op}")
        memo[x] = r
        return r

    def truth(c):
        if c.op == "rel":
            o, a, b = c.args
            va, vb = rec(a), rec(b)
            if o in ("<", "<=", ">", ">="):
                va, vb = va.real, vb.real
            return {"<": va < vb, "<=": va <= vb, ">": va > vb, ">=": va >= vb, "==": va == vb, "!=": va != vb}[o]
        if c.op == "and":
            return truth(c.args[0]) and truth(c.args[1])
        if c.op == "or":
            return truth(c.args[0]) or truth(c.args[1])
        if c.op == "not":
            return not truth(c.args[0])
        if c.op == "f" and c.args[0] not in _FUNCS:
            return opaque_value(c.args[0], [rec(a) for a in c.args[1:]], salt).real > 1.0
        raise ValueError(f"not a condition: {c.op}")

    return rec(e)


def symbols_of(e: Ex, acc=None):
    if acc is None:
        acc = set()
    seen = set()
    todo = [e]
    while todo:
        x = todo.pop()
        if x in seen:
            continue
        seen.add(x)
        if x.op in ("s", "cs"):
            acc.add(x.args[0])
        for a in x.args:
            if isinstance(a, Ex):
                todo.append(a)
    return acc


def realify(e: Ex, memo=None) -> Ex:
    """The term under the assumption that every symbol is real: conj(s)=s, real(x)=x, imag(x)=0."""
    if memo is None:
        memo = {}

    def rec(x):
        r = memo.get(x)
        if r is not None:
            return r
        if x.op == "cs":
            r = Ex("s", x.args[0])
        elif x.op in ("c", "s"):
            r = x
        elif x.op == "I":
            r = x
        elif x.op == "f" and x.args[0] in ("real", "conj_of"):
            r = rec(x.args[1])
        elif x.op == "f" and x.args[0] == "imag":
            r = ZERO
        elif x.op == "+":
            r = add(rec(x.args[0]), rec(x.args[1]))
        elif x.op == "*":
            r = mul(rec(x.args[0]), rec(x.args[1]))
        elif x.op == "/":
            r = div(rec(x.args[0]), rec(x.args[1]))
        else:
            r = Ex(x.op, *[rec(a) if isinstance(a, Ex) else a for a in x.args])
        memo[x] = r
        return r

    return rec(e)


def _has_I(e):
    seen, todo = set(), [e]
    while todo:
        x = todo.pop()
        if x in seen:
            continue
        seen.add(x)
        if x.op == "I":
            return True
        todo.extend(a for a in x.args if isinstance(a, Ex))
    return False


# above this many monomial products the identity is decided by random interpretation instead of the exact
# normal form (the cross-multiplied polynomials of geometry-laden terms have 10^5..10^7 monomials)
EXACT_PRODUCT_LIMIT = 60000


def equal(a: Ex, b: Ex, rng=None, points=12, real_only=False, tol=1e-8):
    """Decide a == b.  Returns (True, 'exact'|'random', None) or (False, how, witness)."""
    if a is b:
        return True, "identical", None
    if real_only and not _has_I(a) and not _has_I(b):
        a, b = realify(a), realify(b)
        if a is b:
            return True, "identical", None
    saved = _P_MUL_BUDGET[0]
    try:
        atoms = {}
        _P_MUL_BUDGET[0] = EXACT_PRODUCT_LIMIT
        n1, d1 = to_rat(a, atoms)
        n2, d2 = to_rat(b, atoms)
        lhs, rhs = p_mul(n1, d2), p_mul(n2, d1)
        _P_MUL_BUDGET[0] = saved
        if lhs == rhs:
            return True, "exact", None
        if not atoms:
            diff = p_add(lhs, p_scale(rhs, -1))
            return False, "exact", "difference (cross-multiplied): " + p_show(diff)
    except NotRational:
        pass
    finally:
        _P_MUL_BUDGET[0] = saved
    # random interpretation
    rng = rng or random.Random(0)
    names = sorted(symbols_of(a) | symbols_of(b))
    bad = None
    good = 0
    tries = 0
    while good < points and tries < points * 6:
        tries += 1
        if real_only:
            env = {n: complex(rng.uniform(0.3, 1.7) * rng.choice((1, 1, -1)), 0) for n in names}
        else:
            env = {n: complex(rng.uniform(0.3, 1.7) * rng.choice((1, 1, -1)), rng.uniform(-0.4, 0.4)) for n in names}
        try:
            va = evaluate(a, env, salt=tries)
            vb = evaluate(b, env, salt=tries)
        except (ZeroDivisionError, ValueError, OverflowError):
            continue
        if va != va or vb != vb:
            continue
        good += 1
        if abs(va - vb) > tol * (1 + abs(va) + abs(vb)):
            bad = {k: v for k, v in list(env.items())[:8]}
            return False, "random", f"at {bad}: {va} != {vb}"
    if good == 0:
        return False, "random", "no admissible evaluation point found"
    return True, "random", None
