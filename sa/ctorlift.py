"""Lifting of expression *constructors* (`__new__` / `__init__` / `_simplify_indexed` / the operator
functions of exproperators.py / as_tensor ...) on structured symbolic operands.

Every node is a uflsem.T value (its mathematical meaning) carrying its node identity (class name,
operands).  When lifted repository code constructs a node of class K, `K.__new__` and `K.__init__` are
interpreted from source; if they end up creating a fresh K2 instance with operands `ops`, the instance
is replaced by the *reference* meaning of K2 applied to `ops` (sa/uflmodel.py), after checking that the
shape / free indices / index dimensions the source declares for the instance are those of that meaning.
If the constructor returns something else (an operand, a Zero, a folded literal, a differently built
expression), that value is the result.  Either way the caller can compare the meaning of what was
built with the meaning of the operation that was requested.
"""

from __future__ import annotations

import ast
from types import SimpleNamespace

from . import uflmodel, uflsem
from .lift import BoundMethod, Interp, LiftRaise, Obj, Unsupported
from .model import ClassInfo, FuncInfo
from .passlift import install_node_protocol
from .uflmodel import MI, Cnd
from .uflsem import Idx, SemError, T, as_T

# classes whose construction is interpreted from the repository source
LIFTED = [
    "Sum", "Product", "Division", "Power", "Abs", "Conj", "Real", "Imag",
    "Indexed", "IndexSum", "ComponentTensor", "ListTensor", "Conditional",
    "Sqrt", "Exp", "Ln", "Cos", "Sin", "Tan", "Cosh", "Sinh", "Tanh", "Acos", "Asin", "Atan", "Erf", "Atan2",
    "MinValue", "MaxValue",
    "Inner", "Dot", "Outer",
]  # fmt: skip


class DeclaredMismatch(Exception):
    pass


class CtorHarness:
    def __init__(self, ctx, lifted=LIFTED):
        self.ctx = ctx
        self.prog = ctx.prog
        self.ip = uflmodel.install(Interp(self.prog))
        self.ip.type_model = ctx.tm
        self.ip.honor_new = True
        holder = SimpleNamespace(ip=self.ip, prog=self.prog, ctx=ctx)
        install_node_protocol(holder)
        self.ref = dict(self.ip.class_models)
        self.lifted = [n for n in lifted if n in self.ref]
        self.mismatches = []  # declared shape / indices differing from the reference meaning
        self.built = {}  # class name -> number of fresh instances built from source
        self.depth = 0
        for name in self.lifted:
            self.ip.class_models[name] = (lambda name: lambda *a, **k: self.construct(name, a, k))(name)
        # canonical operand order is decided by C29; any order has the same meaning here
        self.ip.overrides["sorted_expr"] = lambda seq: list(seq)
        # the tensor-building helpers are interpreted from source too (not the interpreter's built-in semantics)
        for helper in ("as_tensor", "as_vector", "as_matrix", "as_scalar", "as_scalars", "unit_vector", "unit_vectors", "unit_matrix", "unit_matrices", "dyad", "relabel"):
            self.ip.overrides.pop(helper, None)
        # language functions that build one node: through the lifted constructor (results keep node identity)
        for fname, cname in (("conj", "Conj"), ("real", "Real"), ("imag", "Imag"), ("sqrt", "Sqrt"), ("exp", "Exp"), ("ln", "Ln"), ("cos", "Cos"), ("sin", "Sin"), ("tan", "Tan"), ("cosh", "Cosh"), ("sinh", "Sinh"), ("tanh", "Tanh"), ("acos", "Acos"), ("asin", "Asin"), ("atan", "Atan"), ("erf", "Erf"), ("max_value", "MaxValue"), ("min_value", "MinValue")):
            if cname in self.lifted:
                self.ip.overrides[fname] = (lambda cname: lambda *a: self.construct(cname, tuple(uflmodel.m_scalar(x) if not isinstance(x, (T, Cnd)) else x for x in a)))(cname)
        self.ip.overrides["atan2"] = lambda a, b: self.construct("Atan2", (a, b))
        self._install_methods()
        self._install_operators()

    # ------------------------------------------------------------------ construction
    def klass(self, name):
        tm = self.ctx.tm
        if name in tm.types:
            return tm.types[name].cls
        return self.prog.get_class(name)

    def construct(self, name, args, kwargs=None):
        K = self.klass(name)
        args = list(args)
        kwargs = dict(kwargs or {})
        self.depth += 1
        if self.depth > 60:
            self.depth = 0
            raise Unsupported("constructor recursion too deep")
        try:
            new = self.prog.lookup(K, "__new__")
            if isinstance(new, FuncInfo):
                r = self.ip.call_function(new, [K] + args, kwargs)
            else:
                r = self.ip.object_new(K)
            k2 = r.attrs.get("__class__") if isinstance(r, Obj) else None
            if isinstance(k2, ClassInfo) and k2.is_subclass_of(K.name):
                init = self.prog.lookup(k2, "__init__")
                if isinstance(init, FuncInfo):
                    self.ip.call_function(init, args, kwargs, self_obj=r)
                return self.convert(r)
            if isinstance(r, Obj) and isinstance(k2, ClassInfo):
                return self.convert(r)
            return r
        finally:
            self.depth -= 1

    def convert(self, o: Obj):
        """fresh instance built by the source -> reference meaning of its class applied to its operands"""
        K = o.attrs["__class__"]
        if "ufl_operands" not in o.attrs:
            raise LiftRaise(f"AttributeError: {K.name} instance constructed without ufl_operands")
        ops = tuple(o.attrs["ufl_operands"])
        model = self.ref.get(K.name)
        if model is None:
            raise Unsupported(f"no reference model for {K.name}")
        try:
            m = model(*ops)
        except SemError as e:
            raise LiftRaise(f"ill-formed {K.name} node built: {e}")
        self.built[K.name] = self.built.get(K.name, 0) + 1
        if isinstance(m, T):
            o.attrs["__initialised_from_source__"] = True
            want = {"ufl_shape": tuple(m.shape), "ufl_free_indices": tuple(i.id for i in m.fi), "ufl_index_dimensions": tuple(m.fid)}
            for attr, w in want.items():
                try:
                    got = self.ip.getattr(o, attr, None, None)
                except LiftRaise as e:
                    self.mismatches.append((K.name, attr, f"raises {e.what}", w, ops))
                    continue
                got = tuple(got) if isinstance(got, (tuple, list)) else got
                if got != w:
                    self.mismatches.append((K.name, attr, got, w, ops))
        return m

    # ------------------------------------------------------------------ methods of nodes
    def _install_methods(self):
        ip = self.ip
        prev = ip.attr_hook
        prog = self.prog
        tm = self.ctx.tm
        own = {"ufl_operands", "_ufl_expr_reconstruct_", "ufl_shape", "ufl_free_indices", "ufl_index_dimensions", "T", "dx"}

        def attr_hook(o, a):
            if isinstance(o, T) and a == "__getitem__":
                return lambda key: ip.subscript(o, key, None)
            if isinstance(o, T) and a == "dx":
                return lambda *ii: ip.call_function(prog.get_function("ufl.exproperators", "_dx"), [o] + list(ii), {})
            if isinstance(o, T) and a == "T" and "T" not in o.tags:
                return ip.call_function(prog.get_function("ufl.exproperators", "_transpose"), [o], {})
            r = prev(o, a) if prev is not None else NotImplemented
            if r is not NotImplemented:
                return r
            if isinstance(o, (T, Cnd)) and a not in own and a not in getattr(o, "tags", {}):
                cn = o.tags.get("ufl_class")
                if cn is None and isinstance(o, T):
                    cn = "Zero" if o.is_zero_literal else None
                if cn and cn in tm.types:
                    K = tm.types[cn].cls
                    f = prog.lookup(K, a)
                    if isinstance(f, FuncInfo):
                        if "property" in f.decorators():
                            return ip.call_function(f, [], {}, self_obj=o)
                        return BoundMethod(ip, f, o)
            return NotImplemented

        ip.attr_hook = attr_hook

    # ------------------------------------------------------------------ python operators on nodes
    def _install_operators(self):
        ip = self.ip
        prog = self.prog
        xo = "ufl.exproperators"
        fn = lambda n: prog.get_function(xo, n)  # noqa: E731
        bin_ = {ast.Mult: ("_mul", "_rmul"), ast.Add: ("_add", "_radd"), ast.Sub: ("_sub", "_rsub"), ast.Div: ("_div", "_rdiv"), ast.Pow: ("_pow", "_rpow")}

        def is_node(x):
            return isinstance(x, T)

        def binop_hook(op, a, b, node):
            if op not in bin_ or not (is_node(a) or is_node(b)):
                return NotImplemented
            if isinstance(a, (tuple, list, str)) or isinstance(b, (tuple, list, str)):
                return NotImplemented
            f, rf = bin_[op]
            if is_node(a):
                r = ip.call_function(fn(f), [a, b], {})
                if r is not NotImplemented:
                    return r
            if is_node(b):
                r = ip.call_function(fn(rf), [b, a], {})
                if r is not NotImplemented:
                    return r
            raise LiftRaise("TypeError: unsupported operand types", node)

        def subscript_hook(obj, key, node):
            if not is_node(obj):
                return NotImplemented
            if isinstance(key, list):
                key = tuple(key)
            cn = obj.tags.get("ufl_class")
            K = self.ctx.tm.types[cn].cls if cn in self.ctx.tm.types else None
            gi = prog.lookup(K, "__getitem__") if K is not None else None
            if isinstance(gi, FuncInfo):
                return ip.call_function(gi, [key], {}, self_obj=obj)
            return ip.call_function(fn("_getitem"), [obj, key], {})

        def unop_hook(op, v, node):
            if not is_node(v):
                return NotImplemented
            if op is ast.USub:
                return ip.call_function(fn("_neg"), [v], {})
            if op is ast.UAdd:
                return v
            return NotImplemented

        # expr(side) / expr(x): Expr.__call__ from source (restriction through the lifted constructors)
        ip.call_value = lambda t, args, kwargs: ip.call_function(fn("_call"), [t] + list(args), dict(kwargs))
        ip.binop_hook = binop_hook
        ip.subscript_hook = subscript_hook
        ip.unop_hook = unop_hook
        ip.overrides["abs"] = lambda v: ip.call_function(fn("_abs"), [v], {}) if is_node(v) else abs(v)

    # ------------------------------------------------------------------ entry points
    def call(self, module, fname, *args, **kwargs):
        return self.ip.call_function(self.prog.get_function(module, fname), list(args), dict(kwargs))

    def getitem(self, A, key):
        return self.ip.subscript(A, key, None)
