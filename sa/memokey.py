"""Shared rule MEMO-KEY: a memo table must be keyed by everything its cached value is built from.

Recognised memo idioms (enumerated from the repository):
  (a)  v = C.get(K) ; if v is None: v = E ; C[K] = v
  (b)  v = C.setdefault(K, E)
  (c)  try: return C[K]  except KeyError: v = E ... C[K] = v
  (d)  K assigned to a local name first (`key = (...)`; `cache_key = ...`)
For each site the *inputs* of E (local names / parameters / self attributes that E reads, minus
names of classes, functions and modules) must all occur in K.  Inputs that are themselves derived
only from names in K are accepted (one level of local definitions is followed).  `self` alone (the
algorithm object whose cache it is) and loop-invariant module constants are not inputs.
"""

from __future__ import annotations

import ast

from .model import ClassInfo, FuncInfo, Module, norm


def _names(node, prog, mod, fn_locals):
    """Data names read by an expression: Name ids that are locals/params, and self.attr chains."""
    out = set()

    class V(ast.NodeVisitor):
        def visit_Attribute(self, n):
            s = norm(n)
            if s.startswith("self.") and s.count(".") == 1:
                out.add(s)
                return
            self.generic_visit(n)

        def visit_Name(self, n):
            if n.id in fn_locals and n.id != "cls":
                out.add(n.id)

        def visit_Lambda(self, n):
            self.generic_visit(n.body)

    V().visit(node)
    return out


class Defs(dict):
    """name -> list of defining expressions; .unpacked = names bound by unpacking a non-literal sequence
    (each such name is only a *part* of the right-hand side)"""

    def __init__(self):
        super().__init__()
        self.unpacked = set()


_WHOLE_METHODS = {"items", "keys", "values", "copy", "indices"}
_WHOLE_CALLS = {"tuple", "list", "sorted", "frozenset", "set", "dict", "id", "as_ufl", "as_tensor"}


def _uses(node, prog, mod, fn_locals):
    """[(name, projection text | None)]: how each data name is used - whole (None), or only through a
    projection of it (attribute / item / method result), e.g. ('op', 'op.ufl_shape')"""
    out = []

    def visit(n, proj):
        if isinstance(n, ast.Name):
            if n.id in fn_locals and n.id != "cls":
                out.append((n.id, proj))
            return
        if isinstance(n, ast.Attribute):
            s = norm(n)
            if s.startswith("self.") and s.count(".") == 1:
                out.append((s, proj))
                return
            visit(n.value, proj or norm(n))
            return
        if isinstance(n, ast.Subscript):
            visit(n.value, proj or norm(n))
            visit(n.slice, None)
            return
        if isinstance(n, ast.Call):
            f = n.func
            if isinstance(f, ast.Attribute):
                if f.attr in _WHOLE_METHODS:
                    visit(f.value, proj)
                else:
                    visit(f.value, proj or norm(n))
            elif isinstance(f, ast.Name):
                if f.id not in _WHOLE_CALLS and len(n.args) == 1 and not n.keywords and isinstance(n.args[0], ast.Name):
                    # f(x) of a plain function is a projection of x (type(x), len(x), str(x), C(x) ...)
                    visit(n.args[0], proj or norm(n))
                    return
            else:
                visit(f, None)
            for a in n.args:
                visit(a.value if isinstance(a, ast.Starred) else a, None)
            for k in n.keywords:
                visit(k.value, None)
            return
        if isinstance(n, ast.Lambda):
            visit(n.body, None)
            return
        for c in ast.iter_child_nodes(n):
            visit(c, None)

    visit(node, None)
    return out


def _local_defs(fn: ast.FunctionDef):
    """name -> list of value expressions assigned to it (simple and tuple targets)."""
    defs = Defs()
    for st in ast.walk(fn):
        if isinstance(st, ast.Assign):
            for t in st.targets:
                if isinstance(t, ast.Name):
                    defs.setdefault(t.id, []).append(st.value)
                elif isinstance(t, (ast.Tuple, ast.List)):
                    literal = isinstance(st.value, (ast.Tuple, ast.List)) and len(st.value.elts) == len(t.elts)
                    for pos, e in enumerate(t.elts):
                        if isinstance(e, ast.Name):
                            defs.setdefault(e.id, []).append(st.value.elts[pos] if literal else st.value)
                            if not literal:
                                defs.unpacked.add(e.id)
                        elif isinstance(e, ast.Starred) and isinstance(e.value, ast.Name):
                            defs.setdefault(e.value.id, []).append(st.value)
        elif isinstance(st, ast.AugAssign) and isinstance(st.target, ast.Name):
            defs.setdefault(st.target.id, []).append(st.value)
        elif isinstance(st, ast.AnnAssign) and isinstance(st.target, ast.Name) and st.value is not None:
            defs.setdefault(st.target.id, []).append(st.value)
        elif isinstance(st, (ast.For, ast.comprehension)):
            for e in ast.walk(st.target):
                if isinstance(e, ast.Name):
                    defs.setdefault(e.id, []).append(st.iter)
        elif isinstance(st, ast.Call) and isinstance(st.func, ast.Attribute) and isinstance(st.func.value, ast.Name) and st.func.attr in ("append", "extend", "add", "update", "insert", "setdefault"):
            # a value built up in place: what is put into it defines it
            for a in st.args:
                defs.setdefault(st.func.value.id, []).append(a)
        elif isinstance(st, ast.Assign) and len(st.targets) == 1 and isinstance(st.targets[0], ast.Subscript) and isinstance(st.targets[0].value, ast.Name):
            defs.setdefault(st.targets[0].value.id, []).append(st.value)
    return defs


def _fn_locals(fn: ast.FunctionDef):
    names = {a.arg for a in fn.args.posonlyargs + fn.args.args + fn.args.kwonlyargs}
    if fn.args.vararg:
        names.add(fn.args.vararg.arg)
    if fn.args.kwarg:
        names.add(fn.args.kwarg.arg)
    for n in ast.walk(fn):
        if isinstance(n, ast.Name) and isinstance(n.ctx, ast.Store):
            names.add(n.id)
    names.discard("self")
    return names


def find_memo_sites(fi: FuncInfo):
    """Yield (cache_text, key_expr, value_expr, node) for every memo idiom in the function."""
    fn = fi.node
    defs = _local_defs(fn)
    fn_locals = _fn_locals(fn)
    sites = []
    # (b) setdefault
    for n in ast.walk(fn):
        if isinstance(n, ast.Call) and isinstance(n.func, ast.Attribute) and n.func.attr == "setdefault" and len(n.args) == 2:
            cache = norm(n.func.value)
            if "cache" in cache.lower() or "rules" in cache.lower() or "memo" in cache.lower():
                sites.append((cache, n.args[0], n.args[1], n))
    # (a)/(c): C[K] = v stores, with a lookup of C under the same key text in the function
    def cachey(cache):
        return "cache" in cache.lower() or "rules" in cache.lower() or "memo" in cache.lower() or cache in ("c",)

    stores = []
    for n in ast.walk(fn):
        if isinstance(n, ast.Assign):
            for t in n.targets:  # chained `r = C[K] = E` has two targets
                if isinstance(t, ast.Subscript):
                    stores.append((norm(t.value), t.slice, n.value, n))
    lookups = set()  # any read of C under the key
    guarded = set()  # reads that *test* for presence: `K in C`, `C.get(K)`, `try: C[K] except KeyError` - the memo idiom whatever C is called
    for t in ast.walk(fn):
        if isinstance(t, ast.Try) and any(h.type is not None and "KeyError" in norm(h.type) for h in t.handlers):
            for st in t.body:
                for n in ast.walk(st):
                    if isinstance(n, ast.Subscript) and isinstance(n.ctx, ast.Load):
                        guarded.add((norm(n.value), norm(n.slice)))
    # a memo of memos: `inner = self.C.setdefault(K1, {})` / `inner = self.C[K1]`, then `inner[K2] = v` is self.C[(K1, K2)] = v
    nested = {}
    for name, ds in defs.items():
        if len(ds) == 1 and name not in defs.unpacked:
            d = ds[0]
            if isinstance(d, ast.Call) and isinstance(d.func, ast.Attribute) and d.func.attr in ("setdefault", "get") and d.args and norm(d.func.value).startswith("self."):
                nested[name] = (norm(d.func.value), d.args[0])
            elif isinstance(d, ast.Subscript) and norm(d.value).startswith("self."):
                nested[name] = (norm(d.value), d.slice)
    for n in ast.walk(fn):
        if isinstance(n, ast.Call) and isinstance(n.func, ast.Attribute) and n.func.attr == "get" and n.args:
            lookups.add((norm(n.func.value), norm(n.args[0])))
            guarded.add((norm(n.func.value), norm(n.args[0])))
        if isinstance(n, ast.Subscript) and isinstance(n.ctx, ast.Load):
            lookups.add((norm(n.value), norm(n.slice)))
        if isinstance(n, ast.Compare) and len(n.ops) == 1 and isinstance(n.ops[0], (ast.In, ast.NotIn)):
            lookups.add((norm(n.comparators[0]), norm(n.left)))
            guarded.add((norm(n.comparators[0]), norm(n.left)))
    for cache, key, val, n in stores:
        if cache in nested and (cache, norm(key)) in guarded:
            outer, k1 = nested[cache]
            sites.append((outer, ast.Tuple(elts=[k1, key], ctx=ast.Load()), val, n))
        elif (cachey(cache) and (cache, norm(key)) in lookups) or ((cache, norm(key)) in guarded and (cache.startswith("self.") or (cache.isidentifier() and cache not in fn_locals))):
            # a presence-tested table that outlives the call: an attribute of the object, a module-level or closure variable
            sites.append((cache, key, val, n))
    out = []
    for cache, key, val, n in sites:
        # resolve value expression through one local definition (v = E; C[K] = v)
        vals = [val]
        if isinstance(val, ast.Name) and val.id in defs:
            vals = [d for d in defs[val.id] if not (isinstance(d, ast.Call) and isinstance(d.func, ast.Attribute) and d.func.attr == "get")]
            # drop `v = C.get(K)` and `v = C[K]`
            vals = [d for d in vals if norm(d) not in {f"{cache}[{norm(key)}]"}]
        keys = [key]
        if isinstance(key, ast.Name) and key.id in defs and key.id not in defs.unpacked:
            keys = defs[key.id]  # a key that is one unpacked part of something is not that something
        out.append((cache, keys, vals, n))
    return out


def _key_constants(key, locs):
    """positions of a literal tuple key that hold a constant (a global name such as a class, or a literal)"""
    if not isinstance(key, ast.Tuple):
        return None
    out = {}
    for i, e in enumerate(key.elts):
        if isinstance(e, ast.Constant):
            out[i] = repr(e.value)
        elif isinstance(e, ast.Name) and e.id not in locs:
            out[i] = e.id
    return len(key.elts), out


def check_site_separation(rep, rule, by_cache):
    """Stores into one memo from different sites that compute different things must not be able to collide:
    their keys have different lengths or differ in a constant component."""
    for (owner, cache), sites in by_cache.items():
        for i in range(len(sites)):
            for j in range(i + 1, len(sites)):
                (fi1, n1, k1, v1, l1), (fi2, n2, k2, v2, l2) = sites[i], sites[j]
                if v1 == v2:
                    continue
                c1, c2 = _key_constants(k1, l1), _key_constants(k2, l2)
                if c1 is None or c2 is None:
                    continue  # not literal tuples: undecided here

                def self_describing(k, v):
                    """positions of the key that hold the very callable the value is computed with"""
                    return {i for i, e in enumerate(k.elts) if norm(e) == v}

                s1, s2 = self_describing(k1, v1), self_describing(k2, v2)
                if s1 & s2:
                    # both keys name, at the same position, what computes their value: equal keys => the same computation
                    rep.ok(rule, (fi1, n1), f"memo {cache}: keys `{norm(k1)}` and `{norm(k2)}` carry the callable that computes the value")
                    continue
                if c1[0] != c2[0] or any(p in c2[1] and c2[1][p] != t for p, t in c1[1].items()):
                    rep.ok(rule, (fi1, n1), f"memo {cache}: keys `{norm(k1)}` and `{norm(k2)}` of two different computations cannot collide")
                    continue
                rep.violation(
                    rule,
                    (fi2, n2),
                    f"{cache}[{norm(k2)}] = {v2}  vs  {cache}[{norm(k1)}] = {v1}",
                    f"memo {cache} stores `{v1}` under `{norm(k1)}` (line {n1.lineno}) and `{v2}` under `{norm(k2)}`: the two keys have the same "
                    "length and no differing constant component, so one computation can be handed the other's entry",
                )


def _innermost_function(root, target):
    """the innermost FunctionDef/Lambda of `root` (inclusive) that contains the node `target`"""
    best = None

    def rec(n, cur):
        nonlocal best
        if n is target:
            best = cur
            return True
        for c in ast.iter_child_nodes(n):
            if rec(c, c if isinstance(c, (ast.FunctionDef, ast.AsyncFunctionDef)) else cur):
                return True
        return False

    rec(root, root)
    return best


def check_memo_owner(fi, rep, rule, cache, vals, node):
    """A memo held outside the object (a closure variable of a decorator, a module-level dict) must not store
    values computed from the object: `c[o] = handler(self, o)` with `c` shared by all instances hands one
    instance's result to every other instance."""
    if cache.startswith("self.") or not cache.isidentifier():
        return
    owner = _innermost_function(fi.node, node)
    if owner is None:
        return
    params = [a.arg for a in owner.args.posonlyargs + owner.args.args]
    if "self" not in params:
        return
    local = any(isinstance(n, ast.Name) and isinstance(n.ctx, ast.Store) and n.id == cache for n in ast.walk(owner))
    if local or cache in params:
        return
    uses_self = any(isinstance(n, ast.Name) and n.id == "self" for v in vals for n in ast.walk(v))
    if uses_self:
        rep.violation(
            rule,
            (fi, node),
            f"{cache}[...] = {' | '.join(norm(v) for v in vals)}",
            f"memo `{cache}` lives outside the object (it is not bound in {owner.name} nor an attribute of self) but stores values computed from "
            "`self`: all instances share one table, so an instance with different state is handed another instance's result",
        )
    else:
        rep.ok(rule, (fi, node), f"memo `{cache}` shared between objects stores values that do not depend on self")


_MUTATING_METHODS = {"append", "extend", "insert", "update", "setdefault", "pop", "popitem", "remove", "clear", "sort", "reverse", "add", "discard"}


def check_shared_results(prog, mod, rep, rule):
    """The result of a function memoised with functools.cache / lru_cache is one object shared by all callers: a caller
    must not modify it in place (`x += [...]`, `x.append(..)`, `x[k] = ..`), directly or after parking it in an
    attribute, or every later caller - and every object that already holds it - sees the change."""
    cached = {}
    for fi in mod.functions.values():
        decos = [norm(d.func if isinstance(d, ast.Call) else d).split(".")[-1] for d in fi.node.decorator_list]
        if any(d in ("cache", "lru_cache") for d in decos):
            cached[fi.name] = fi
    n = 0
    if not cached:
        return 0
    funcs = list(mod.functions.values()) + [f for c in mod.classes.values() for f in c.all_defs]
    for fi in funcs:
        shared = {}  # target text -> (cached function, call node)
        for st in ast.walk(fi.node):
            if isinstance(st, ast.Assign) and isinstance(st.value, ast.Call) and norm(st.value.func) in cached:
                for t in st.targets:
                    for e in (t.elts if isinstance(t, (ast.Tuple, ast.List)) else [t]):
                        shared[norm(e)] = (norm(st.value.func), st)
        if not shared:
            continue
        n_before = n
        for st in ast.walk(fi.node):
            hit = None
            if isinstance(st, ast.AugAssign) and norm(st.target) in shared:
                hit = norm(st.target)
            elif isinstance(st, ast.Call) and isinstance(st.func, ast.Attribute) and st.func.attr in _MUTATING_METHODS and norm(st.func.value) in shared:
                hit = norm(st.func.value)
            elif isinstance(st, (ast.Assign, ast.Delete)):
                for t in st.targets:
                    if isinstance(t, ast.Subscript) and norm(t.value) in shared:
                        hit = norm(t.value)
            if hit:
                n += 1
                rep.violation(
                    rule,
                    (fi, st),
                    norm(st)[:120],
                    f"{fi.qualname} modifies `{hit}` in place, which is (part of) the memoised result of {shared[hit][0]}(): the one object handed to every caller changes, "
                    "so what a cell / form / algorithm object reports depends on how many others were created",
                )
        if n == n_before:
            rep.ok(rule, fi, f"{fi.qualname}: the memoised results of {sorted({v[0] for v in shared.values()})} bound to {sorted(shared)} are not modified in place")
    return n


def check_singleton_memos(prog, mod, fi, rep, rule):
    """`if self.X is None: self.X = E` (a memo with the empty key): E may depend on the object only, not on the
    arguments of the call that happens to fill it"""
    fn = fi.node
    params = {a.arg for a in fn.args.posonlyargs + fn.args.args + fn.args.kwonlyargs} - {"self", "cls"}
    if not params:
        return 0
    locs = _fn_locals(fn)
    defs = _local_defs(fn)
    n = 0
    for st in ast.walk(fn):
        if not isinstance(st, ast.If):
            continue
        t = st.test
        slot = None
        if isinstance(t, ast.Compare) and len(t.ops) == 1 and isinstance(t.ops[0], ast.Is) and isinstance(t.comparators[0], ast.Constant) and t.comparators[0].value is None:
            slot = norm(t.left)
        elif isinstance(t, ast.UnaryOp) and isinstance(t.op, ast.Not) and isinstance(t.operand, ast.Call) and norm(t.operand.func) == "hasattr" and len(t.operand.args) == 2 and isinstance(t.operand.args[1], ast.Constant):
            slot = f"{norm(t.operand.args[0])}.{t.operand.args[1].value}"
        if not slot or not slot.startswith("self.") or slot.count(".") != 1:
            continue
        for b in st.body:
            if isinstance(b, (ast.Assign, ast.AnnAssign)):
                tgts = b.targets if isinstance(b, ast.Assign) else [b.target]
                if b.value is None or not any(norm(x) == slot for x in tgts):
                    continue
                n += 1
                used, _ = _closure({nm for nm, _ in _uses(b.value, prog, mod, locs)}, defs, prog, mod, locs)
                bad = sorted(x for x in used if x in params)
                if bad:
                    rep.violation(
                        rule,
                        (fi, b),
                        f"{slot} = {norm(b.value)}",
                        f"{slot} is filled once (guarded by `{norm(t)}`) with a value that depends on the call's argument(s) {bad}: "
                        "every later call with a different argument is handed the value computed for the first",
                    )
                else:
                    rep.ok(rule, (fi, b), f"lazily filled {slot} depends on the object only")
    return n


def check_memo_keys(ctx, rep, rule, modules, min_sites=1, only_functions=None, owner_only=False):
    """owner_only: decide only who owns each memo (check_memo_owner), not whether its key covers the inputs"""
    prog = ctx.prog
    n_sites = 0
    for mn in modules:
        mod = prog.module(mn)
        funcs = list(mod.functions.values()) + [f for c in mod.classes.values() for f in c.all_defs]
        by_cache = {}
        for fi in funcs:
            if only_functions and fi.qualname not in only_functions:
                continue
            for cache, keys, vals, node in find_memo_sites(fi):
                if cache.startswith("self.") and len(keys) == 1 and len(vals) == 1 and isinstance(vals[0], ast.Call):
                    owner = fi.qualname.rsplit(".", 1)[0]
                    by_cache.setdefault((owner, cache), []).append((fi, node, keys[0], norm(vals[0].func), _fn_locals(fi.node)))
        if not owner_only:
            check_site_separation(rep, rule, by_cache)
            check_shared_results(prog, mod, rep, rule)
        for fi in funcs:
            if only_functions and fi.qualname not in only_functions:
                continue
            if owner_only:
                for cache, keys, vals, node in find_memo_sites(fi):
                    n_sites += 1
                    check_memo_owner(fi, rep, rule, cache, vals, node)
                continue
            n_sites += check_persistent_caches(prog, mod, fi, rep, rule)
            n_sites += check_singleton_memos(prog, mod, fi, rep, rule)
            sites = find_memo_sites(fi)
            if not sites:
                continue
            locs = _fn_locals(fi.node)
            defs = _local_defs(fi.node)
            for cache, keys, vals, node in sites:
                n_sites += 1
                check_memo_owner(fi, rep, rule, cache, vals, node)
                key_names, key_projs = set(), set()
                for k in keys:
                    for nm, proj in _uses(k, prog, mod, locs):
                        if proj is None:
                            key_names.add(nm)
                        else:
                            key_projs.add(proj)
                key_text = " | ".join(norm(k) for k in keys)
                missing = set()
                for v in vals:
                    for nm, proj in _uses(v, prog, mod, locs):
                        if nm in key_names:
                            continue
                        if proj is not None and proj in key_projs:
                            continue  # the value reads the very projection the key holds
                        if nm == cache:
                            continue
                        # derived only from key names?  follow local definitions (depth 2)
                        if _derived_from(nm, key_names, defs, prog, mod, locs, 4):
                            continue
                        missing.add(nm)
                # the algorithm object's own immutable configuration is not an input of the key
                missing = {m for m in missing if not m.startswith("self.")}
                lossy = _lossy_projection(keys)
                if lossy and not missing:
                    rep.violation(
                        rule,
                        (fi, node),
                        f"{cache}[{key_text}]",
                        f"memo {cache}: the key `{key_text}` projects its inputs lossily ({lossy}); two different requests can share one entry",
                    )
                    continue
                if missing:
                    rep.violation(
                        rule,
                        (fi, node),
                        f"{cache}[{key_text}] = {' | '.join(norm(v) for v in vals)}",
                        f"memo {cache} is keyed by ({key_text}) but the cached value also depends on {sorted(missing)}: "
                        "two requests differing only there share one entry",
                    )
                else:
                    rep.ok(rule, (fi, node), f"memo {cache} keyed by ({key_text}) covers the inputs of its value")
    if n_sites < min_sites:
        from .model import AnalysisError

        raise AnalysisError(f"{rule}: found {n_sites} memo sites in {modules}, expected at least {min_sites}")
    return n_sites


# rcache / result_cache only intern equal results (result -> result): sharing them is harmless
POSITIVE = '''
from functools import cache


@cache
def table_for(name):
    return [name], {name: 1}


def bad_extends_shared(obj, name):
    obj.rows, obj.index = table_for(name)
    obj.rows += [(obj,)]
    return obj


_per_element = {}


def bad_module_table(rule, domain):
    key = (rule, domain.element())
    if key not in _per_element:
        _per_element[key] = rule.build(domain)
    return _per_element[key]


def good_module_table(rule, domain):
    key = (rule, domain)
    if key not in _per_element:
        _per_element[key] = rule.build(domain)
    return _per_element[key]


def good_copies_shared(obj, name):
    rows, index = table_for(name)
    obj.rows = list(rows) + [(obj,)]
    return obj


class Alg:
    def good(self, o, a):
        key = (o, a)
        r = self._memo.get(key)
        if r is None:
            r = self.build(o, a)
            self._memo[key] = r
        return r

    def bad(self, o, a):
        r = self._memo.get(o)
        if r is not None:
            return r
        r = self._memo[o] = self.build(o, a)
        return r

    def good_nested(self, k, a):
        inner = self._table.setdefault(k, {})
        try:
            r = inner[a]
        except KeyError:
            r = inner[a] = self.build(k, a)
        return r

    def bad_nested(self, k, a, b):
        inner = self._table.setdefault(k, {})
        try:
            r = inner[a]
        except KeyError:
            r = inner[a] = self.build(k, a, b)
        return r

    def bad_shared_a(self, o, n):
        return self._rules_cache.setdefault((Alg, n), RulesA(n))(o)

    def bad_shared_b(self, o, n):
        return self._rules_cache.setdefault((Alg, n), RulesB(n))(o)

    def bad_shared_between_objects(handler):
        c = {}

        def wrapped(self, o):
            r = c.get(o)
            if r is None:
                r = handler(self, o)
                c[o] = r
            return r

        return wrapped

    def good_owned_by_object(handler):
        def wrapped(self, o):
            c = getattr(self, "_memo")
            r = c.get(o)
            if r is None:
                r = handler(self, o)
                c[o] = r
            return r

        return wrapped

    def bad_singleton(self, o):
        if self._K is None:
            self._K = make(domain_of(o))
        return self._K

    def good_singleton(self, o):
        if self._Id is None:
            self._Id = make(self._dim)
        return self._Id * o

    def bad_built_in_place(self, element, op):
        ends = self._ends.get(element)
        if ends is None:
            ends, offset = [], 0
            for d in op.domains():
                offset += d.size
                ends.append(offset)
            self._ends[element] = ends
        return ends
'''


def positive_control(ctx):
    """the rule must flag exactly the bad functions of POSITIVE on every run"""
    from .model import AnalysisError
    from .report import Report

    prog = ctx.prog
    name = "verif_memokey_positive"
    if name not in prog.modules:
        prog.add_virtual_module(name, POSITIVE)
    probe = Report("probe")
    check_memo_keys(ctx, probe, "probe", [name], min_sites=0)
    flagged = {f.scope.split(".")[-1] for f in probe.findings}
    expected = {"bad", "bad_built_in_place", "bad_shared_b", "bad_singleton", "bad_shared_between_objects", "bad_extends_shared", "bad_nested", "bad_module_table"}
    if flagged != expected:
        raise AnalysisError(f"memo-key positive control: flagged {sorted(flagged)}, expected {sorted(expected)}")


def memo_rule(ctx, rep, rule, modules, min_sites=0):
    """MEMO-KEY over the given modules + a positive control that must be flagged on every run"""
    prog = ctx.prog
    positive_control(ctx)
    n = check_memo_keys(ctx, rep, rule, modules, min_sites=min_sites)
    nf = sum(len(prog.module(m).functions) + sum(len(c.all_defs) for c in prog.module(m).classes.values()) for m in modules)
    rep.ok(rule, prog.module(modules[0]).relpath if hasattr(prog.module(modules[0]), "relpath") else modules[0], f"memo-key rule: {nf} functions of {modules} scanned, {n} memo sites; positive control flagged")
    return n


_CACHE_KW = {"vcache", "visited_cache"}


def _closure(names, defs, prog, mod, locs, stop=frozenset(), depth=4):
    """(all names reachable through local definitions, base names = reachable names without a local definition);
    names in `stop` are not expanded and not reported"""
    seen, base = set(), set()
    work = [(n, depth) for n in names]
    while work:
        n, d = work.pop()
        if n in seen or n in stop:
            continue
        seen.add(n)
        if n.startswith("self.") or n not in defs or d == 0:
            base.add(n)
            continue
        for e in defs[n]:
            for m in _names(e, prog, mod, locs):
                work.append((m, d - 1))
    return seen, base


def check_persistent_caches(prog, mod, fi, rep, rule):
    """(e) a caller-supplied cache handed to a traversal driver persists between calls and is keyed by the
    visited node only: `driver(F, expr, vcache=C[K])` is a memo of F's results, so whatever F is built from
    (followed through local definitions) must be determined by the selector K."""
    fn = fi.node
    locs = _fn_locals(fn)
    defs = _local_defs(fn)
    params = {a.arg for a in fn.args.posonlyargs + fn.args.args + fn.args.kwonlyargs}
    n = 0
    for call in ast.walk(fn):
        if not isinstance(call, ast.Call) or not call.args:
            continue
        kws = [k for k in call.keywords if k.arg in _CACHE_KW]
        if not kws:
            continue
        for k in kws:
            c = k.value
            if isinstance(c, ast.Constant) or (isinstance(c, ast.Name) and c.id in params):
                continue  # None / the caller's cache passed through unchanged
            if isinstance(c, ast.Name) and c.id in defs and all(isinstance(d, (ast.Dict, ast.Call)) and norm(d) in ("{}", "dict()") for d in defs[c.id]):
                continue  # a cache created for this call only
            sel = c.slice if isinstance(c, ast.Subscript) else None
            sel_names = _names(sel, prog, mod, locs) if sel is not None else set()
            sel_all, _ = _closure(sel_names, defs, prog, mod, locs)
            f_names = _names(call.args[0], prog, mod, locs)
            _, f_base = _closure(f_names, defs, prog, mod, locs, stop=frozenset(sel_all))
            f_base = {b for b in f_base if not b.startswith("self.")}
            n += 1
            where = (fi, call)
            if f_base:
                rep.violation(
                    rule,
                    where,
                    f"{norm(call.func)}({norm(call.args[0])}, ..., {k.arg}={norm(c)})",
                    f"persistent traversal cache {norm(c)} is selected by ({norm(sel) if sel is not None else 'nothing'}) but the mapped function {norm(call.args[0])} "
                    f"also depends on {sorted(f_base)}: results cached for one function are returned for another",
                )
            else:
                rep.ok(rule, where, f"persistent traversal cache {norm(c)} is selected by everything the mapped function {norm(call.args[0])} is built from")
    return n


_LOSSY_CALLS = {"len", "bool", "type", "id", "hash", "str", "repr", "any", "all", "sum", "min", "max", "sorted", "set", "frozenset"}


def _lossy_projection(keys):
    """A key component that filters or summarises an input is not injective in that input."""
    for k in keys:
        for n in ast.walk(k):
            if isinstance(n, (ast.GeneratorExp, ast.ListComp, ast.SetComp, ast.DictComp)):
                for g in n.generators:
                    if g.ifs:
                        return f"comprehension filtered by `{norm(g.ifs[0])}`"
            if isinstance(n, ast.Call) and isinstance(n.func, ast.Name) and n.func.id in ("len", "bool", "any", "all", "sum", "min", "max"):
                return f"summarised by {n.func.id}()"
            if isinstance(n, ast.BoolOp):
                return "boolean combination"
    return None


def _derived_from(name, key_names, defs, prog, mod, locs, depth):
    if depth == 0 or name not in defs:
        return False
    for d in defs[name]:
        for nm in _names(d, prog, mod, locs):
            if nm in key_names or nm == name or nm.startswith("self."):
                continue
            if not _derived_from(nm, key_names, defs, prog, mod, locs, depth - 1):
                return False
    return True
