"""Reference semantics of UFL index notation on *dense symbolic tensors* (trusted base of E6).

A value T has a concrete shape, a set of free indices with concrete dimensions, and one term
(sym.Ex) per (component, free-index assignment).  With concrete small dimensions every tensor
identity becomes a finite family of scalar term identities, decided by sym.equal().
"""

from __future__ import annotations

import itertools
from fractions import Fraction

from . import sym
from .sym import Ex, const, lift


class SemError(Exception):
    """Operation is ill-formed under UFL's own rules (shape/index mismatch)."""


class Idx:
    """A free Index object (identity matters, like ufl.Index)."""

    _n = itertools.count(1)

    def __init__(self, name=None):
        self.id = next(Idx._n)
        self.name = name or f"i{self.id}"

    def __repr__(self):
        return self.name

    def count(self):
        return self.id


def indices(n):
    return tuple(Idx() for _ in range(n))


def _comps(shape):
    return list(itertools.product(*[range(d) for d in shape]))


class T:
    """Dense symbolic tensor with free indices."""

    __slots__ = ("shape", "fi", "fid", "data", "name", "is_zero_literal", "tags")

    def __init__(self, shape, fi, fid, data, name=None):
        self.shape = tuple(shape)
        order = sorted(range(len(fi)), key=lambda k: fi[k].id)
        self.fi = tuple(fi[k] for k in order)
        self.fid = tuple(fid[k] for k in order)
        if order != list(range(len(fi))):
            data = {(c, tuple(iv[k] for k in order)): v for (c, iv), v in data.items()}
        self.data = data
        self.name = name
        self.is_zero_literal = False
        self.tags = {}

    # ---------------------------------------------------------- constructors
    @staticmethod
    def scalar(e) -> "T":
        return T((), (), (), {((), ()): lift(e)})

    @staticmethod
    def symbolic(name, shape=()) -> "T":
        data = {}
        for c in _comps(shape):
            nm = name if not c else f"{name}[{','.join(map(str, c))}]"
            data[(c, ())] = sym.sym(nm)
        return T(shape, (), (), data, name=name)

    @staticmethod
    def zero(shape=(), fi=(), fid=()) -> "T":
        t = T(shape, fi, fid, {(c, iv): sym.ZERO for c in _comps(shape) for iv in _comps(fid)})
        t.is_zero_literal = True
        return t

    @staticmethod
    def from_nested(x) -> "T":
        """as_tensor / as_vector / as_matrix of nested lists/tuples of scalar T / numbers."""
        if isinstance(x, (list, tuple)):
            subs = [T.from_nested(s) for s in x]
            if not subs:
                raise SemError("empty list tensor")
            s0 = subs[0]
            for s in subs[1:]:
                if s.shape != s0.shape or set(s.fi) != set(s0.fi):
                    raise SemError("list tensor components with different shapes / free indices")
            data = {}
            for k, s in enumerate(subs):
                for (c, iv), v in s.data.items():
                    data[((k,) + c, iv)] = v
            r = T((len(subs),) + s0.shape, s0.fi, s0.fid, data)
            r.is_zero_literal = all(s.is_zero_literal for s in subs)
            return r
        return as_T(x)

    # -------------------------------------------------------------- helpers
    @property
    def ufl_shape(self):
        return self.shape

    def get(self, comp=(), ivals=()):
        return self.data[(tuple(comp), tuple(ivals))]

    def fimap(self):
        return dict(zip(self.fi, self.fid))

    def map(self, f) -> "T":
        return T(self.shape, self.fi, self.fid, {k: f(v) for k, v in self.data.items()})

    def is_scalar(self):
        return self.shape == ()

    def entries(self):
        return self.data.items()

    def __repr__(self):
        return f"T(shape={self.shape}, fi={self.fi})"

    # ------------------------------------------------------------- operators
    def __getitem__(self, key):
        return t_index(self, key)

    def __add__(self, o):
        return t_add(self, as_T(o))

    def __radd__(self, o):
        return t_add(as_T(o), self)

    def __sub__(self, o):
        return t_add(self, t_neg(as_T(o)))

    def __rsub__(self, o):
        return t_add(as_T(o), t_neg(self))

    def __neg__(self):
        return t_neg(self)

    def __pos__(self):
        return self

    def __mul__(self, o):
        return t_mul(self, as_T(o))

    def __rmul__(self, o):
        return t_mul(as_T(o), self)

    def __truediv__(self, o):
        return t_div(self, as_T(o))

    def __rtruediv__(self, o):
        return t_div(as_T(o), self)

    def __pow__(self, o):
        return t_pow(self, as_T(o))

    def __rpow__(self, o):
        return t_pow(as_T(o), self)

    def __abs__(self):
        return t_fn("abs", self)

    def __len__(self):
        if not self.shape:
            raise SemError("len() of scalar")
        return self.shape[0]

    def __iter__(self):
        for k in range(len(self)):
            yield self[k]

    @property
    def T(self):
        if len(self.shape) != 2:
            raise SemError("transpose of non-matrix")
        return T((self.shape[1], self.shape[0]), self.fi, self.fid, {((c[1], c[0]), iv): v for (c, iv), v in self.data.items()})


def as_T(x) -> T:
    if isinstance(x, T):
        return x
    if isinstance(x, Ex):
        return T.scalar(x)
    if isinstance(x, bool):
        raise SemError("bool is not a UFL value")
    if isinstance(x, (int, float, Fraction, complex)):
        t = T.scalar(const(x))
        if x == 0:
            t.is_zero_literal = True
        return t
    if isinstance(x, (list, tuple)):
        return T.from_nested(x)
    raise SemError(f"cannot convert {type(x).__name__} to a UFL value")


def _merge_fi(a: T, b: T):
    """Return (free indices kept, dims, summed indices, dims)."""
    ma, mb = a.fimap(), b.fimap()
    rep = [i for i in ma if i in mb]
    for i in rep:
        if ma[i] != mb[i]:
            raise SemError("repeated index with different dimensions")
    keep = [i for i in list(ma) + list(mb) if i not in rep]
    dims = [ma.get(i, mb.get(i)) for i in keep]
    return keep, dims, rep, [ma[i] for i in rep]


def _binary(a: T, b: T, f, sum_repeated, shape=None, comp_of=None):
    """sum_repeated: True (implicit summation, the `*` operator), False (overlap is an error),
    or "share" (node-level semantics of Product/Indexed: a shared free index stays free)."""
    keep, dims, rep, rdims = _merge_fi(a, b)
    if rep and sum_repeated is False:
        raise SemError("overlapping free indices not allowed here")
    if rep and sum_repeated == "share":
        keep, dims = keep + rep, dims + rdims
        rep, rdims = [], []
    order = sorted(range(len(keep)), key=lambda k: keep[k].id)
    keep = [keep[k] for k in order]
    dims = [dims[k] for k in order]
    data = {}
    shape = a.shape if shape is None else shape
    for c in _comps(shape):
        ca, cb = comp_of(c) if comp_of else (c, c)
        for iv in _comps(dims):
            asg = dict(zip(keep, iv))
            acc = None
            for rv in _comps(rdims):
                asg.update(zip(rep, rv))
                va = a.data[(ca, tuple(asg[i] for i in a.fi))]
                vb = b.data[(cb, tuple(asg[i] for i in b.fi))]
                term = f(va, vb)
                acc = term if acc is None else sym.add(acc, term)
            data[(c, iv)] = acc
    return T(shape, keep, dims, data)


def t_add(a: T, b: T) -> T:
    if a.shape != b.shape:
        if a.is_zero_literal and a.shape == () and not a.fi:
            return b
        if b.is_zero_literal and b.shape == () and not b.fi:
            return a
        raise SemError(f"adding shapes {a.shape} and {b.shape}")
    if set(a.fi) != set(b.fi):
        # python sum() starts from int 0
        if a.is_zero_literal and not a.fi:
            return b
        if b.is_zero_literal and not b.fi:
            return a
        raise SemError("adding expressions with different free indices")
    r = _binary_same_fi(a, b, sym.add)
    return r


def _binary_same_fi(a: T, b: T, f):
    if a.fimap() != b.fimap():
        raise SemError(f"free indices carry different dimensions: {dict((str(k), v) for k, v in a.fimap().items())} vs {dict((str(k), v) for k, v in b.fimap().items())}")
    data = {}
    for (c, iv), va in a.data.items():
        asg = dict(zip(a.fi, iv))
        vb = b.data[(c, tuple(asg[i] for i in b.fi))]
        data[(c, iv)] = f(va, vb)
    return T(a.shape, a.fi, a.fid, data)


def t_neg(a: T) -> T:
    r = a.map(sym.neg)
    r.is_zero_literal = a.is_zero_literal
    return r


def t_mul(a: T, b: T, repeated=True) -> T:
    ra, rb = len(a.shape), len(b.shape)
    if ra == 0 and rb == 0:
        r = _binary(a, b, sym.mul, repeated)
    elif ra == 0:
        r = _binary(a, b, sym.mul, True, shape=b.shape, comp_of=lambda c: ((), c))
    elif rb == 0:
        r = _binary(a, b, sym.mul, True, shape=a.shape, comp_of=lambda c: (c, ()))
    elif ra == 2 and rb in (1, 2):
        # matrix-vector / matrix-matrix product (ufl.exproperators._mult)
        if a.shape[1] != b.shape[0]:
            raise SemError("matrix product dimension mismatch")
        k = Idx()
        if rb == 1:
            i = Idx()
            r = as_tensor(t_index(a, (i, k)) * t_index(b, (k,)), (i,))
        else:
            i, j = Idx(), Idx()
            r = as_tensor(t_index(a, (i, k)) * t_index(b, (k, j)), (i, j))
    else:
        raise SemError(f"invalid ranks {ra}, {rb} in product")
    r.is_zero_literal = a.is_zero_literal or b.is_zero_literal
    return r


def t_div(a: T, b: T) -> T:
    if b.shape != ():
        raise SemError("division by non-scalar")
    if a.shape == ():
        return _binary(a, b, sym.div, False)
    return _binary(a, b, sym.div, False, shape=a.shape, comp_of=lambda c: (c, ()))


def t_pow(a: T, b: T) -> T:
    if a.shape != () or b.shape != ():
        raise SemError("power of non-scalars")
    if b.fi:
        raise SemError("free indices in exponent")
    e = b.data[((), ())]
    return a.map(lambda v: sym.power(v, e))


def t_fn(name, *args) -> T:
    args = [as_T(a) for a in args]
    a = args[0]
    if any(x.shape != () for x in args):
        if name in ("conj", "real", "imag", "abs") and len(args) == 1:
            return a.map(lambda v: sym.fn(name, v))
        raise SemError(f"{name} of non-scalar")
    if len(args) == 1:
        return a.map(lambda v: sym.fn(name, v))
    if any(x.fi for x in args[1:]) and len(args) > 1:
        if all(set(x.fi) == set(a.fi) for x in args):
            data = {}
            for (c, iv), va in a.data.items():
                asg = dict(zip(a.fi, iv))
                others = [x.data[((), tuple(asg[i] for i in x.fi))] for x in args[1:]]
                data[(c, iv)] = sym.fn(name, va, *others)
            return T((), a.fi, a.fid, data)
        raise SemError("free index mismatch in function arguments")
    others = [x.data[((), ())] for x in args[1:]]
    return a.map(lambda v: sym.fn(name, v, *others))


def t_index(a: T, key, repeated="sum") -> T:
    """repeated='sum': A[i,i] is the trace (the [] operator); 'share': node-level Indexed keeps the
    repeated index free (diagonal) - the summation is a separate IndexSum node."""
    if not isinstance(key, tuple):
        key = (key,)
    # expand Ellipsis
    if any(k is Ellipsis for k in key):
        pos = [n for n, k in enumerate(key) if k is Ellipsis]
        if len(pos) > 1:
            raise SemError("more than one ellipsis")
        n_missing = len(a.shape) - (len(key) - 1)
        key = key[: pos[0]] + (slice(None),) * n_missing + key[pos[0] + 1 :]
    if len(key) > len(a.shape):
        raise SemError(f"too many indices {len(key)} for shape {a.shape}")
    key = key + (slice(None),) * (len(a.shape) - len(key))
    new_idx = []  # (Idx, dim, axis)
    slice_axes = []
    for ax, k in enumerate(key):
        if isinstance(k, bool):
            raise SemError("bool index")
        if isinstance(k, int):
            if not -a.shape[ax] <= k < a.shape[ax]:
                raise SemError(f"fixed index {k} out of range for dimension {a.shape[ax]}")
        elif isinstance(k, Idx):
            new_idx.append((k, a.shape[ax], ax))
        elif isinstance(k, slice):
            if k != slice(None):
                raise SemError("only full slices are supported")
            slice_axes.append(ax)
        else:
            raise SemError(f"unsupported index {k!r}")
    # which indices are summed: repeated within key, or already free in a
    afi = a.fimap()
    counts = {}
    for i, d, ax in new_idx:
        counts.setdefault(i, []).append((d, ax))
    summed, free_new = [], []
    for i, occ in counts.items():
        if len({d for d, _ in occ}) != 1:
            raise SemError("repeated index over different dimensions")
        if len(occ) + (1 if i in afi else 0) > 2:
            raise SemError("index repeated more than twice")
        if len(occ) == 2 or i in afi:
            if i in afi and afi[i] != occ[0][0]:
                raise SemError("repeated index over different dimensions")
            if repeated == "share":
                if i not in afi:
                    free_new.append((i, occ[0][0]))
            else:
                summed.append((i, occ[0][0]))
        else:
            free_new.append((i, occ[0][0]))
    keep_old = [(i, d) for i, d in afi.items() if i not in dict(summed)]
    fi = [i for i, _ in keep_old] + [i for i, _ in free_new]
    fid = [d for _, d in keep_old] + [d for _, d in free_new]
    order = sorted(range(len(fi)), key=lambda k: fi[k].id)
    fi = [fi[k] for k in order]
    fid = [fid[k] for k in order]
    shape = tuple(a.shape[ax] for ax in slice_axes)
    data = {}
    sdims = [d for _, d in summed]
    for c in _comps(shape):
        for iv in _comps(fid):
            asg = dict(zip(fi, iv))
            acc = None
            for sv in _comps(sdims):
                asg.update(zip([i for i, _ in summed], sv))
                comp = []
                ci = iter(c)
                for ax, k in enumerate(key):
                    if isinstance(k, int):
                        comp.append(k % a.shape[ax])
                    elif isinstance(k, Idx):
                        comp.append(asg[k])
                    else:
                        comp.append(next(ci))
                v = a.data[(tuple(comp), tuple(asg[i] for i in a.fi))]
                acc = v if acc is None else sym.add(acc, v)
            data[(c, iv)] = acc
    return T(shape, fi, fid, data)


def index_sum(a: T, i: Idx) -> T:
    m = a.fimap()
    if i not in m:
        raise SemError("IndexSum over an index that is not free")
    fi = [j for j in a.fi if j is not i]
    fid = [m[j] for j in fi]
    data = {}
    for c in _comps(a.shape):
        for iv in _comps(fid):
            asg = dict(zip(fi, iv))
            acc = None
            for v in range(m[i]):
                asg[i] = v
                t = a.data[(c, tuple(asg[j] for j in a.fi))]
                acc = t if acc is None else sym.add(acc, t)
            data[(c, iv)] = acc
    return T(a.shape, fi, fid, data)


def as_tensor(expr, idx=None) -> T:
    """ufl.as_tensor: nested lists, or (scalar expression, indices) -> ComponentTensor."""
    if idx is None:
        if isinstance(expr, T):
            return expr
        return T.from_nested(expr)
    if isinstance(idx, Idx):
        idx = (idx,)
    idx = tuple(idx)
    expr = as_T(expr)
    if not idx:
        return expr
    if expr.shape != ():
        raise SemError("as_tensor(expr, indices) needs a scalar expression")
    m = expr.fimap()
    for i in idx:
        if not isinstance(i, Idx):
            raise SemError("as_tensor indices must be Index objects")
        if i not in m:
            raise SemError(f"as_tensor: index {i} is not a free index of the expression")
    if len(set(idx)) != len(idx):
        raise SemError("as_tensor: repeated index")
    fi = [j for j in expr.fi if j not in idx]
    fid = [m[j] for j in fi]
    shape = tuple(m[i] for i in idx)
    data = {}
    for c in _comps(shape):
        for iv in _comps(fid):
            asg = dict(zip(fi, iv))
            asg.update(zip(idx, c))
            data[(c, iv)] = expr.data[((), tuple(asg[j] for j in expr.fi))]
    return T(shape, fi, fid, data)


def identity(n) -> T:
    return T((n, n), (), (), {((i, j), ()): (sym.ONE if i == j else sym.ZERO) for i in range(n) for j in range(n)})


def conj(a) -> T:
    a = as_T(a)
    return a.map(sym.conj)


# --------------------------------------------------------------- derivative


def deriv_ex(e: Ex, k: int, memo=None) -> Ex:
    """Formal partial derivative d/dx_k: a derivation on the term algebra; the derivative of the
    symbol s is the symbol 'd<k>(s)'."""
    if memo is None:
        memo = {}

    def rec(x):
        r = memo.get(x)
        if r is not None:
            return r
        if x.op in ("c", "I"):
            r = sym.ZERO
        elif x.op == "s":
            r = sym.sym(f"d{k}({x.args[0]})")
        elif x.op == "cs":
            r = sym.conj(sym.sym(f"d{k}({x.args[0]})"))
        elif x.op == "+":
            r = sym.add(rec(x.args[0]), rec(x.args[1]))
        elif x.op == "*":
            r = sym.add(sym.mul(rec(x.args[0]), x.args[1]), sym.mul(x.args[0], rec(x.args[1])))
        elif x.op == "/":
            u, v = x.args
            r = sym.div(sym.add(sym.mul(rec(u), v), sym.neg(sym.mul(u, rec(v)))), sym.mul(v, v))
        elif x.op == "^":
            u, n = x.args
            r = sym.mul(sym.mul(const(n), sym.power(u, const(n - 1))), rec(u))
        else:
            raise SemError(f"derivative of {x.op} not modelled")
        memo[x] = r
        return r

    return rec(e)


def grad(a: T, gdim: int) -> T:
    """Grad: appends an axis of length gdim (ufl: grad(f)[..., k] = d f[...] / dx_k)."""
    a = as_T(a)
    data = {}
    memo = [dict() for _ in range(gdim)]
    for (c, iv), v in a.data.items():
        for k in range(gdim):
            data[(c + (k,), iv)] = deriv_ex(v, k, memo[k])
    return T(a.shape + (gdim,), a.fi, a.fid, data)


def equal_T(a: T, b: T, rng=None, real_only=False, points=12):
    """Compare two tensors component-wise.  Returns (ok, method, witness)."""
    if a.shape != b.shape:
        return False, "shape", f"shape {a.shape} != {b.shape}"
    if set(a.fi) != set(b.fi):
        return False, "indices", f"free indices {a.fi} != {b.fi}"
    da, db = dict(zip(a.fi, a.fid)), dict(zip(b.fi, b.fid))
    if da != db:
        return False, "index extents", "free-index extents " + ", ".join(f"{i}: {da[i]} != {db[i]}" for i in da if da[i] != db[i])
    method = "identical"
    for (c, iv), va in a.data.items():
        asg = dict(zip(a.fi, iv))
        vb = b.data[(c, tuple(asg[i] for i in b.fi))]
        ok, how, wit = sym.equal(va, vb, rng=rng, real_only=real_only, points=points)
        if not ok:
            return False, how, f"component {c} indices {dict((str(k), v) for k, v in asg.items())}: {wit}"
        if how == "random":
            method = "random"
        elif how == "exact" and method != "random":
            method = "exact"
    return True, method, None
