"""Form-level lifting: objects of the repository's own classes, built by lifting their constructors.

`FormWorld` sets up an interpreter in which meshes, function spaces, coefficients, constants, arguments,
geometric quantities, literals, indices, labels, integrals and forms are *instances of the analysed
classes* (attributes produced by lifting __new__/__init__ from the current source).  User-side objects
that UFL only consumes (cells, finite elements) are abstract objects with the documented interface.
Everything that depends on process state is an explicit parameter of the world:

  counters      every count / ufl_id is passed explicitly by the rule
  set_order     iteration order of sets ('fifo' | 'lifo')         (sa/containers.py)
  hash_salt     salt of the modelled str hash (PYTHONHASHSEED)

Operator nodes are instances of their class with `ufl_operands` given (their constructors' algebraic
simplifications are the subject of C05, not of the form-level properties).
"""

from __future__ import annotations

import hashlib
import itertools

from .lift import STDLIB, Interp, LiftRaise, Obj, Unsupported
from .model import AnalysisError, ClassInfo, FuncInfo


class _Hashlib:
    """hashlib modelled by itself (a pure function of its input bytes); inputs are logged"""

    __lift_host__ = True

    def __init__(self, log):
        self.log = log

    def sha512(self, data=b""):
        self.log.append(data)
        return _Digest(hashlib.sha512(data))


class _Digest:
    __lift_host__ = True

    def __init__(self, h):
        self.h = h

    def digest(self):
        return self.h.digest()

    def hexdigest(self):
        return self.h.hexdigest()


class NdArray:
    """numpy.ndarray model: nested lists of numbers with tolist().  str() / repr() follow numpy's documented print
    options (precision 8, threshold 1000, edgeitems 3): entries are rounded and an array of more than 1000 entries is
    summarised by its first and last three - two different arrays can print the same"""

    __lift_host__ = True

    def __init__(self, data):
        self.data = data

    def tolist(self):
        return self.data

    def _flat(self):
        out, todo = [], [self.data]
        while todo:
            x = todo.pop(0)
            if isinstance(x, (list, tuple)):
                todo = list(x) + todo
            else:
                out.append(x)
        return out

    @property
    def shape(self):
        sh, x = [], self.data
        while isinstance(x, (list, tuple)):
            sh.append(len(x))
            x = x[0] if x else None
        return tuple(sh)

    @property
    def size(self):
        return len(self._flat())

    @property
    def dtype(self):
        return "int64" if all(isinstance(x, int) and not isinstance(x, bool) for x in self._flat()) else "float64"

    def tobytes(self):
        """the entries in row-major order, 8 bytes each: neither the shape nor the dtype is part of it"""
        import struct

        flat = self._flat()
        return b"".join(struct.pack("<q", x) if self.dtype == "int64" else struct.pack("<d", float(x)) for x in flat)

    def flatten(self):
        return NdArray(self._flat())

    ravel = flatten

    def _items(self):
        flat = self._flat()
        show = flat if len(flat) <= 1000 else flat[:3] + [None] + flat[-3:]
        return ", ".join("..." if x is None else (f"{float(x):.8g}" + ("." if float(x) == int(float(x)) else "")) for x in show)

    def __repr__(self):
        return "array([" + self._items() + "])"

    def __str__(self):
        return "[" + self._items().replace(",", "") + "]"


USER_SIDE = '''
from ufl.coefficient import Coefficient
from ufl.constant import Constant


class Function(Coefficient):
    """a problem-solving-environment function type (dolfinx / firedrake style): a Coefficient with data"""

    def __init__(self, V, data=None, count=None):
        super().__init__(V, count=count)
        self.data = data


class OtherFunction(Coefficient):
    """another user-side function type"""


class UserConstant(Constant):
    """a user-side constant type"""
'''


class FormWorld:
    def __init__(self, ctx, set_order="fifo", hash_salt=0, gdim=2):
        self.ctx = ctx
        self.prog = prog = ctx.prog
        prog.add_virtual_module("userside", USER_SIDE)
        self.ip = ip = Interp(prog)
        ip.instantiable = {"*"}
        ip.honor_new = True
        ip.fstrings = True
        ip.type_model = ctx.tm
        ip.enable_value_containers(set_order)
        self.hash_salt = hash_salt
        self.hash_log = []
        self.sha_log = []
        self.warnings = []
        ip.overrides.update(
            repr=ip.py_repr,
            str=self._str,
            hash=self.py_hash,
            hashlib=_Hashlib(self.sha_log),
            # traversal drivers: trusted here (their correctness is C19); pre-order / post-order over ufl_operands
            traverse_unique_terminals=self.traverse_unique_terminals,
            traverse_terminals=self.traverse_terminals,
            unique_post_traversal=self.unique_post_traversal,
            unique_pre_traversal=self.unique_pre_traversal,
            pre_traversal=self.pre_traversal,
            post_traversal=self.post_traversal,
            warnings=Obj("warnings", warn=self._warn),
            np=Obj("numpy", ndarray=NdArray, prod=lambda x, dtype=None: __import__("math").prod(x), ndindex=lambda *shape: list(itertools.product(*[range(d) for d in (shape[0] if len(shape) == 1 and isinstance(shape[0], (tuple, list)) else shape)]))),
        )
        ip.pytype_alias[ip.overrides["str"]] = str
        # operator precedence only decides where str() puts parentheses: always parenthesise (the precedence
        # table is built from the live class registry, which is outside the model)
        ip.overrides["parstr"] = lambda child, parent, pre="(", post=")", format=None: "(" + self._str(child) + ")"
        ip.overrides.pop("Index", None)
        ip.overrides.pop("indices", None)
        ip.overrides.pop("as_ufl", None)
        ip.overrides.pop("zero", None)
        ip.on_instantiate = self._on_instantiate
        self.gdim = gdim
        self._cells = {}
        self._elements = {}
        self._n_objects = 0

    # ------------------------------------------------------------------ stdlib / builtins
    _interned: dict = None

    def _warn(self, *a, **k):
        self.warnings.append(a[0] if a else "")

    def _str(self, x=""):
        if isinstance(x, NdArray):
            raise LiftRaise("str() of a numpy array (rounded to 8 digits and summarised above 1000 entries)")
        return self.ip.py_str(x)

    def py_hash(self, x):
        ip = self.ip
        if self.hash_salt == "collide":
            # the degenerate world: every hash collides.  Equality, dict and set semantics must not depend on
            # hashes being different (they only make things fast).
            if isinstance(x, Obj) and ip.obj_class(x) is not None and not ip.is_hashable_obj(x):
                raise LiftRaise(f"TypeError: unhashable type: '{ip.obj_class(x).name}'")
            return 0
        if isinstance(x, str):
            self.hash_log.append(x)
            return int.from_bytes(hashlib.sha256(f"{self.hash_salt}:{x}".encode()).digest()[:7], "big")
        if isinstance(x, Obj):
            if "__hash__" in x.attrs:
                return x.attrs["__hash__"]()
            k = ip.obj_class(x)
            if k is not None:
                m, _ = ip.find_method(k, "__hash__")
                if m is not None:
                    return ip.call_function(m, [], {}, self_obj=x)
                if k.is_subclass_of("Expr"):
                    # ufl_type attaches compute_expr_hash as __hash__
                    return ip.call_function(self.prog.get_function("ufl.core.compute_expr_hash", "compute_expr_hash"), [x], {})
                if not ip.is_hashable_obj(x):
                    raise LiftRaise(f"TypeError: unhashable type: '{k.name}'")
            return id(x) >> 4
        if isinstance(x, tuple):
            return hash(tuple(self.py_hash(y) for y in x))
        if isinstance(x, (int, bool)) or x is None:
            return hash(x)
        if isinstance(x, bytes):
            return int.from_bytes(hashlib.sha256(bytes([self.hash_salt % 256]) + x).digest()[:7], "big")
        from fractions import Fraction

        if isinstance(x, (Fraction, float)):
            return hash(x)
        if isinstance(x, ClassInfo):
            return hash(x.name)
        if isinstance(x, (list, dict, set)):
            raise LiftRaise(f"TypeError: unhashable type: '{type(x).__name__}'")
        raise Unsupported(f"hash() of {type(x).__name__}")

    # ------------------------------------------------------------------ traversals (trusted, C19)
    @staticmethod
    def _ops(e):
        return tuple(e.attrs["ufl_operands"]) if isinstance(e, Obj) and "ufl_operands" in e.attrs else ()

    def _is_terminal(self, e):
        return bool(self.ip.getattr(e, "_ufl_is_terminal_", None, None))

    def pre_traversal(self, expr):
        out, stack = [], [expr]
        while stack:
            e = stack.pop()
            out.append(e)
            stack.extend(reversed(self._ops(e)))
        return out

    def unique_pre_traversal(self, expr, visited=None):
        out, stack, seen = [], [expr], []
        while stack:
            e = stack.pop()
            if any(e is s for s in seen):
                continue
            seen.append(e)
            out.append(e)
            for o in self._ops(e):
                stack.append(o)
        return out

    def post_traversal(self, expr):
        out = []

        def rec(e):
            for o in self._ops(e):
                rec(o)
            out.append(e)

        rec(expr)
        return out

    def unique_post_traversal(self, expr, visited=None):
        out, seen = [], []

        def rec(e):
            if any(e is s for s in seen):
                return
            seen.append(e)
            for o in self._ops(e):
                rec(o)
            out.append(e)

        rec(expr)
        return out

    def traverse_terminals(self, expr):
        return [e for e in self.pre_traversal(expr) if self._is_terminal(e)]

    def traverse_unique_terminals(self, expr, visited=None):
        return [e for e in self.unique_pre_traversal(expr) if self._is_terminal(e)]

    # ------------------------------------------------------------------ object construction
    def K(self, qualname):
        if "." not in qualname:
            return self.ctx.tm.get(qualname).cls
        return self.prog.get_class(qualname)

    def _serial(self, o):
        self._n_objects += 1
        o.attrs["_serial"] = self._n_objects
        return o

    def _on_instantiate(self, o, cls):
        self._serial(o)
        if cls.is_subclass_of("Mesh") or cls.is_subclass_of("MeshView"):
            # the @attach_ufl_id decorator: ids are passed explicitly in this model
            def init_id(uid):
                if uid is None:
                    raise AnalysisError("ufl_id must be given explicitly in the lifted world")
                return uid

            o.attrs["_init_ufl_id"] = init_id
            o.attrs["ufl_id"] = lambda: o.attrs["_ufl_id"]

    def new(self, qualname, *args, **kwargs):
        if getattr(self, "intern", False):
            # aliasing world: an identical constructor call hands back the very same object, so that equal
            # sub-objects of different values are shared by identity (as after replace / reconstruct)
            def k(x):
                if isinstance(x, (tuple, list)):
                    return tuple(k(y) for y in x)
                if isinstance(x, (int, float, complex, str, bool, type(None))):
                    return (type(x).__name__, x)
                return ("id", id(x))

            key = (qualname, k(args), tuple(sorted((n, k(v)) for n, v in kwargs.items())))
            if key not in self._interned:
                self._interned[key] = (self.ip.call(self.K(qualname), list(args), dict(kwargs), None, None), args, kwargs)
            return self._interned[key][0]
        return self.ip.call(self.K(qualname), list(args), dict(kwargs), None, None)

    def cell(self, name="triangle", tdim=2):
        if name not in self._cells:
            c = Obj("cell", topological_dimension=tdim, is_simplex=True, cellname=name)
            c.attrs["__class__"] = None
            c.attrs["__repr__"] = name
            c.attrs["__str__"] = name
            c.attrs["_lt_key"] = name
            self._cells[name] = c
        return self._cells[name]

    def element(self, family="P", degree=1, shape=(), cell=None, ref_shape=None):
        """user-side finite element: an instance of AbstractFiniteElement whose abstract members are
        supplied here; identity is its repr (as for the elements of the test suite)"""
        cell = cell or self.cell()
        name = f"{family}{degree}{list(shape) if shape else ''}@{cell.attrs['cellname']}"
        if name in self._elements:
            return self._elements[name]
        k = self.prog.get_class("ufl.finiteelement.AbstractFiniteElement")
        e = Obj("element", reference_value_shape=tuple(ref_shape if ref_shape is not None else shape), cell=cell, embedded_superdegree=degree, embedded_subdegree=degree, num_sub_elements=0, sub_elements=[])
        e.attrs["__class__"] = k
        e.attrs["__repr__"] = f"Element({name!r})"
        e.attrs["__str__"] = f"<{name}>"
        e.attrs["__hash__"] = lambda: self.py_hash(f"Element({name!r})")
        e.attrs["__eq__"] = lambda other: isinstance(other, Obj) and other.attrs.get("__repr__") == f"Element({name!r})"
        pb = Obj("pullback", physical_value_shape=lambda el, dom: tuple(shape))
        pb.attrs["__class__"] = None
        e.attrs["pullback"] = pb
        sob = Obj("sobolev")
        sob.attrs["__class__"] = None
        e.attrs["sobolev_space"] = sob
        self._elements[name] = e
        return self._serial(e)

    def mesh(self, ufl_id, degree=1, cellname="triangle", gdim=None):
        ce = self.element("P", degree, (gdim or self.gdim,), self.cell(cellname))
        return self.new("ufl.domain.Mesh", ce, ufl_id=ufl_id)

    def space(self, mesh, element):
        return self.new("ufl.functionspace.FunctionSpace", mesh, element)

    def coefficient(self, V, count, cls="ufl.coefficient.Coefficient"):
        return self.new(cls, V, count=count)

    def constant(self, mesh, count, shape=(), cls="ufl.constant.Constant"):
        return self.new(cls, mesh, shape, count=count)

    def argument(self, V, number, part=None):
        return self.new("ufl.argument.Argument", V, number, part)

    def geometric(self, clsname, mesh):
        return self.new(clsname, mesh)

    def index(self, count):
        return self.new("ufl.core.multiindex.Index", count)

    def fixed(self, v):
        return self.new("ufl.core.multiindex.FixedIndex", v)

    def multiindex(self, *ii):
        return self.new("ufl.core.multiindex.MultiIndex", tuple(self.fixed(i) if isinstance(i, int) else i for i in ii))

    def label(self, count):
        return self.new("ufl.variable.Label", count)

    def literal(self, v):
        if isinstance(v, int):
            return self.new("ufl.constantvalue.IntValue", v)
        return self.new("ufl.constantvalue.FloatValue", v)

    def op(self, clsname, *operands, **attrs):
        """operator node of class `clsname` with the given operands (no constructor simplification)"""
        k = self.K(clsname)
        o = Obj(k.name, __class__=k, ufl_operands=tuple(operands), _hash=None)
        o.attrs.update(attrs)
        return self._serial(o)

    def integral(self, integrand, integral_type, mesh, subdomain_id="everywhere", metadata=None, subdomain_data=None, extra=None):
        md = self.ip.new_dict()
        for k, v in (metadata or {}).items():
            md[k] = v
        ex = None
        if extra is not None:
            ex = self.ip.new_dict()
            for k, v in extra:
                ex[k] = v
        return self.new("ufl.integral.Integral", integrand, integral_type, mesh, subdomain_id, md, subdomain_data, ex)

    def form(self, integrals):
        return self.new("ufl.form.Form", list(integrals))

    # ------------------------------------------------------------------ queries
    def call_method(self, obj, name, *args, **kwargs):
        k = self.ip.obj_class(obj)
        m = self.prog.lookup(k, name)
        if not isinstance(m, FuncInfo):
            raise AnalysisError(f"{k.name}.{name} not found")
        return self.ip.call_function(m, list(args), dict(kwargs), self_obj=obj)

    def signature(self, form):
        return self.call_method(form, "signature")
