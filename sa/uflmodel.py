"""Reference models of UFL constructors and language functions for the lifter.

Each model gives the *mathematical meaning* of a UFL node on dense symbolic tensors (uflsem.T).
This table is part of the trusted base: it is the semantics against which rewriting rules,
derivative rules and construction-time simplifications are judged.  It deliberately contains no
simplification logic of its own.
"""

from __future__ import annotations

import itertools
from fractions import Fraction

from . import sym, uflsem
from .lift import Interp, LiftRaise, Obj, Unsupported
from .model import AnalysisError
from .sym import Ex
from .uflsem import Idx, SemError, T, as_T


class MI(tuple):
    """MultiIndex model: a tuple of ints (FixedIndex) and Idx."""

    __lift_host__ = True

    def indices(self):
        return tuple(self)


_IDX = {}


def new_index(count=None, **k):
    """ufl.Index(count): indices with equal counts are the same index"""
    if count is None:
        count = k.get("count")
    if count is not None:
        if isinstance(count, Idx):
            return count
        if count in _IDX:
            return _IDX[count]
        i = Idx()
        i.id = count
        i.name = f"i{count}"
        _IDX[count] = i
        return i
    i = Idx()
    while i.id in _IDX:
        i = Idx()
    _IDX[i.id] = i
    return i


def new_indices(n):
    return tuple(new_index() for _ in range(n))


def idx_from_id(n):
    if isinstance(n, Idx):
        return n
    if n not in _IDX:
        raise Unsupported(f"free index id {n} is unknown to the model")
    return _IDX[n]


def node(t: T, cls: str, operands=(), **tags) -> T:
    """Attach node identity (class name, operands, extra attributes) to a value."""
    r = T(t.shape, t.fi, t.fid, t.data, name=t.name)
    r.is_zero_literal = t.is_zero_literal
    r.tags = dict(t.tags)
    r.tags.update(ufl_class=cls, ufl_operands=tuple(operands), _ufl_is_terminal_=False)
    r.tags.update(tags)
    return r


def terminal(name, shape=(), cls="Coefficient", **tags) -> T:
    t = T.symbolic(name, shape)
    t.tags.update(ufl_class=cls, ufl_operands=(), _ufl_is_terminal_=True, key=(cls, name))
    t.tags.update(tags)
    return t


def m_zero(shape=(), free_indices=(), index_dimensions=None):
    if isinstance(free_indices, dict):
        raise Unsupported("Zero with dict free indices")
    fi = [idx_from_id(i) for i in free_indices]
    fid = list(index_dimensions or ())
    if len(fid) != len(fi):
        raise LiftRaise("ValueError: Zero: free indices / dimensions mismatch")
    t = T.zero(tuple(shape), fi, fid)
    t.tags.update(ufl_class="Zero", ufl_operands=(), _ufl_is_terminal_=True)
    return t


def m_scalar(v=0):
    if isinstance(v, T):
        return v
    t = as_T(v)
    t.tags.update(ufl_class="Zero" if t.is_zero_literal else ("IntValue" if isinstance(v, int) else "FloatValue"), ufl_operands=(), _ufl_is_terminal_=True, _value=v)
    return t


def m_indexed(A, mi):
    A = as_T(A)
    r = uflsem.t_index(A, tuple(mi), repeated="share")
    return node(r, "Indexed", (A, MI(mi)))


def m_index_sum(A, mi):
    A = as_T(A)
    (i,) = tuple(mi)
    return node(uflsem.index_sum(A, i), "IndexSum", (A, MI(mi)))


def m_component_tensor(A, mi):
    A = as_T(A)
    return node(uflsem.as_tensor(A, tuple(mi)), "ComponentTensor", (A, MI(mi)))


def m_list_tensor(*ops):
    ops = [as_T(o) for o in ops]
    return node(T.from_nested(list(ops)), "ListTensor", ops)


def _scalar_binop(name, f, rng_check=True):
    def model(a, b):
        a, b = as_T(a), as_T(b)
        return node(f(a, b), name, (a, b))

    return model


def m_sum(a, b):
    a, b = as_T(a), as_T(b)
    if a.shape != b.shape or set(a.fi) != set(b.fi):
        raise LiftRaise("ValueError: Sum of expressions with different shape / free indices")
    return node(uflsem.t_add(a, b), "Sum", (a, b))


def m_product(a, b):
    a, b = as_T(a), as_T(b)
    if a.shape != () or b.shape != ():
        raise LiftRaise("ValueError: Product can only represent products of scalars")
    return node(uflsem.t_mul(a, b, repeated="share"), "Product", (a, b))


def m_division(a, b):
    a, b = as_T(a), as_T(b)
    if b.shape != () or b.fi:
        raise LiftRaise("ValueError: Division by non-scalar is undefined")
    return node(uflsem.t_div(a, b), "Division", (a, b))


def m_power(a, b):
    a, b = as_T(a), as_T(b)
    if a.shape != () or b.shape != () or a.fi or b.fi:
        raise LiftRaise("ValueError: Power of non-(true scalar)")
    return node(uflsem.t_pow(a, b), "Power", (a, b))


def m_unary(cls, fname):
    def model(a):
        a = as_T(a)
        return node(uflsem.t_fn(fname, a), cls, (a,))

    return model


def m_math(cls, fname):
    def model(a):
        a = as_T(a)
        if a.shape != () or a.fi:
            raise LiftRaise(f"ValueError: {cls} of non-(true scalar)")
        return node(uflsem.t_fn(fname, a), cls, (a,))

    return model


def m_bessel(cls, fname):
    def model(nu, a):
        nu, a = as_T(nu), as_T(a)
        return node(uflsem.t_fn(fname, nu, a).map(lambda v: v), cls, (nu, a))

    return model


def _bessel_fn(fname):
    def model(nu, a):
        nu, a = as_T(nu), as_T(a)
        nue = nu.get()
        return a.map(lambda v: sym.fn(fname, nue, v))

    return model


class Cnd:
    """A UFL condition (scalar predicate) in the lifted domain."""

    __lift_host__ = True

    def __init__(self, ex, fi=(), fid=()):
        self.ex = ex
        self.ufl_shape = ()
        self.tags = {"ufl_class": "Condition"}


def m_rel(op):
    def model(a, b):
        a, b = as_T(a), as_T(b)
        if a.shape != () or b.shape != () or a.fi or b.fi:
            raise Unsupported("conditions on non-scalars / indexed values are not modelled")
        c = Cnd(Ex("rel", op, a.get(), b.get()))
        c.tags.update(ufl_class=_REL_CLASS[op], ufl_operands=(a, b), _ufl_is_terminal_=False)
        return c

    return model


_REL_CLASS = {"==": "EQ", "!=": "NE", "<": "LT", ">": "GT", "<=": "LE", ">=": "GE"}


def m_and(a, b):
    c = Cnd(Ex("and", a.ex, b.ex))
    c.tags.update(ufl_class="AndCondition", ufl_operands=(a, b), _ufl_is_terminal_=False)
    return c


def m_or(a, b):
    c = Cnd(Ex("or", a.ex, b.ex))
    c.tags.update(ufl_class="OrCondition", ufl_operands=(a, b), _ufl_is_terminal_=False)
    return c


def m_not(a):
    c = Cnd(Ex("not", a.ex))
    c.tags.update(ufl_class="NotCondition", ufl_operands=(a,), _ufl_is_terminal_=False)
    return c


def m_conditional(c, t, f):
    if not isinstance(c, Cnd):
        raise LiftRaise("ValueError: Expecting condition as first argument")
    t, f = as_T(t), as_T(f)
    if t.shape != f.shape:
        raise LiftRaise("ValueError: Shape mismatch between conditional branches")
    if set(t.fi) != set(f.fi):
        raise LiftRaise("ValueError: Free index mismatch between conditional branches")
    r = uflsem._binary_same_fi(t, f, lambda x, y: sym.cond(c.ex, x, y))
    return node(r, "Conditional", (c, t, f))


def m_sign(x):
    x = as_T(x)
    if x.shape != () or x.fi:
        # sign() is built from conditions, which require true scalars
        raise LiftRaise("ValueError: Expecting scalar arguments.")
    return x.map(lambda v: sym.fn("sign", v))


def m_minmax(cls, fname):
    def model(a, b):
        a, b = as_T(a), as_T(b)
        return node(uflsem.t_fn(fname, a, b), cls, (a, b))

    return model


def m_inner(a, b):
    a, b = as_T(a), as_T(b)
    if a.shape != b.shape:
        raise LiftRaise("ValueError: Shapes do not match in inner")
    ii = tuple(new_index() for _ in a.shape)
    r = uflsem.t_index(a, ii) * uflsem.conj(uflsem.t_index(b, ii)) if ii else a * uflsem.conj(b)
    return node(r, "Inner", (a, b))


def m_dot(a, b):
    a, b = as_T(a), as_T(b)
    ai = tuple(new_index() for _ in a.shape[:-1])
    bi = tuple(new_index() for _ in b.shape[1:])
    k = new_index()
    r = uflsem.as_tensor(uflsem.t_index(a, ai + (k,)) * uflsem.t_index(b, (k,) + bi), ai + bi)
    return node(r, "Dot", (a, b))


def m_outer(a, b):
    a, b = as_T(a), as_T(b)
    ii = tuple(new_index() for _ in a.shape)
    jj = tuple(new_index() for _ in b.shape)
    r = uflsem.as_tensor(uflsem.conj(uflsem.t_index(a, ii)) * uflsem.t_index(b, jj), ii + jj)
    return node(r, "Outer", (a, b))


def restrict(t: T, side: str) -> T:
    memo = {}

    def rec(e):
        r = memo.get(e)
        if r is not None:
            return r
        if e.op == "s":
            r = sym.sym(e.args[0] + "@" + side)
        elif e.op == "cs":
            r = Ex("cs", e.args[0] + "@" + side)
        elif e.op in ("c", "I"):
            r = e
        else:
            r = Ex(e.op, *[rec(a) if isinstance(a, Ex) else a for a in e.args])
        memo[e] = r
        return r

    return t.map(rec)


def m_restricted(side):
    def model(a):
        a = as_T(a)
        return node(restrict(a, side), "PositiveRestricted" if side == "+" else "NegativeRestricted", (a,), _side=side)

    return model


def grad_named(a: T, dim: int, prefix: str) -> T:
    """Spatial derivative as a derivation on terms; symbol s -> '<prefix><k>(s)'."""
    a = as_T(a)
    memos = [dict() for _ in range(dim)]

    def D(e, k):
        memo = memos[k]

        def rec(x):
            r = memo.get(x)
            if r is not None:
                return r
            if x.op in ("c", "I"):
                r = sym.ZERO
            elif x.op == "s":
                r = sym.sym(f"{prefix}{k}({x.args[0]})")
            elif x.op == "cs":
                r = sym.conj(sym.sym(f"{prefix}{k}({x.args[0]})"))
            elif x.op == "+":
                r = sym.add(rec(x.args[0]), rec(x.args[1]))
            elif x.op == "*":
                r = sym.add(sym.mul(rec(x.args[0]), x.args[1]), sym.mul(x.args[0], rec(x.args[1])))
            elif x.op == "/":
                u, v = x.args
                r = sym.div(sym.add(sym.mul(rec(u), v), sym.neg(sym.mul(u, rec(v)))), sym.mul(v, v))
            elif x.op == "^":
                u, n = x.args
                r = sym.mul(sym.mul(sym.const(n), sym.power(u, sym.const(n - 1))), rec(u))
            else:
                raise SemError(f"spatial derivative of {x.op} not modelled")
            memo[x] = r
            return r

        return rec(e)

    data = {}
    for (c, iv), v in a.data.items():
        for k in range(dim):
            data[(c + (k,), iv)] = D(v, k)
    return T(a.shape + (dim,), a.fi, a.fid, data)


def base_models(gdim=None, tdim=None):
    """(class_models, overrides) shared by the rules that lift UFL-building code."""
    cm = {
        "Zero": m_zero,
        "IntValue": m_scalar,
        "FloatValue": m_scalar,
        "ScalarValue": m_scalar,
        "RealValue": m_scalar,
        "ComplexValue": m_scalar,
        "Identity": lambda n: node(uflsem.identity(n), "Identity", (), _ufl_is_terminal_=True),
        "MultiIndex": lambda ii: MI(ii),
        "FixedIndex": lambda i: int(i),
        "Index": new_index,
        "Indexed": m_indexed,
        "IndexSum": m_index_sum,
        "ComponentTensor": m_component_tensor,
        "ListTensor": m_list_tensor,
        "Sum": m_sum,
        "Product": m_product,
        "Division": m_division,
        "Power": m_power,
        "Abs": m_unary("Abs", "abs"),
        "Conj": lambda a: node(uflsem.conj(a), "Conj", (as_T(a),)),
        "Real": m_unary("Real", "real"),
        "Imag": m_unary("Imag", "imag"),
        "Conditional": m_conditional,
        "EQ": m_rel("=="),
        "NE": m_rel("!="),
        "LT": m_rel("<"),
        "GT": m_rel(">"),
        "LE": m_rel("<="),
        "GE": m_rel(">="),
        "AndCondition": m_and,
        "OrCondition": m_or,
        "NotCondition": m_not,
        "MinValue": m_minmax("MinValue", "min"),
        "MaxValue": m_minmax("MaxValue", "max"),
        "Inner": m_inner,
        "Dot": m_dot,
        "Outer": m_outer,
        "Variable": lambda e, label=None: node(as_T(e), "Variable", (as_T(e), label), label=lambda: label),
        "PositiveRestricted": m_restricted("+"),
        "NegativeRestricted": m_restricted("-"),
    }
    for cls, fname in [("Sqrt", "sqrt"), ("Exp", "exp"), ("Ln", "ln"), ("Cos", "cos"), ("Sin", "sin"), ("Tan", "tan"), ("Cosh", "cosh"), ("Sinh", "sinh"), ("Tanh", "tanh"), ("Acos", "acos"), ("Asin", "asin"), ("Atan", "atan"), ("Erf", "erf")]:
        cm[cls] = m_math(cls, fname)
    cm["Atan2"] = lambda a, b: node(uflsem.t_fn("atan2", a, b), "Atan2", (as_T(a), as_T(b)))
    for cls, fname in [("BesselJ", "bessel_J"), ("BesselY", "bessel_Y"), ("BesselI", "bessel_I"), ("BesselK", "bessel_K")]:
        cm[cls] = (lambda fname, cls: lambda nu, a: node(_bessel_fn(fname)(nu, a), cls, (as_T(nu), as_T(a))))(fname, cls)
    cm["CellAvg"] = lambda a: node(uflsem.t_fn("cell_avg", a) if as_T(a).shape == () else as_T(a).map(lambda v: sym.fn("cell_avg", v)), "CellAvg", (as_T(a),))
    cm["FacetAvg"] = lambda a: node(as_T(a).map(lambda v: sym.fn("facet_avg", v)), "FacetAvg", (as_T(a),))
    if gdim is not None:
        cm["Grad"] = lambda a: node(grad_named(a, gdim, "d"), "Grad", (as_T(a),))
    if tdim is not None:
        cm["ReferenceGrad"] = lambda a: node(grad_named(a, tdim, "D"), "ReferenceGrad", (as_T(a),))
    ov = {
        "Index": new_index,
        "indices": new_indices,
        "as_ufl": lambda x: x if isinstance(x, (T, Cnd)) else m_scalar(x),
        "zero": lambda *shape: m_zero(tuple(shape[0]) if shape and isinstance(shape[0], (tuple, list)) else tuple(shape)),
        "sign": m_sign,
        "conditional": m_conditional,
        "eq": m_rel("=="),
        "ne": m_rel("!="),
        "lt": m_rel("<"),
        "gt": m_rel(">"),
        "le": m_rel("<="),
        "ge": m_rel(">="),
        "conj": lambda a: uflsem.conj(a),
        "real": lambda a: uflsem.t_fn("real", a),
        "imag": lambda a: uflsem.t_fn("imag", a),
        "max_value": lambda a, b: uflsem.t_fn("max", a, b),
        "min_value": lambda a, b: uflsem.t_fn("min", a, b),
        "cell_avg": lambda a: node(uflsem.t_fn("cell_avg", a) if as_T(a).shape == () else as_T(a).map(lambda v: sym.fn("cell_avg", v)), "CellAvg", (as_T(a),)),
        "facet_avg": lambda a: node(as_T(a).map(lambda v: sym.fn("facet_avg", v)), "FacetAvg", (as_T(a),)),
        "pi": Fraction(repr(3.141592653589793)),
    }
    for fname in ["sqrt", "exp", "ln", "cos", "sin", "tan", "cosh", "sinh", "tanh", "acos", "asin", "atan", "erf"]:
        ov[fname] = (lambda fname: lambda a: uflsem.t_fn(fname, a))(fname)
    ov["atan2"] = lambda a, b: uflsem.t_fn("atan2", a, b)
    for fname in ["bessel_J", "bessel_Y", "bessel_I", "bessel_K"]:
        ov[fname] = _bessel_fn(fname)
    return cm, ov


def struct_eq(a, b, depth=0):
    """Structural equality of structured expressions (model of Expr.__eq__ / expr_equals)."""
    if a is b:
        return True
    if isinstance(a, MI) or isinstance(b, MI):
        return isinstance(a, MI) and isinstance(b, MI) and len(a) == len(b) and all(x is y or (isinstance(x, int) and isinstance(y, int) and x == y) for x, y in zip(a, b))
    if isinstance(a, Cnd) and isinstance(b, Cnd):
        return a.ex is b.ex
    if not (isinstance(a, T) and isinstance(b, T)):
        return a is b
    ka, kb = a.tags.get("key"), b.tags.get("key")
    if ka is not None or kb is not None:
        return ka == kb
    ca, cb = a.tags.get("ufl_class"), b.tags.get("ufl_class")
    if ca is None or cb is None or ca != cb or depth > 40:
        return False
    oa, ob = a.tags.get("ufl_operands", ()), b.tags.get("ufl_operands", ())
    if len(oa) != len(ob):
        return False
    if not oa:
        # literals
        return a.shape == b.shape and a.fimap() == b.fimap() and all(a.data[k] is b.data.get(k) for k in a.data)
    return all(struct_eq(x, y, depth + 1) for x, y in zip(oa, ob))


_CONSTANT_VALUE_CLASSES = {"Zero", "IntValue", "RealValue", "FloatValue", "ComplexValue", "ScalarValue", "Identity", "PermutationSymbol"}


def cellwise_constant(o) -> bool:
    """ufl.checks.is_cellwise_constant on abstract nodes: every terminal under the node is constant over a cell
    (terminals answer by their `cellwise_constant` tag, literal constants are, untagged symbols are general fields)"""
    seen = {}

    def rec(t):
        if not isinstance(t, T):
            return True  # multi-indices, labels
        k = id(t)
        if k in seen:
            return seen[k]
        tags = t.tags
        if "cellwise_constant" in tags:
            r = bool(tags["cellwise_constant"])
        elif tags.get("ufl_class") in _CONSTANT_VALUE_CLASSES:
            r = True
        elif tags.get("ufl_operands"):
            r = all(rec(a) for a in tags["ufl_operands"])
        else:
            r = False
        seen[k] = r
        return r

    return rec(as_T(o))


def nodes_of(e):
    """every node below e (abstract tensors by their tags, container objects by their attributes), each once"""
    from .lift import Obj

    seen, out, stack = set(), [], [e]
    while stack:
        t = stack.pop()
        if id(t) in seen:
            continue
        seen.add(id(t))
        if isinstance(t, T):
            out.append(t)
            stack.extend(reversed(t.tags.get("ufl_operands", ())))
        elif isinstance(t, Obj) and "ufl_operands" in t.attrs:
            out.append(t)
            stack.extend(reversed(t.attrs["ufl_operands"]))
    return out


def make_pullback(prog, clsname, *args, ip=None):
    """an instance of ufl.pullback.<clsname> whose state is whatever the class's own __init__ (interpreted from
    source) sets up from the given arguments - the rules never name its private attributes"""
    from .lift import Interp, Obj
    from .model import FuncInfo

    cls = prog.get_class("ufl.pullback." + clsname)
    o = Obj("pullback:" + clsname, __class__=cls)
    init = prog.lookup(cls, "__init__")
    if isinstance(init, FuncInfo):
        (ip or Interp(prog)).call_function(init, list(args), {}, self_obj=o)
    elif args:
        raise AnalysisError(f"{clsname}{args!r}: the class takes no constructor arguments")
    return o


def install_type_queries(ip):
    """ufl.algorithms.analysis type queries (generators over traversals in the source) as structural walks over the
    abstract nodes: has_type / has_exact_type / extract_type"""
    from .lift import Obj

    by_name = {}

    def klass(name):
        if not by_name:
            for c in ip.prog.all_classes():
                by_name.setdefault(c.name, c)
        return by_name.get(name)

    def class_of(t):
        name = t.tags.get("ufl_class") if isinstance(t, T) else (t.attrs.get("ufl_class") if isinstance(t, Obj) else None)
        return klass(name) if name else None

    def is_a(t, k):
        ks = k if isinstance(k, (tuple, list)) else (k,)
        c = class_of(t)
        return c is not None and any(c is kk or (hasattr(kk, "name") and c.is_subclass_of(kk.name)) for kk in ks)

    ov = ip.overrides
    ov.setdefault("has_exact_type", lambda e, k: any(class_of(t) is k for t in nodes_of(e)))
    ov.setdefault("has_type", lambda e, k: any(is_a(t, k) for t in nodes_of(e)))
    ov.setdefault("extract_type", lambda e, k: {t for t in nodes_of(e) if is_a(t, k)})


def install(ip: Interp, gdim=None, tdim=None):
    install_type_queries(ip)
    cm, ov = base_models(gdim, tdim)
    ip.class_models.update(cm)
    ip.overrides.update(ov)
    ip.overrides.setdefault("is_cellwise_constant", cellwise_constant)
    from .lift import ModelledClass

    try:
        ip.overrides["Index"] = ModelledClass(ip.prog.get_class("ufl.core.multiindex.Index"), new_index)
    except Exception:
        pass
    prev_cmp = ip.compare

    def compare(op, a, b, node_):
        import ast as _ast

        if (isinstance(a, T) or isinstance(b, T)) and op in (_ast.Lt, _ast.Gt, _ast.LtE, _ast.GtE):
            return m_rel({_ast.Lt: "<", _ast.Gt: ">", _ast.LtE: "<=", _ast.GtE: ">="}[op])(a, b)
        if isinstance(a, (T, MI, Cnd)) and isinstance(b, (T, MI, Cnd)) and op in (_ast.Eq, _ast.NotEq):
            return struct_eq(a, b) == (op is _ast.Eq)
        if isinstance(b, T) and isinstance(a, (int, Fraction)) and not isinstance(a, bool) and op in (_ast.Eq, _ast.NotEq):
            a, b = b, a
        if isinstance(a, T) and isinstance(b, (int, Fraction)) and not isinstance(b, bool) and op in (_ast.Eq, _ast.NotEq):
            # `expr == 0` style checks (Expr.__eq__ with a python scalar): literal comparison
            if a.shape == () and not a.fi:
                e = a.get()
                if e.op == "c":
                    return (e.args[0] == b) == (op is _ast.Eq)
            return op is _ast.NotEq
        return prev_cmp(op, a, b, node_)

    ip.compare = compare
    prev_truth = ip.truth

    def truth(v, node_=None):
        if isinstance(v, MI):
            return len(v) > 0
        return prev_truth(v, node_)

    ip.truth = truth
    return ip
