"""A small family of structured symbolic expressions (see passlift.py) on which whole passes are lifted.

The builders mirror how the UFL language composes nodes (Product + IndexSum for repeated indices,
Indexed, ComponentTensor, ListTensor, Conditional, ...), using only the reference constructors of
sa/uflmodel.py.  The family deliberately contains the shapes that unit tests rarely build: the same
Index object reused in sibling and nested summation / tensor scopes, fixed/free index mixes, zeros
with free indices, variables, restrictions.
"""

from __future__ import annotations

from . import uflmodel as um
from .lift import Obj
from .uflmodel import MI, new_index, node, terminal
from .uflsem import T


def mult(a, b):
    """reference `a * b` for scalars: Product, then IndexSum over each repeated index"""
    rep = [i for i in a.fi if i in b.fi]
    p = um.m_product(a, b)
    for i in rep:
        p = um.m_index_sum(p, MI((i,)))
    return p


def idx(A, *key):
    """reference `A[key]`: Indexed, then IndexSum over indices repeated within the key"""
    r = um.m_indexed(A, MI(key))
    seen, rep = [], []
    for k in key:
        if not isinstance(k, int):
            (rep if k in seen and k not in rep else seen).append(k)
    for i in rep:
        r = um.m_index_sum(r, MI((i,)))
    return r


def build(gdim=2):
    """Returns (terminals dict, list of (description, expression))."""
    f = terminal("f", (), "Coefficient")
    g = terminal("g", (), "Coefficient")
    u = terminal("u", (2,), "Coefficient")
    v = terminal("v", (2,), "Coefficient")
    w = terminal("w", (3,), "Coefficient")
    A = terminal("A", (2, 2), "Coefficient")
    B = terminal("B", (2, 3), "Coefficient")
    C = terminal("C", (3, 2), "Coefficient")
    i, j, k, l = (new_index() for _ in range(4))  # noqa: E741
    E = []
    add = lambda d, e: E.append((d, e))  # noqa: E731
    add("f*g", mult(f, g))
    add("f + g*f", um.m_sum(f, mult(g, f)))
    add("u[i]*v[i]", mult(idx(u, i), idx(v, i)))
    add("u[0]*v[1]", mult(idx(u, 0), idx(v, 1)))
    add("A[i,i]", idx(A, i, i))
    add("A[i,j]*u[j] (free i)", mult(idx(A, i, j), idx(u, j)))
    add("B[i,j]*C[j,k] (free i,k)", mult(idx(B, i, j), idx(C, j, k)))
    # component tensors
    ct = um.m_component_tensor(mult(idx(A, i, j), idx(u, j)), MI((i,)))
    add("as_tensor(A[i,j]*u[j], (i,))", ct)
    add("as_tensor(A[i,j]*u[j], (i,))[k]*v[k]", mult(idx(ct, k), idx(v, k)))
    add("as_tensor(A[i,j]*u[j], (i,))[1]", idx(ct, 1))
    add("as_tensor(A[i,j]*u[j], (i,))[i]*v[i] (same index object reused outside)", mult(idx(ct, i), idx(v, i)))
    tr = um.m_component_tensor(idx(B, i, j), MI((j, i)))
    add("transpose as_tensor(B[i,j], (j,i))[k,l]*C[k,l]", mult(idx(tr, k, l), idx(C, k, l)))
    add("as_tensor(B[i,j], (j,i))[0,1]", idx(tr, 0, 1))
    add("as_tensor(B[i,j], (j,i))[i,j]*B[j,i] (indices reused, swapped roles)", mult(idx(tr, i, j), idx(B, j, i)))
    # the same index object summed in two sibling scopes and in nested scopes
    s1 = mult(idx(u, i), idx(v, i))
    s2 = mult(idx(A, i, i), f)
    add("(u[i]*v[i]) * (A[i,i]*f)  (sibling sums over the same index)", mult(s1, s2))
    inner = um.m_component_tensor(mult(idx(A, i, j), idx(v, j)), MI((i,)))
    add("as_tensor(A[i,j]*v[j],(i,))[j]*u[j]  (bound index reused as outer index)", mult(idx(inner, j), idx(u, j)))
    nested = um.m_index_sum(um.m_product(idx(A, i, j), um.m_index_sum(um.m_product(idx(A, j, i), idx(u, i)), MI((i,)))), MI((j,)))
    add("sum_j A[i,j] * (sum_i A[j,i]*u[i])  (inner sum rebinds the outer free index)", nested)
    # list tensors / conditionals / math
    lt = um.m_list_tensor(mult(f, g), idx(u, 0))
    add("as_vector([f*g, u[0]])[i]*v[i]", mult(idx(lt, i), idx(v, i)))
    c = um.m_rel("<")(f, g)
    add("conditional(f<g, u[i], v[i])*v[i]", mult(um.m_conditional(c, idx(u, i), idx(v, i)), idx(v, i)))
    cm, _ = um.base_models()
    add("sin(f)*u[i]*u[i]", mult(cm["Sin"](f), mult(idx(u, i), idx(u, i))))
    add("abs(u[i])*abs(u[i])", mult(cm["Abs"](idx(u, i)), cm["Abs"](idx(u, i))))
    z = um.m_zero((), (i.id, j.id), (2, 3))
    add("conditional(f<g, Zero[i,j], B[i,j]) * B[i,j]", mult(um.m_conditional(c, z, idx(B, i, j)), idx(B, i, j)))
    add("f/g + f**2", um.m_sum(um.m_division(f, g), um.m_power(f, um.m_scalar(2))))
    terms = dict(f=f, g=g, u=u, v=v, w=w, A=A, B=B, C=C, i=i, j=j, k=k, l=l)
    return terms, E
