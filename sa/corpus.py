"""A small family of structured symbolic expressions (see passlift.py) on which whole passes are lifted.

The builders mirror how the UFL language composes nodes (Product + IndexSum for repeated indices,
Indexed, ComponentTensor, ListTensor, Conditional, ...), using only the reference constructors of
sa/uflmodel.py.  The family deliberately contains the shapes that unit tests rarely build: the same
Index object reused in sibling and nested summation / tensor scopes, fixed/free index mixes, zeros
with free indices, variables, restrictions.
"""

from __future__ import annotations

from . import uflmodel as um
from .lift import Obj
from .uflmodel import MI, new_index, node, terminal
from .uflsem import T


def mult(a, b):
    """reference `a * b` for scalars: Product, then IndexSum over each repeated index"""
    rep = [i for i in a.fi if i in b.fi]
    p = um.m_product(a, b)
    for i in rep:
        p = um.m_index_sum(p, MI((i,)))
    return p


def idx(A, *key):
    """reference `A[key]`: Indexed, then IndexSum over indices repeated within the key"""
    r = um.m_indexed(A, MI(key))
    seen, rep = [], []
    for k in key:
        if not isinstance(k, int):
            (rep if k in seen and k not in rep else seen).append(k)
    for i in rep:
        r = um.m_index_sum(r, MI((i,)))
    return r


def build(gdim=2):
    """Returns (terminals dict, list of (description, expression))."""
    f = terminal("f", (), "Coefficient")
    g = terminal("g", (), "Coefficient")
    u = terminal("u", (2,), "Coefficient")
    v = terminal("v", (2,), "Coefficient")
    w = terminal("w", (3,), "Coefficient")
    A = terminal("A", (2, 2), "Coefficient")
    B = terminal("B", (2, 3), "Coefficient")
    C = terminal("C", (3, 2), "Coefficient")
    i, j, k, l = (new_index() for _ in range(4))  # noqa: E741
    E = []
    add = lambda d, e: E.append((d, e))  # noqa: E731
    add("f*g", mult(f, g))
    add("f + g*f", um.m_sum(f, mult(g, f)))
    add("u[i]*v[i]", mult(idx(u, i), idx(v, i)))
    add("u[0]*v[1]", mult(idx(u, 0), idx(v, 1)))
    add("A[i,i]", idx(A, i, i))
    add("A[i,j]*u[j] (free i)", mult(idx(A, i, j), idx(u, j)))
    add("B[i,j]*C[j,k] (free i,k)", mult(idx(B, i, j), idx(C, j, k)))
    # component tensors
    ct = um.m_component_tensor(mult(idx(A, i, j), idx(u, j)), MI((i,)))
    add("as_tensor(A[i,j]*u[j], (i,))", ct)
    add("as_tensor(A[i,j]*u[j], (i,))[k]*v[k]", mult(idx(ct, k), idx(v, k)))
    add("as_tensor(A[i,j]*u[j], (i,))[1]", idx(ct, 1))
    add("as_tensor(A[i,j]*u[j], (i,))[i]*v[i] (same index object reused outside)", mult(idx(ct, i), idx(v, i)))
    tr = um.m_component_tensor(idx(B, i, j), MI((j, i)))
    add("transpose as_tensor(B[i,j], (j,i))[k,l]*C[k,l]", mult(idx(tr, k, l), idx(C, k, l)))
    add("as_tensor(B[i,j], (j,i))[0,1]", idx(tr, 0, 1))
    add("as_tensor(B[i,j], (j,i))[i,j]*B[j,i] (indices reused, swapped roles)", mult(idx(tr, i, j), idx(B, j, i)))
    # the same index object summed in two sibling scopes and in nested scopes
    s1 = mult(idx(u, i), idx(v, i))
    s2 = mult(idx(A, i, i), f)
    add("(u[i]*v[i]) * (A[i,i]*f)  (sibling sums over the same index)", mult(s1, s2))
    inner = um.m_component_tensor(mult(idx(A, i, j), idx(v, j)), MI((i,)))
    add("as_tensor(A[i,j]*v[j],(i,))[j]*u[j]  (bound index reused as outer index)", mult(idx(inner, j), idx(u, j)))
    nested = um.m_index_sum(um.m_product(idx(A, i, j), um.m_index_sum(um.m_product(idx(A, j, i), idx(u, i)), MI((i,)))), MI((j,)))
    add("sum_j A[i,j] * (sum_i A[j,i]*u[i])  (inner sum rebinds the outer free index)", nested)
    # list tensors / conditionals / math
    lt = um.m_list_tensor(mult(f, g), idx(u, 0))
    add("as_vector([f*g, u[0]])[i]*v[i]", mult(idx(lt, i), idx(v, i)))
    c = um.m_rel("<")(f, g)
    add("conditional(f<g, u[i], v[i])*v[i]", mult(um.m_conditional(c, idx(u, i), idx(v, i)), idx(v, i)))
    cm, _ = um.base_models()
    add("sin(f)*u[i]*u[i]", mult(cm["Sin"](f), mult(idx(u, i), idx(u, i))))
    add("abs(u[i])*abs(u[i])", mult(cm["Abs"](idx(u, i)), cm["Abs"](idx(u, i))))
    z = um.m_zero((), (i.id, j.id), (2, 3))
    add("conditional(f<g, Zero[i,j], B[i,j]) * B[i,j]", mult(um.m_conditional(c, z, idx(B, i, j)), idx(B, i, j)))
    add("f/g + f**2", um.m_sum(um.m_division(f, g), um.m_power(f, um.m_scalar(2))))
    # a zero with two free indices of different extents kept alive in a conditional branch / list row, below a
    # component tensor that is then indexed by a fixed component: the surviving index keeps *its own* extent
    cz = um.m_conditional(c, z, idx(B, i, j))
    add("as_tensor(conditional(f<g, Zero[i,j], B[i,j]), (i,))[1] * w[j]", mult(idx(um.m_component_tensor(cz, MI((i,))), 1), idx(w, j)))
    add("as_tensor(conditional(f<g, Zero[i,j], B[i,j]), (j,))[2] * u[i]", mult(idx(um.m_component_tensor(cz, MI((j,))), 2), idx(u, i)))
    add("as_tensor(conditional(f<g, Zero[i,j], B[i,j]), (i,j))[1,k] * w[k]", mult(idx(um.m_component_tensor(cz, MI((i, j))), 1, k), idx(w, k)))
    z1 = um.m_zero((), (i.id,), (2,))
    cz1 = um.m_conditional(c, z1, idx(u, i))
    add("as_tensor(conditional(f<g, Zero[i], u[i]), (i,))[0]   (every free index of the zero becomes fixed)", idx(um.m_component_tensor(cz1, MI((i,))), 0))
    add("as_tensor(conditional(f<g, Zero[i,j], B[i,j]), (i,j))[1,2]", idx(um.m_component_tensor(cz, MI((i, j))), 1, 2))
    lz = um.m_list_tensor(z, idx(B, i, j))
    add("as_tensor(as_vector([Zero[i,j], B[i,j]])[l], (i,))[0] (free j, l)", idx(um.m_component_tensor(idx(lz, l), MI((i,))), 0))
    # index counts and fixed index values are different namespaces: indices whose counts are as small as the
    # fixed components next to them (the predefined ufl.i, ufl.j, ... have counts 0..7)
    i0, i1, i2 = new_index(0), new_index(1), new_index(2)
    ctb = um.m_component_tensor(um.m_sum(idx(u, i2), idx(v, i2)), MI((i2,)))  # body is not a plain Indexed
    add("T[1] * (T[j]*v[j]), T = as_tensor(u[k]+v[k], (k,)), count(j) == 1", mult(idx(ctb, 1), mult(idx(ctb, i1), idx(v, i1))))
    add("T[0]*T[j] (free j), count(j) == 0", mult(idx(ctb, 0), idx(ctb, i0)))
    add("T[j]*T[1] (free j), count(j) == 1", mult(idx(ctb, i1), idx(ctb, 1)))
    ct2 = um.m_component_tensor(um.m_sum(idx(A, i2, i1), idx(A, i1, i2)), MI((i2, i1)))
    add("S[1,j]*S[j,0] + S[0,1], S = as_tensor(A[k,l]+A[l,k], (k,l)), counts 0..2", um.m_sum(mult(idx(ct2, 1, i0), idx(ct2, i0, 0)), idx(ct2, 0, 1)))
    add("A[i,i]*u[0] + A[0,j]*u[j] - indices with counts 0 and 1", um.m_sum(mult(idx(A, i0, i0), idx(u, 0)), mult(idx(A, 0, i1), idx(u, i1))))
    terms = dict(f=f, g=g, u=u, v=v, w=w, A=A, B=B, C=C, i=i, j=j, k=k, l=l)
    return terms, E


# ----------------------------------------------------------------------------------------------
# Compositional generator: tensor-valued bases x wrapper chains x closers.
#
# The hand-written family above samples shapes known to be delicate; the generator enumerates *all*
# compositions of a small grammar up to a depth bound, so that a rewrite which is only wrong when a
# particular construct sits below another particular construct (a tensor-valued sum below a variable,
# a component tensor inside a conditional branch indexed by a free index, ...) is reached without
# anybody having to think of that combination.


def _tensor_bases(t):
    """(description, tensor-valued structured expression) - shapes (2,), (3,), (2,3), (3,2)"""
    u, v, w, A, B, C, f, g = (t[k] for k in "u v w A B C f g".split())
    i, j = new_index(), new_index()
    out = [("u", u), ("B", B)]
    # tensor-valued IndexSum  sum_i u[i]*B[i,:]   (IndexSum over a ComponentTensor summand)
    row = um.m_component_tensor(um.m_product(idx(u, i), idx(B, i, j)), MI((j,)))
    out.append(("sum_i as_tensor(u[i]*B[i,j],(j,))", um.m_index_sum(row, MI((i,)))))
    i2, j2 = new_index(), new_index()
    # ComponentTensor of a contraction  as_tensor(B[i,j]*w[j], (i,))
    out.append(("as_tensor(B[i,j]*w[j],(i,))", um.m_component_tensor(mult(idx(B, i2, j2), idx(w, j2)), MI((i2,)))))
    i3, j3 = new_index(), new_index()
    out.append(("as_tensor(C[i,j],(j,i))", um.m_component_tensor(idx(C, i3, j3), MI((j3, i3)))))
    out.append(("as_vector([f*g, u[1]])", um.m_list_tensor(mult(f, g), idx(u, 1))))
    out.append(("u + v", um.m_sum(u, v)))
    return out


def _wrappers(t):
    """(description, function tensor -> tensor of the same or a larger shape)"""
    f, g = t["f"], t["g"]
    c = um.m_rel("<")(f, g)

    def w_variable(X):
        return node(X, "Variable", (X, Obj("label", ufl_class="Label", ufl_operands=(), _ufl_is_terminal_=True)))

    def w_cond(X):
        other = um.m_component_tensor(*_full_index(X, scale=g)) if X.shape else mult(X, g)
        return um.m_conditional(c, X, other)

    def w_cond_else(X):
        other = um.m_component_tensor(*_full_index(X, scale=f)) if X.shape else mult(X, f)
        return um.m_conditional(c, other, X)

    def w_list(X):
        second = um.m_component_tensor(*_full_index(X, scale=f))
        return um.m_list_tensor(X, second)

    def w_sum(X):
        return um.m_sum(X, um.m_component_tensor(*_full_index(X, scale=g)))

    def w_restrict(X):
        r = um.m_restricted("+")(X)
        return r

    def w_ct(X):
        # as_tensor(X[ii], ii): an identity re-wrapping with fresh indices
        return um.m_component_tensor(*_full_index(X))

    return [("variable", w_variable), ("cond-then", w_cond), ("cond-else", w_cond_else), ("list-row", w_list), ("sum", w_sum), ("as_tensor-rewrap", w_ct)]


def _full_index(X, scale=None):
    ii = tuple(new_index() for _ in X.shape)
    e = idx(X, *ii)
    if scale is not None:
        e = um.m_product(scale, e)
    return e, MI(ii)


def _closers(t):
    """(description, function tensor -> closed scalar)"""
    u, v, w, A, B, C = (t[k] for k in "u v w A B C".split())

    def partner(shape):
        return {(2,): v, (3,): w, (2, 3): B, (3, 2): C, (2, 2): A, (2, 2, 3): None, (2, 3, 2): None}.get(tuple(shape))

    def fixed2(X):
        # X[0..]*X[1..]: two different fixed components of one shared node
        a = idx(X, *([0] * len(X.shape)))
        b = idx(X, *([1] * len(X.shape)))
        return mult(a, b)

    def free_contract(X):
        p = partner(X.shape)
        ii = tuple(new_index() for _ in X.shape)
        if p is None:
            return mult(idx(X, *ii), idx(X, *ii))
        return mult(idx(X, *ii), idx(p, *ii))

    def self_contract(X):
        ii = tuple(new_index() for _ in X.shape)
        return mult(idx(X, *ii), idx(X, *ii))

    def mixed(X):
        # first axis fixed, the others free:  X[1, j..] * P[0, j..]
        ii = tuple(new_index() for _ in X.shape[1:])
        p = partner(X.shape)
        if p is None:
            p = X
        return mult(idx(X, 1, *ii), idx(p, 0, *ii))

    return [("X[0]*X[1]", fixed2), ("X[i]*P[i]", free_contract), ("X[i]*X[i]", self_contract), ("X[1,j]*P[0,j]", mixed)]


def generate(depth=1, terms=None):
    """All compositions closer(wrapper_n(...wrapper_1(base))) with n <= depth.
    Returns (terms, list of (description, closed scalar expression))."""
    import itertools

    if terms is None:
        terms, _ = build()
    out = []
    wr = _wrappers(terms)
    for n in range(depth + 1):
        for chain in itertools.product(wr, repeat=n):
            for bd, base in _tensor_bases(terms):
                X = base
                d = bd
                try:
                    for wd, wf in chain:
                        X = wf(X)
                        d = f"{wd}({d})"
                    for cd, cf in _closers(terms):
                        out.append((f"{cd} with X = {d}", cf(X)))
                except um.LiftRaise:
                    continue
    return terms, out
