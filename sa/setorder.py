"""Rule SET-ORDER: the iteration order of a set must not reach anything ordered.

Python sets iterate in hash order; the hashes of UFL objects depend on counters (Index, Coefficient,
Constant, Mesh ids) and, for anything hashing a str, on the per-process hash seed.  A sequence, a nesting
of operators or a string whose order comes from iterating a set therefore changes with incidental
numbering and between processes.

Set-kind values (flow-insensitive per function): set()/frozenset() calls, set displays and comprehensions,
set algebra on set-kind values, results of functions all of whose returns are set-kind (summary fixpoint),
names assigned from those, elements of a tuple returned by a function whose return tuple has a set-kind
element at that position (unpacking at the call site).

Order-sensitive sinks: tuple()/list()/enumerate()/zip()/iter()/next()/reversed() of a set-kind value,
list / generator / dict comprehensions over one, str.join, multi-target unpacking, and for-loops whose body
appends, yields, writes, or accumulates through a constructor (x = f(x, element)).
Accepted: anything wrapped directly in a sorter or an order-insensitive reduction (sorted, len, min, max,
sum, any, all, set, frozenset, the repository's sort_domains / sorted_expr / sorted_by_count), set algebra
(`s.union(*[...])`, `s.update(...)`), loops that only add to sets / test / raise / count.
"""

from __future__ import annotations

import ast

from .model import AnalysisError, norm

SETCALLS = {"set", "frozenset"}
ORDER_FREE_FUNCS = {"sorted", "len", "min", "max", "sum", "any", "all", "set", "frozenset", "sort_domains", "sorted_expr", "sorted_by_count", "sorted_by_key", "bool", "isinstance", "join_domains", "hash", "unique_sorted_indices", "Counter"}
SEQ_SINKS = {"tuple", "list", "enumerate", "zip", "iter", "next", "reversed", "chain"}

POSITIVE = '''
def bad_tuple(component):
    repeated = set()
    for ind in component:
        repeated.add(ind)
    return tuple(component), tuple(repeated)


def bad_loop(items, p):
    todo = {i for i in items}
    for i in todo:
        p = wrap(p, i)
    return p


def good(items):
    s = set(items)
    n = len(s)
    t = tuple(sorted(s))
    for i in s:
        if i < 0:
            raise ValueError("negative")
    u = frozenset(s).union(*[x.parents for x in s])
    return n, t, u
'''


def _set_kind(e, env, summaries):
    if isinstance(e, (ast.Set, ast.SetComp)):
        return True
    if isinstance(e, ast.Call):
        f = e.func
        if isinstance(f, ast.Name) and (f.id in SETCALLS or f.id in summaries):
            return True
        if isinstance(f, ast.Attribute) and f.attr in ("union", "intersection", "difference", "symmetric_difference", "copy") and _set_kind(f.value, env, summaries):
            return True
    if isinstance(e, ast.BinOp) and isinstance(e.op, (ast.BitOr, ast.BitAnd, ast.Sub, ast.BitXor)):
        return _set_kind(e.left, env, summaries) or _set_kind(e.right, env, summaries)
    if isinstance(e, ast.Name):
        return env.get(e.id, False)
    if isinstance(e, ast.IfExp):
        return _set_kind(e.body, env, summaries) or _set_kind(e.orelse, env, summaries)
    return False


def _env(fn, summaries, tuple_sets):
    env = {}
    for _ in range(2):
        for st in ast.walk(fn):
            if isinstance(st, ast.Assign) and len(st.targets) == 1:
                t = st.targets[0]
                if isinstance(t, ast.Name) and _set_kind(st.value, env, summaries):
                    env[t.id] = True
                elif isinstance(t, (ast.Tuple, ast.List)) and isinstance(st.value, ast.Call) and isinstance(st.value.func, ast.Name) and st.value.func.id in tuple_sets:
                    for pos in tuple_sets[st.value.func.id]:
                        if pos < len(t.elts) and isinstance(t.elts[pos], ast.Name):
                            env[t.elts[pos].id] = True
            elif isinstance(st, ast.AnnAssign) and isinstance(st.target, ast.Name) and st.value is not None and _set_kind(st.value, env, summaries):
                env[st.target.id] = True
    return env


def _body_order_free(body, loopvars):
    for st in body:
        for n in ast.walk(st):
            if isinstance(n, (ast.Yield, ast.YieldFrom)):
                return n
            if isinstance(n, ast.Call) and isinstance(n.func, ast.Attribute) and n.func.attr in ("append", "extend", "insert", "appendleft", "write"):
                return n
            if isinstance(n, ast.AugAssign) and not isinstance(n.op, (ast.Add, ast.BitOr, ast.BitAnd)):
                return n
            if isinstance(n, ast.AugAssign) and isinstance(n.op, ast.Add) and isinstance(n.value, (ast.List, ast.Tuple, ast.JoinedStr)):
                return n
            if isinstance(n, ast.Assign) and len(n.targets) == 1 and isinstance(n.targets[0], ast.Name):
                t = n.targets[0].id
                used = {m.id for m in ast.walk(n.value) if isinstance(m, ast.Name)}
                if t in used and used & loopvars:
                    return n  # x = f(x, element): accumulation through a possibly non-commutative constructor
    return None


def analyse(prog, functions):
    """-> (hits [(fi, node, why)], number of set-kind values, number of uses examined)"""
    summaries, tuple_sets = set(), {}
    for _ in range(3):
        for fi in functions:
            env = _env(fi.node, summaries, tuple_sets)
            rets = [r for r in ast.walk(fi.node) if isinstance(r, ast.Return) and r.value is not None]
            if rets and all(_set_kind(r.value, env, summaries) for r in rets):
                summaries.add(fi.name)
            pos = set()
            for r in rets:
                if isinstance(r.value, ast.Tuple):
                    pos |= {k for k, e in enumerate(r.value.elts) if _set_kind(e, env, summaries)}
            if pos:
                tuple_sets[fi.name] = pos
    hits, n_sets, n_uses = [], 0, 0
    for fi in functions:
        env = _env(fi.node, summaries, tuple_sets)
        n_sets += len(env)
        parents = {}
        for p in ast.walk(fi.node):
            for c in ast.iter_child_nodes(p):
                parents[c] = p

        def wrapped_order_free(n):
            par = parents.get(n)
            if isinstance(par, ast.Starred):
                par = parents.get(par)
            if isinstance(par, ast.Call) and isinstance(par.func, ast.Name) and par.func.id in ORDER_FREE_FUNCS:
                return True
            if isinstance(par, ast.Call) and isinstance(par.func, ast.Attribute) and par.func.attr in ("update", "union", "intersection", "difference", "issubset", "issuperset", "isdisjoint", "difference_update", "intersection_update"):
                return True
            return False

        for n in ast.walk(fi.node):
            if isinstance(n, ast.For) and _set_kind(n.iter, env, summaries):
                n_uses += 1
                lv = {m.id for m in ast.walk(n.target) if isinstance(m, ast.Name)}
                why = _body_order_free(n.body, lv)
                if why is not None:
                    hits.append((fi, n, f"for-loop over the set `{norm(n.iter)[:40]}` whose body is order sensitive (`{norm(why)[:50]}`)"))
            elif isinstance(n, ast.Call) and isinstance(n.func, ast.Name) and n.func.id in SEQ_SINKS and n.args and any(_set_kind(a, env, summaries) for a in n.args):
                n_uses += 1
                if not wrapped_order_free(n):
                    hits.append((fi, n, f"{n.func.id}() of the set `{norm(n.args[0])[:40]}`"))
            elif isinstance(n, (ast.ListComp, ast.GeneratorExp, ast.DictComp)) and any(_set_kind(g.iter, env, summaries) for g in n.generators):
                n_uses += 1
                if not wrapped_order_free(n):
                    hits.append((fi, n, f"comprehension over a set: `{norm(n)[:70]}`"))
            elif isinstance(n, ast.Call) and isinstance(n.func, ast.Attribute) and n.func.attr == "join" and n.args and _set_kind(n.args[0], env, summaries):
                n_uses += 1
                hits.append((fi, n, "str.join over a set"))
            elif isinstance(n, ast.Assign) and isinstance(n.targets[0], (ast.Tuple, ast.List)) and len(n.targets[0].elts) > 1 and _set_kind(n.value, env, summaries):
                n_uses += 1
                hits.append((fi, n, "multi-target unpacking of a set"))
    return hits, n_sets, n_uses


def set_order_rule(ctx, rep, rule, exempt, modules=None):
    """exempt: {(module, qualname, construct prefix): reason} - reviewed sites; in the prefix `_` stands for any local
    variable of the function (a renamed local is the same site)"""
    prog = ctx.prog
    name = "verif_setorder_positive"
    if name not in prog.modules:
        prog.add_virtual_module(name, POSITIVE)
    ph, _, _ = analyse(prog, list(prog.modules[name].functions.values()))
    flagged = sorted({fi.name for fi, _, _ in ph})
    if flagged != ["bad_loop", "bad_tuple"]:
        raise AnalysisError(f"set-order positive control: flagged {flagged}, expected ['bad_loop', 'bad_tuple']")
    funcs = [f for f in prog.all_functions() if not f.module.path.startswith("<") and not f.module.name.startswith("ufl.formatting") and (modules is None or f.module.name in modules)]
    hits, n_sets, n_uses = analyse(prog, funcs)
    used = set()
    import re as _re

    from .memokey import _fn_locals

    def anonymous(text, locs):
        """local variable names are not part of a reviewed site: every local identifier becomes `_`"""
        return _re.sub(r"(?<![.\w])([A-Za-z_]\w*)", lambda m: "_" if m.group(1) in locs else m.group(1), text)

    for fi, node, why in hits:
        construct = norm(node)[:120]
        anon = anonymous(construct, _fn_locals(fi.node))
        key = next((k for k in exempt if k[0] == fi.module.name and k[1] == fi.qualname and (construct.startswith(k[2]) or anon.startswith(k[2]))), None)
        if key is not None:
            used.add(key)
            rep.ok(rule, (fi, node), f"reviewed: {exempt[key]}")
            continue
        rep.violation(rule, (fi, node), construct, f"{fi.qualname}: {why}: the resulting order depends on object hashes (counters, ids, the per-process str hash seed)")
    rep.ok(rule, funcs[0], f"set-order rule: {len(funcs)} functions, {n_sets} set-valued locals, {n_uses} iterations / conversions examined; positive control flagged")
    rep.counts["set_valued_locals"] = n_sets
    rep.counts["set_uses_examined"] = n_uses
    if n_sets < 40:
        raise AnalysisError(f"only {n_sets} set-valued locals found: the rule went vacuous")
    return hits
