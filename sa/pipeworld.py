"""One world in which the whole integrand pipeline of compute_form_data can be interpreted.

Every expression node is a uflsem.T carrying node identity *and* meaning, and the meanings of all nodes are
terms over one set of base symbols, so that the meaning of the integrand before and after any sequence of
passes can be compared directly:

  base symbols   vertex coordinates v{a}_{i} of an affine simplex, reference coordinates X[j], the reference
                 values r<name>[c] of every form argument / coefficient, their reference derivatives
                 D<j..>(r<name>[c]), the quadrature weight w
  geometry       Jacobian = dx/dX from the vertices, JacobianInverse its true inverse, JacobianDeterminant its
                 determinant, SpatialCoordinate = v0 + J X, CellVolume = |detJ| * reference volume, ...
  functions      a coefficient with an identity pullback *is* its reference value; a contravariant-Piola one is
                 J r / detJ, a covariant-Piola one K^T r (the definition of the push-forward, C08 decides that
                 the library's pullback classes implement it)
  derivatives    ReferenceGrad is the derivation d/dX_j on terms (D_j X_i = delta_ij, vertices are constant,
                 D_j of a reference value is the symbol D<j>(..)); Grad is the chain rule
                 d/dx_k = sum_j d/dX_j * K[j,k] with the true inverse Jacobian

The passes themselves are interpreted from source: constructors as in sa/ctorlift.py, traversal drivers as in
sa/passlift.py (generalised to algorithm objects that the lifted code instantiates itself).
"""

from __future__ import annotations

import itertools
import re
from fractions import Fraction

from . import sym, uflmodel, uflsem
from .ctorlift import CtorHarness
from .lift import LiftRaise, NumTypecodes, Obj, Unsupported
from .model import ClassInfo, FuncInfo
from .passlift import PassHarness, node_class, node_operands
from .uflmodel import MI, node, terminal
from .uflsem import SemError, T, as_T

_DRE = re.compile(r"^D((?:\d,?)+)\((.*)\)$")


def d_symbol(name, j):
    """symbol of d/dX_j of the symbol `name` (derivative indices kept sorted: mixed partials commute)"""
    side = ""
    if "@" in name:  # restriction commutes with differentiation: D(f@+) is written D(f)@+
        name, side = name.rsplit("@", 1)
        side = "@" + side
    m = _DRE.match(name)
    if m:
        idx = sorted([int(x) for x in m.group(1).split(",")] + [j])
        base = m.group(2)
    else:
        idx, base = [j], name
    return sym.sym(f"D{','.join(map(str, idx))}({base}){side}")


def derive(e, leaf, memo):
    """derivation on terms with the given rule for symbols (calculus table of sa/adlift.py for functions)"""
    from .adlift import Deriv

    d = memo.get("__deriv__")
    if d is None:
        d = memo["__deriv__"] = Deriv((), sym_rule=lambda name, k: leaf(name))
    try:
        return d(e)
    except ValueError as ex:
        raise SemError(str(ex))


class PipeWorld:
    def __init__(self, ctx, cellname="triangle", gdim=2):
        from .rules import c06
        from .rules.c07 import Cell, mat, vec

        self.ctx = ctx
        self.prog = prog = ctx.prog
        self.cell = c = Cell(cellname, gdim)
        self.H = CtorHarness(ctx)
        self.ip = ip = self.H.ip
        ip.max_depth = 400  # the whole pipeline is one nest of calls
        ip.eager_generators = True  # traversal / extraction helpers met inside the pipeline
        import sys

        if sys.getrecursionlimit() < 20000:
            sys.setrecursionlimit(20000)
        # traversal drivers (generic over the algorithm object) from PassHarness
        self.P = PassHarness(ctx, "ufl.algorithms.apply_algebra_lowering.LowerCompoundAlgebra", gdim=c.gdim, tdim=c.tdim, ip=ip)
        # map_integrands / map_integrand_dags are interpreted from source here (Form and Integral are modelled)
        ip.overrides.pop("map_integrands", None)
        ip.overrides.pop("map_integrand_dags", None)
        ip.instantiable |= {"*"}
        ip.on_instantiate = self._on_instantiate
        tdim = c.tdim
        self.J = c.J()
        self.detJ = c06.o_det(self.J) if tdim == gdim else None
        self.K = c06.o_inverse(self.J) if tdim == gdim else c06.o_pseudo_inverse(self.J)
        self.X = [sym.sym(f"X[{j}]") for j in range(tdim)]
        self.vertex_symbols = {f"v{a}_{i}" for a in range(len(c.v)) for i in range(gdim)}
        coord_el = Obj("coordinate element", pullback=Obj("pullback", is_identity=True), embedded_subdegree=1, embedded_superdegree=1)
        ucell = Obj("cell", cellname=lambda: cellname, topological_dimension=tdim)
        self.dom = dom = Obj(
            "domain",
            geometric_dimension=gdim,
            topological_dimension=tdim,
            ufl_coordinate_element=lambda: coord_el,
            ufl_cell=lambda: ucell,
            is_piecewise_linear_simplex_domain=lambda: True,
            ufl_id=lambda: 0,
        )
        dom.attrs["__class__"] = None
        ip.overrides["extract_unique_domain"] = lambda o, expand_mesh_sequence=True: dom
        ip.overrides["extract_domains"] = lambda o, expand_mesh_sequence=True: (dom,)
        ip.overrides["warnings"] = Obj("warnings", warn=lambda *a, **k: None)
        cm = ip.class_models
        fact = lambda n: __import__("math").factorial(n)  # noqa: E731
        x_val = T((gdim,), (), (), {((i,), ()): sym.add(c.v[0][i], _dot([self.J.get((i, j)) for j in range(tdim)], self.X)) for i in range(gdim)})
        geo = {
            "Jacobian": self.J,
            "JacobianInverse": self.K,
            "SpatialCoordinate": x_val,
            "CellCoordinate": T((tdim,), (), (), {((j,), ()): self.X[j] for j in range(tdim)}),
            "CellVertices": mat(c.v),
            "CellOrigin": vec(c.v[0]),
            "ReferenceCellVolume": T.scalar(sym.const(Fraction(1, fact(tdim)))),
            "CellEdgeVectors": c.edge_vectors(),
            "QuadratureWeight": T.scalar(sym.sym("w")),
            "CellOrientation": T.scalar(sym.ONE),
        }
        if self.detJ is not None:
            geo["JacobianDeterminant"] = T.scalar(self.detJ)
            geo["CellVolume"] = T.scalar(sym.mul(sym.fn("abs", self.detJ), sym.const(Fraction(1, fact(tdim)))))
        self.geo_values = geo
        self._geo_nodes = {}
        for name in geo:
            cm[name] = (lambda name: lambda d=None: self.geometry(name))(name)
        cm["ReferenceValue"] = self.reference_value
        cm["ReferenceGrad"] = self.reference_grad
        cm["Grad"] = self.grad
        self.H.ref.update({k: cm[k] for k in ("ReferenceValue", "ReferenceGrad", "Grad")})
        # GeometryLoweringApplier is built from its own __init__; a type's typecode is its name and
        # `[x] * Expr._ufl_num_typecodes_` a table over names
        ip.class_attrs = dict(getattr(ip, "class_attrs", None) or {})
        ip.class_attrs[("ufl.core.expr", "Expr", "_ufl_num_typecodes_")] = NumTypecodes(len(ctx.tm.types))
        Form = prog.get_class("ufl.form.Form")
        Integral = prog.get_class("ufl.integral.Integral")
        self._Form, self._Integral = Form, Integral
        cm["Form"] = lambda integrals: self.form(list(integrals))
        cm["Integral"] = None
        del cm["Integral"]
        ip.skip_functions |= {"MultiFunction.__init__", "DAGTraverser.__init__", "Transformer.__init__", "ReuseTransformer.__init__"}
        self.functions = {}
        # isinstance of plain python numbers against numbers.* in exproperators
        ip.overrides["is_cellwise_constant"] = self._is_cellwise_constant
        self.install_type_queries()

    # ------------------------------------------------------------------ type queries over an expression
    def nodes_of(self, e):
        """every node below e (abstract tensors by their tags, container objects by their attributes), each once"""
        seen, out, stack = set(), [], [e]
        while stack:
            t = stack.pop()
            if id(t) in seen:
                continue
            seen.add(id(t))
            if isinstance(t, T):
                out.append(t)
                stack.extend(reversed(t.tags.get("ufl_operands", ())))
            elif isinstance(t, Obj) and "ufl_operands" in t.attrs:
                out.append(t)
                stack.extend(reversed(t.attrs["ufl_operands"]))
        return out

    def class_of(self, t):
        name = t.tags.get("ufl_class") if isinstance(t, T) else t.attrs.get("ufl_class")
        if name is None:
            return None
        try:
            return self.ctx.tm.get(name).cls
        except Exception:
            return None

    def _is_a(self, t, k):
        ks = k if isinstance(k, (tuple, list)) else (k,)
        c = self.class_of(t)
        return c is not None and any(c is kk or (hasattr(kk, "name") and c.is_subclass_of(kk.name)) for kk in ks)

    def install_type_queries(self):
        """ufl.algorithms.analysis type queries (generators over traversals in the source) as structural walks"""
        ov = self.ip.overrides
        ov["has_exact_type"] = lambda e, k: any(self.class_of(t) is k for t in self.nodes_of(e))
        ov["has_type"] = lambda e, k: any(self._is_a(t, k) for t in self.nodes_of(e))
        ov["extract_type"] = lambda e, k: {t for t in self.nodes_of(e) if self._is_a(t, k)}

    # ------------------------------------------------------------------ terminals
    def geometry(self, name):
        if name not in self._geo_nodes:
            t = node(self.geo_values[name], name, ())
            t.tags.update(_ufl_is_terminal_=True, _ufl_typecode_=name, key=(name,), _domain=self.dom, desc=name, cellwise_constant=name not in ("SpatialCoordinate", "CellCoordinate", "QuadratureWeight"))
            self._geo_nodes[name] = t
        return self._geo_nodes[name]

    def _is_cellwise_constant(self, o):
        from .uflmodel import cellwise_constant

        return cellwise_constant(o)

    def function(self, name, shape=(), cls="Coefficient", mapping="identity", number=0, degree=1):
        """a form argument / coefficient whose value is the push-forward of its reference value r<name>"""
        rshape = shape
        ref = T.symbolic("r" + name, rshape)
        tdim, gdim = self.cell.tdim, self.cell.gdim
        if mapping == "identity":
            val = ref
            pb = self._pullback("IdentityPullback")
        elif mapping == "contravariant Piola":
            assert shape == (gdim,)
            ref = T.symbolic("r" + name, (tdim,))
            val = T((gdim,), (), (), {((i,), ()): sym.div(_dot([self.J.get((i, j)) for j in range(tdim)], [ref.get((j,)) for j in range(tdim)]), self.detJ) for i in range(gdim)})
            pb = self._pullback("ContravariantPiola")
        elif mapping == "covariant Piola":
            assert shape == (gdim,)
            ref = T.symbolic("r" + name, (tdim,))
            val = T((gdim,), (), (), {((i,), ()): _dot([self.K.get((j, i)) for j in range(tdim)], [ref.get((j,)) for j in range(tdim)]) for i in range(gdim)})
            pb = self._pullback("CovariantPiola")
        else:
            raise Unsupported(mapping)
        element = Obj("element", reference_value_shape=tuple(ref.shape), pullback=pb, embedded_superdegree=degree, embedded_subdegree=degree, sub_elements=[])
        element.attrs["__class__"] = None
        space = Obj("space", value_shape=tuple(shape), ufl_domain=lambda: self.dom, ufl_element=lambda: element)
        space.attrs["__class__"] = None
        t = node(val, cls, ())
        t.tags.update(_ufl_is_terminal_=True, _ufl_typecode_=cls, key=(cls, name), desc=name, ufl_function_space=lambda: space, ufl_element=lambda: element, ufl_domain=lambda: self.dom, _ref=ref, cellwise_constant=(degree == 0 and cls != "Argument"))
        if cls == "Argument":
            t.tags.update(number=lambda: number, part=lambda: None)
        else:
            t.tags.update(count=lambda: number)
        self.functions[name] = t
        return t

    def _pullback(self, clsname):
        K = self.prog.get_class(f"ufl.pullback.{clsname}")
        return Obj(clsname, __class__=K)

    def reference_value(self, f):
        f = as_T(f)
        ref = f.tags.get("_ref")
        if ref is None:
            raise LiftRaise("ValueError: ReferenceValue of something that is not a form argument")
        r = node(ref, "ReferenceValue", (f,))
        r.tags.update(desc=f"rv({f.tags.get('desc')})", cellwise_constant=False)
        return r

    def _leaf_X(self, j):
        def leaf(name):
            bare = name.rsplit("@", 1)[0]
            if bare in self.vertex_symbols or bare == "w":
                return sym.ZERO
            m = re.match(r"^X\[(\d+)\]$", bare)
            if m:
                return sym.ONE if int(m.group(1)) == j else sym.ZERO
            return d_symbol(name, j)

        return leaf

    def reference_grad(self, a):
        a = as_T(a)
        tdim = self.cell.tdim
        memos = [dict() for _ in range(tdim)]
        leaves = [self._leaf_X(j) for j in range(tdim)]
        data = {}
        for (c, iv), v in a.data.items():
            for j in range(tdim):
                data[(c + (j,), iv)] = derive(v, leaves[j], memos[j])
        r = node(T(a.shape + (tdim,), a.fi, a.fid, data), "ReferenceGrad", (a,))
        return r

    def _leaf_x(self, k):
        """d/dx_k of a symbol: chain rule through the reference coordinate with the inverse Jacobian of the
        symbol's own side (a restricted symbol lives on the cell of that side)"""
        from .uflmodel import restrict

        tdim = self.cell.tdim
        Kside = {}

        def K(side, j):
            if (side, j) not in Kside:
                e = self.K.get((j, k))
                if side:
                    e = restrict(T((), (), (), {((), ()): e}), side).data[((), ())]
                Kside[(side, j)] = e
            return Kside[(side, j)]

        def leaf(name):
            bare, _, side = name.partition("@")
            if bare in self.vertex_symbols or bare == "w":
                return sym.ZERO
            m = re.match(r"^X\[(\d+)\]$", bare)
            if m:
                return K(side, int(m.group(1)))
            return _dot([d_symbol(name, j) for j in range(tdim)], [K(side, j) for j in range(tdim)])

        return leaf

    def grad(self, a):
        a = as_T(a)
        gdim = self.cell.gdim
        memos = [dict() for _ in range(gdim)]
        leaves = [self._leaf_x(k) for k in range(gdim)]
        data = {}
        for (c, iv), v in a.data.items():
            for k in range(gdim):
                data[(c + (k,), iv)] = derive(v, leaves[k], memos[k])
        return node(T(a.shape + (gdim,), a.fi, a.fid, data), "Grad", (a,))

    # ------------------------------------------------------------------ algorithm objects built by lifted code
    def _on_instantiate(self, o, cls):
        if cls.is_subclass_of("DAGTraverser"):
            o.attrs["__call__"] = lambda x, **kw: self.dt_call(o, x, **kw)
            o.attrs["__memo"] = {}
        elif cls.is_subclass_of("Transformer"):
            o.attrs["visit"] = lambda x: self.P.tr_visit(x, o)
            o.attrs["_variable_cache"] = {}

    def dt_call(self, obj, x, **kwargs):
        memo = obj.attrs["__memo"]
        key = (id(x), tuple(sorted((k, id(v)) for k, v in kwargs.items())))
        if key in memo:
            return memo[key][1]
        cls = obj.attrs["__class__"]
        tab = self.ctx.disp.table(cls)
        cn = node_class(x)
        h = tab.get(cn)
        if h is None:
            raise LiftRaise(f"ValueError: no handler for {cn} in {cls.name}")
        ip = self.ip
        if h.kind == "preorder":
            r = ip.call_function(h.func, [x], dict(kwargs), self_obj=obj)
        elif h.kind == "postorder":
            ops = [self.dt_call(o, x_, **kwargs) for x_ in node_operands(x)] if False else [self.dt_call(obj, o, **kwargs) for o in node_operands(x)]
            r = ip.call_function(h.func, [x] + ops, dict(kwargs), self_obj=obj)
        else:
            ops = [self.dt_call(obj, node_operands(x)[i], **kwargs) for i in h.children]
            r = ip.call_function(h.func, [x] + ops, dict(kwargs), self_obj=obj)
        memo[key] = (x, r)
        return r

    # ------------------------------------------------------------------ forms
    def integral(self, integrand, integral_type="cell", metadata=None):
        md = dict(metadata or {})
        W = self

        def reconstruct(integrand=None, metadata=None, **kw):
            if kw:
                raise Unsupported(f"Integral.reconstruct({sorted(kw)})")
            return W.integral(integrand if integrand is not None else itg.attrs["_integrand"], integral_type, metadata if metadata is not None else md)

        itg = Obj("Integral", __class__=self._Integral, _integrand=integrand)
        itg.attrs.update(integrand=lambda: integrand, integral_type=lambda: integral_type, metadata=lambda: md, ufl_domain=lambda: W.dom, reconstruct=reconstruct, subdomain_id=lambda: "everywhere")
        return itg

    def form(self, integrals):
        integrals = list(integrals)
        f = Obj("Form", __class__=self._Form)
        f.attrs.update(integrals=lambda: tuple(integrals), ufl_domains=lambda: (self.dom,), empty=lambda: not integrals, arguments=lambda: ())

        # the terminals the form reports, by kind (each once, in order of first occurrence)
        def terminals(kind):
            k = self.ctx.tm.get(kind).cls
            seen, out = set(), []
            for itg in integrals:
                for t in self.nodes_of(itg.attrs["_integrand"]):
                    if isinstance(t, T) and t.tags.get("_ufl_is_terminal_") and self._is_a(t, k) and id(t) not in seen:
                        seen.add(id(t))
                        out.append(t)
            return tuple(out)

        f.attrs.update(coefficients=lambda: terminals("Coefficient"), constants=lambda: terminals("Constant"), geometric_quantities=lambda: terminals("GeometricQuantity"), arguments=lambda: terminals("Argument"))
        return f

    # ------------------------------------------------------------------ the pipeline
    def compute_form_data(self, form, **options):
        """compute_form_data interpreted from source with the integrand passes interpreted from source too;
        grouping / degree estimation / integral data / FormData are the identity here (C15, C18, C14)."""
        ip = self.ip
        ident = lambda f, *a, **k: f  # noqa: E731
        for name in ("group_form_integrals", "attach_estimated_degrees", "apply_coordinate_derivatives", "build_integral_data"):
            ip.overrides[name] = ident
        ip.overrides["FormData"] = lambda original_form, integral_data, **k: integral_data
        ip.overrides["estimate_total_polynomial_degree"] = lambda e, *a, **k: 1
        fn = self.prog.get_function("ufl.algorithms.compute_form_data", "compute_form_data")
        return ip.call_function(fn, [form], dict(options))


def _dot(a, b):
    acc = sym.ZERO
    for x, y in zip(a, b):
        acc = sym.add(acc, sym.mul(x, y))
    return acc
