"""Shared analysis context (engines are built lazily and once per process)."""

from __future__ import annotations

import random

from .dispatch import Dispatch
from .model import AnalysisError, Program
from .types import TypeModel

# confirmed minima (first clean run: 109 modules, 167 types, 139 concrete, 58 terminals)
MIN_MODULES, MIN_TYPES, MIN_CONCRETE, MIN_TERMINALS = 100, 160, 130, 50


class Context:
    def __init__(self, repo="/repo", tier="quick", seed=0, crosscheck=True):
        self.repo = repo
        self.tier = tier
        self.seed = seed
        self.rng = random.Random(seed)
        self.prog = Program(repo)
        self.tm = TypeModel(self.prog)
        self.disp = Dispatch(self.prog, self.tm)
        if len(self.prog.modules) < MIN_MODULES or len(self.tm.types) < MIN_TYPES:
            raise AnalysisError("program model lost modules/types: resolver regression")
        if len(self.tm.concrete()) < MIN_CONCRETE or len(self.tm.terminals()) < MIN_TERMINALS:
            raise AnalysisError("type model lost concrete types: resolver regression")
        self.xcheck = {}
        if crosscheck:
            self.xcheck.update(self.tm.crosscheck_runtime())

    def crosscheck_dispatch(self, algs=None):
        self.xcheck.update(self.disp.crosscheck_runtime(algs))

    def thorough(self):
        return self.tier == "thorough"
